//@ append: src/rtps/message.rs

// C06 item 5 — parser robustness with Kani.
//
// (a) REACHED, complete per reader: every fixed-layout reader the datagram parser dispatches to,
//     on EVERY prefix (length 0..=N, N ≥ wire size + 4) of a fully symbolic buffer, in both byte
//     orders, never panics (no failing unwrap/assert, no overflow, no out-of-bounds / invalid
//     pointer use) whatever it returns.  Nothing is asserted about the result except that a
//     buffer of at least the wire size is accepted and a shorter one is rejected.
// (b) NOT REACHED (kept below, not listed in obligations): `Message::read_from_buffer` on a fully
//     symbolic datagram.  CBMC explores every arm of `Submessage::read_from_buffer` for every
//     unwinding of the message loop (the submessage kind read through `Bytes` is not constant-
//     propagated), and the INFO_REPLY arm alone (speedy `read_vec::<Locator>`, allocation of
//     symbolic size) exceeds 8 GB / 5 min on a 32-byte buffer with unwind 4.  Kani 0.68 cannot stub
//     methods of the lifetime-generic trait `speedy::Readable<'a, C>`, so the arm cannot be cut out.
#[cfg(kani)]
pub(crate) mod verif_c06_parser {
  use speedy::Readable;

  use super::*;
  use crate::messages::submessages::info_source::InfoSource;

  pub fn stub_format(_a: core::fmt::Arguments<'_>) -> String { String::new() }
  fn any_endianness() -> Endianness { if kani::any() { Endianness::LittleEndian } else { Endianness::BigEndian } }

  /// reader T on every prefix of a symbolic N-byte buffer; WIRE = fixed wire size of T
  fn reader_nopanic<T, const N: usize, const WIRE: usize>()
  where T: for<'a> Readable<'a, Endianness> {
    let a: [u8; N] = kani::any();
    let n: usize = kani::any();
    kani::assume(n <= N);
    let r = T::read_from_buffer_with_ctx(any_endianness(), &a[..n]);
    assert!(r.is_ok() == (n >= WIRE), "accepted iff the buffer holds the fixed layout");
  }

  #[kani::proof] #[kani::unwind(26)] #[kani::stub(alloc::fmt::format, stub_format)]
  fn c06_reader_nopanic_msgheader() { reader_nopanic::<Header, 24, 20>(); }
  #[kani::proof] #[kani::unwind(10)] #[kani::stub(alloc::fmt::format, stub_format)]
  fn c06_reader_nopanic_subheader() { reader_nopanic::<SubmessageHeader, 8, 4>(); }
  #[kani::proof] #[kani::unwind(34)] #[kani::stub(alloc::fmt::format, stub_format)]
  fn c06_reader_nopanic_heartbeat() { reader_nopanic::<Heartbeat, 32, 28>(); }
  #[kani::proof] #[kani::unwind(30)] #[kani::stub(alloc::fmt::format, stub_format)]
  fn c06_reader_nopanic_hbfrag() { reader_nopanic::<HeartbeatFrag, 28, 24>(); }
  #[kani::proof] #[kani::unwind(18)] #[kani::stub(alloc::fmt::format, stub_format)]
  fn c06_reader_nopanic_infodst() { reader_nopanic::<InfoDestination, 16, 12>(); }
  #[kani::proof] #[kani::unwind(26)] #[kani::stub(alloc::fmt::format, stub_format)]
  fn c06_reader_nopanic_infosrc() { reader_nopanic::<InfoSource, 24, 20>(); }
  #[kani::proof] #[kani::unwind(14)] #[kani::stub(alloc::fmt::format, stub_format)]
  fn c06_reader_nopanic_infots() { reader_nopanic::<Timestamp, 12, 8>(); }

  // ---- (b) not reached: whole-datagram harness, kept for the record --------------------------
  /// every datagram of length ≤ N, every byte symbolic, over static storage
  pub fn any_datagram<const N: usize>() -> Bytes {
    let storage: &'static mut [u8; N] = Box::leak(Box::new(kani::any::<[u8; N]>()));
    let len: usize = kani::any();
    kani::assume(len <= N);
    Bytes::from_static(&storage[..]).slice(0..len)
  }
  #[kani::proof] #[kani::unwind(26)] #[kani::stub(alloc::fmt::format, stub_format)]
  fn c06_parser_nopanic_24() { let _ = Message::read_from_buffer(&any_datagram::<24>()); }
}
