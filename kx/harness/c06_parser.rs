//@ append: src/rtps/message.rs

// C06 item 5 — parser robustness, BOUNDED: `Message::read_from_buffer(bytes)` on a fully symbolic
// datagram of any length ≤ N never panics (no failing unwrap/expect/assert, no arithmetic overflow,
// no out-of-bounds index or slice, no invalid pointer use) — whatever the result (Ok or Err).
// Nothing is asserted about the result.  `alloc::fmt::format` (text of error messages) is stubbed.
// The buffer is a `Bytes` over static storage (the cheapest `Bytes` representation; the parser
// only uses the representation-independent API: len/slice/split_to/split_off/clone/deref).
#[cfg(kani)]
pub(crate) mod verif_c06_parser {
  use super::*;

  pub fn stub_format(_a: core::fmt::Arguments<'_>) -> String { String::new() }

  /// every datagram of length ≤ N, every byte symbolic
  pub fn any_datagram<const N: usize>() -> Bytes {
    let storage: &'static mut [u8; N] = Box::leak(Box::new(kani::any::<[u8; N]>()));
    let len: usize = kani::any();
    kani::assume(len <= N);
    Bytes::from_static(&storage[..]).slice(0..len)
  }

  fn parse_any<const N: usize>() {
    let b = any_datagram::<N>();
    let r = Message::read_from_buffer(&b);
    // vacuity guards: both outcomes are reachable
    kani::cover!(r.is_ok(), "some datagram parses");
    kani::cover!(r.is_err(), "some datagram is rejected");
  }

  #[kani::proof] #[kani::unwind(26)] #[kani::stub(alloc::fmt::format, stub_format)]
  fn c06_parser_nopanic_24() { parse_any::<24>() }
  #[kani::proof] #[kani::unwind(34)] #[kani::stub(alloc::fmt::format, stub_format)]
  fn c06_parser_nopanic_32() { parse_any::<32>() }
  #[kani::proof] #[kani::unwind(50)] #[kani::stub(alloc::fmt::format, stub_format)]
  fn c06_parser_nopanic_48() { parse_any::<48>() }
  #[kani::proof] #[kani::unwind(66)] #[kani::stub(alloc::fmt::format, stub_format)]
  fn c06_parser_nopanic_64() { parse_any::<64>() }
}
