//@ append: src/structure/sequence_number.rs

// Cross-engine consistency (DESIGN 4.3): the R2 template impls that Engine V uses for
// SequenceNumber's derives (PartialEq, Eq, PartialOrd, Ord, NumOps) and the hand-mirrored
// RangeBounds impl of SequenceNumberRange equal the real derived operations for all values.
#[cfg(kani)]
mod verif_r2_sn {
  use super::*;
  use std::cmp::Ordering;
  use std::ops::{Bound, RangeBounds};

  #[kani::proof]
  fn r2_sn_cmp_eq() {
    let a: i64 = kani::any();
    let b: i64 = kani::any();
    let (x, y) = (SequenceNumber(a), SequenceNumber(b));
    assert!((x == y) == (a == b));
    assert!((x < y) == (a < b));
    assert!((x <= y) == (a <= b));
    assert!((x > y) == (a > b));
    assert!((x >= y) == (a >= b));
    let c = if a < b { Ordering::Less } else if a == b { Ordering::Equal } else { Ordering::Greater };
    assert!(x.cmp(&y) == c);
    assert!(x.partial_cmp(&y) == Some(c));
  }

  #[kani::proof]
  fn r2_sn_add_sub() {
    let a: i64 = kani::any();
    let b: i64 = kani::any();
    if let Some(s) = a.checked_add(b) {
      assert!((SequenceNumber(a) + SequenceNumber(b)).0 == s);
    }
    if let Some(d) = a.checked_sub(b) {
      assert!((SequenceNumber(a) - SequenceNumber(b)).0 == d);
    }
    assert!(SequenceNumber::default().0 == 1);
    assert!(i64::from(SequenceNumber(a)) == a);
    assert!(SequenceNumber::from(a).0 == a);
  }

  #[kani::proof]
  fn r2_snr_bounds() {
    let a: i64 = kani::any();
    let b: i64 = kani::any();
    let r = SequenceNumber::range_inclusive(SequenceNumber(a), SequenceNumber(b));
    assert!(matches!(r.start_bound(), Bound::Included(s) if s.0 == a));
    assert!(matches!(r.end_bound(), Bound::Included(e) if e.0 == b));
  }
}
