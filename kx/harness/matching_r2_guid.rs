//@ append: src/structure/guid.rs

// Cross-engine consistency (DESIGN 4.3) for unit `matching` (C11): the R2 template specs that
// Engine V uses for the derives of GuidPrefix / EntityId / GUID (PartialEq, Eq, PartialOrd, Ord:
// field-wise in declaration order, byte arrays lexicographic) equal the real derived operations
// for ALL values, and `GuidPrefix::range()` — as the real `impl RangeBounds<GUID>` — has the
// bounds the Verus unit states and contains exactly the GUIDs carrying the prefix.
#[cfg(kani)]
mod verif_r2_guid {
  use super::*;
  use std::cmp::Ordering;
  use std::ops::{Bound, RangeBounds};

  // executable mirror of vx/shims/matching_guid.rs `bytes_cmp`: the first differing byte decides
  fn lex<const N: usize>(a: &[u8; N], b: &[u8; N]) -> Ordering {
    let mut i = 0;
    while i < N {
      if a[i] < b[i] {
        return Ordering::Less;
      }
      if a[i] > b[i] {
        return Ordering::Greater;
      }
      i += 1;
    }
    Ordering::Equal
  }
  fn then(a: Ordering, b: Ordering) -> Ordering {
    match a {
      Ordering::Equal => b,
      o => o,
    }
  }
  fn any_guid() -> GUID {
    GUID {
      prefix: GuidPrefix { bytes: kani::any() },
      entity_id: EntityId { entity_key: kani::any(), entity_kind: EntityKind(kani::any()) },
    }
  }
  // mirror of `guid_cmp`
  fn spec_cmp(x: &GUID, y: &GUID) -> Ordering {
    then(
      lex(&x.prefix.bytes, &y.prefix.bytes),
      then(
        lex(&x.entity_id.entity_key, &y.entity_id.entity_key),
        x.entity_id.entity_kind.0.cmp(&y.entity_id.entity_kind.0),
      ),
    )
  }

  #[kani::proof]
  #[kani::unwind(14)]
  fn r2_guid_cmp_eq() {
    let x = any_guid();
    let y = any_guid();
    let c = spec_cmp(&x, &y);
    assert!(x.cmp(&y) == c);
    assert!(x.partial_cmp(&y) == Some(c));
    assert!((x == y) == (c == Ordering::Equal));
    assert!((x.prefix == y.prefix) == (lex(&x.prefix.bytes, &y.prefix.bytes) == Ordering::Equal));
    assert!(x.prefix.cmp(&y.prefix) == lex(&x.prefix.bytes, &y.prefix.bytes));
    assert!(
      x.entity_id.cmp(&y.entity_id)
        == then(
          lex(&x.entity_id.entity_key, &y.entity_id.entity_key),
          x.entity_id.entity_kind.0.cmp(&y.entity_id.entity_kind.0)
        )
    );
    assert!((x.entity_id == y.entity_id) == (x.entity_id.cmp(&y.entity_id) == Ordering::Equal));
  }

  #[kani::proof]
  #[kani::unwind(14)]
  fn r2_guid_prefix_range() {
    let p = GuidPrefix { bytes: kani::any() };
    let g = any_guid();
    // the constants the Verus unit extracts
    assert!(EntityId::MIN.entity_key == [0u8, 0, 0] && EntityId::MIN.entity_kind.0 == 0);
    assert!(EntityId::MAX.entity_key == [0xFFu8, 0xFF, 0xFF] && EntityId::MAX.entity_kind.0 == 0xFF);
    let r = p.range();
    // the bounds the shim `impl VRangeBounds<GUID> for RangeInclusive<GUID>` states
    assert!(matches!(r.start_bound(), Bound::Included(s) if *s == GUID::new(p, EntityId::MIN)));
    assert!(matches!(r.end_bound(), Bound::Included(e) if *e == GUID::new(p, EntityId::MAX)));
    // and, on the real code, the fact proved in Verus as guid.prefix.range
    assert!(r.contains(&g) == (g.prefix == p));
  }
}
