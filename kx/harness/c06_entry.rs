//@ append: src/rtps/message_receiver.rs

// C06 — the REAL entry point of a datagram: `MessageReceiver::handle_received_packet`, on a real
// `MessageReceiver` (constructed concretely, exactly as dp_event_loop / the crate's own tests do),
// for every datagram that is rejected before the parser:
//   nopanic.entry.short   every datagram shorter than the 20-byte RTPS header (length 0..=19, every
//                         byte value, incl. the "RTPS…DDSPING" ping): returns without panicking
//                         (no out-of-bounds slice/index, no failing unwrap, no overflow)
// (length 20..=24 with a wrong magic is NOT reached by Kani: the magic comparison is symbolic, so CBMC
// walks into the parser behind it; that part is enumerated by the executable contract xc/datagram_entry.rs)
// Only the datagram is symbolic.  `alloc::fmt::format` stubbed (log text).
#[cfg(kani)]
pub(crate) mod verif_c06_entry {
  use super::*;

  pub fn stub_format(_a: core::fmt::Arguments<'_>) -> String { String::new() }

  fn receiver() -> MessageReceiver {
    let (acknack_sender, _acknack_receiver) = mio_channel::sync_channel::<(GuidPrefix, AckSubmessage)>(10);
    let (spdp_liveness_sender, _spdp_liveness_receiver) = mio_channel::sync_channel(8);
    // the receiving ends are leaked so that the channels stay connected, as in the running event loop
    core::mem::forget(_acknack_receiver);
    core::mem::forget(_spdp_liveness_receiver);
    MessageReceiver::new(GuidPrefix::UNKNOWN, acknack_sender, spdp_liveness_sender, None)
  }

  // The length is enumerated concretely (0..=19, loop fully unwound) and every byte is symbolic: with
  // a symbolic length CBMC cannot decide `len < RTPS_MESSAGE_HEADER_SIZE` during symbolic execution
  // and walks into the whole parser + submessage interpreter behind it (> 8 GB, > 10 min).
  #[kani::proof] #[kani::unwind(22)] #[kani::stub(alloc::fmt::format, stub_format)]
  fn c06_entry_short_datagram() {
    let mut mr = receiver();
    // one symbolic 19-byte buffer in static storage; the datagrams are its prefixes (a `Bytes` over
    // static storage is the cheapest representation: 20 heap-backed `Bytes::copy_from_slice` values made
    // CBMC run out of 8 GB in the propositional encoding)
    let buf: &'static [u8; 19] = Box::leak(Box::new(kani::any::<[u8; 19]>()));
    kani::cover!(buf[0] == b'R' && buf[9] == b'D', "ping-shaped datagram");
    let all = Bytes::from_static(&buf[..]);
    let mut len: usize = 0;
    while len <= 19 {
      mr.handle_received_packet(&all.slice(0..len));
      len += 1;
    }
    kani::cover!(len == 20, "all lengths 0..=19 done");
    core::mem::forget(mr); // the receiver lives as long as the event loop; its destructor (readers, sockets, timers) is not part of the claim
  }
}
