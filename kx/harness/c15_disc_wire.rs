//@ append: src/discovery/builtin_endpoint.rs

// C15 — fixed-layout pieces of the discovery data (SPDP / SEDP parameter values that involve no
// String / Vec): Locator_t, GUID_t, ProtocolVersion_t, VendorId_t, BuiltinEndpointSet_t,
// BuiltinEndpointQos_t.  Same obligations and same generic drivers as c15_qos_wire.rs (must be
// overlaid together with it): real Readable/Writable impls (hand-written for Locator, GuidPrefix,
// EntityId, VendorId) executed symbolically, every field value symbolic, both byte orders.
#[cfg(kani)]
pub(crate) mod verif_c15_disc_wire {
  use std::net::{Ipv4Addr, Ipv6Addr, SocketAddrV4, SocketAddrV6};

  use speedy::{Endianness, Readable};

  use super::*;
  use crate::{
    dds::qos::verif_c15_qos_wire::{always, any_endianness, get32, parse_any, put32, wire},
    messages::{protocol_version::ProtocolVersion, vendor_id::VendorId},
    structure::{
      guid::{EntityId, EntityKind, GuidPrefix, GUID},
      locator::Locator,
    },
  };

  // ---- Locator_t (RTPS 2.5 9.3.2: long kind, unsigned long port, octet address[16] = 24) ---------
  // Values that have a wire representation of their own.  Excluded because Locator_t cannot carry
  // them (they are not produced by the parser either): `Other` with one of the four kinds that
  // have a dedicated variant, and the IPv6 flow label / scope id of a SocketAddrV6.
  fn any_locator() -> Locator {
    let k: u8 = kani::any();
    kani::assume(k < 5);
    match k {
      0 => Locator::Invalid,
      1 => Locator::Reserved,
      2 => Locator::UdpV4(SocketAddrV4::new(Ipv4Addr::from(kani::any::<[u8; 4]>()), kani::any())),
      3 => Locator::UdpV6(SocketAddrV6::new(Ipv6Addr::from(kani::any::<[u8; 16]>()), kani::any(), 0, 0)),
      _ => {
        let kind: i32 = kani::any();
        kani::assume(kind < -1 || kind > 2);
        Locator::Other { kind, port: kani::any(), address: kani::any() }
      }
    }
  }
  #[kani::proof]
  #[kani::unwind(30)]
  fn c15_rt_locator() {
    let x = any_locator();
    let e = any_endianness();
    // independent oracle: RTPS 2.5 Table 9.4 / 9.3.2 (LOCATOR_KIND_INVALID -1, RESERVED 0, UDPv4 1,
    // UDPv6 2; LOCATOR_PORT_INVALID 0; LOCATOR_ADDRESS_INVALID all zero; UDPv4 address in the last
    // four octets, the first twelve zero)
    let mut want = [0u8; 24];
    match x {
      Locator::Invalid => put32(&mut want, 0, -1i32 as u32, e),
      Locator::Reserved => put32(&mut want, 0, 0, e),
      Locator::UdpV4(sa) => {
        put32(&mut want, 0, 1, e);
        put32(&mut want, 4, sa.port() as u32, e);
        let o = sa.ip().octets();
        want[20] = o[0]; want[21] = o[1]; want[22] = o[2]; want[23] = o[3];
      }
      Locator::UdpV6(sa) => {
        put32(&mut want, 0, 2, e);
        put32(&mut want, 4, sa.port() as u32, e);
        let o = sa.ip().octets();
        let mut i = 0;
        while i < 16 { want[8 + i] = o[i]; i += 1; }
      }
      Locator::Other { kind, port, address } => {
        put32(&mut want, 0, kind as u32, e);
        put32(&mut want, 4, port, e);
        let mut i = 0;
        while i < 16 { want[8 + i] = address[i]; i += 1; }
      }
    }
    if let Some(y) = wire(&x, e, &want) { assert!(y == x, "plcdr.wire.locator"); }
  }
  // every 24-byte string is accepted (unknown kinds are kept as `Other`); it re-serialises to
  // itself when it is canonical: ports of UDP locators fit 16 bits, UDPv4 has twelve leading zero
  // octets, INVALID / RESERVED carry the invalid port and address
  fn locator_canonical(b: &[u8; 24], e: Endianness) -> bool {
    let kind = get32(b, 0, e) as i32;
    let port = get32(b, 4, e);
    let mut zero_to = 0;
    while zero_to < 16 && b[8 + zero_to] == 0 { zero_to += 1; }
    match kind {
      -1 | 0 => port == 0 && zero_to == 16,
      1 => port <= 0xFFFF && zero_to >= 12,
      2 => port <= 0xFFFF,
      _ => true,
    }
  }
  #[kani::proof]
  #[kani::unwind(30)]
  fn c15_parse_locator() { parse_any::<Locator, 24>(any_endianness(), always::<24>, locator_canonical); }

  // ---- GUID_t (GuidPrefix_t 12 octets + EntityId_t 3 + 1 octets = 16; no byte order) -------------
  #[kani::proof]
  #[kani::unwind(22)]
  fn c15_rt_guid() {
    let x = GUID::new(GuidPrefix { bytes: kani::any() }, EntityId::new(kani::any(), EntityKind::from(kani::any::<u8>())));
    let e = any_endianness();
    let mut want = [0u8; 16];
    let mut i = 0;
    while i < 12 { want[i] = x.prefix.bytes[i]; i += 1; }
    want[12] = x.entity_id.entity_key[0]; want[13] = x.entity_id.entity_key[1]; want[14] = x.entity_id.entity_key[2];
    want[15] = u8::from(x.entity_id.entity_kind);
    if let Some(y) = wire(&x, e, &want) { assert!(y == x, "plcdr.wire.guid"); }
  }
  #[kani::proof]
  #[kani::unwind(22)]
  fn c15_parse_guid() { parse_any::<GUID, 16>(any_endianness(), always::<16>, always::<16>); }

  // ---- ProtocolVersion_t (2 octets; the parameter value is padded to 4) --------------------------
  #[kani::proof]
  #[kani::unwind(10)]
  fn c15_rt_protocol_version() {
    let x = ProtocolVersion { major: kani::any(), minor: kani::any() };
    let e = any_endianness();
    let want = [x.major, x.minor];
    if let Some(y) = wire(&x, e, &want) { assert!(y == x, "plcdr.wire.protocol_version"); }
    let padded = [x.major, x.minor, kani::any(), kani::any()];
    match ProtocolVersion::read_from_buffer_with_ctx(e, &padded) {
      Ok(y) => assert!(y == x, "plcdr.wire.protocol_version: padded value"),
      Err(_) => assert!(false, "plcdr.wire.protocol_version: padded value refused"),
    }
  }
  #[kani::proof]
  #[kani::unwind(10)]
  fn c15_parse_protocol_version() { parse_any::<ProtocolVersion, 2>(any_endianness(), always::<2>, always::<2>); }

  // ---- VendorId_t (2 octets; padded to 4) -------------------------------------------------------
  #[kani::proof]
  #[kani::unwind(10)]
  fn c15_rt_vendor_id() {
    let x = VendorId { vendor_id: kani::any() };
    let e = any_endianness();
    let want = [x.vendor_id[0], x.vendor_id[1]];
    if let Some(y) = wire(&x, e, &want) { assert!(y == x, "plcdr.wire.vendor_id"); }
    let padded = [x.vendor_id[0], x.vendor_id[1], kani::any(), kani::any()];
    match VendorId::read_from_buffer_with_ctx(e, &padded) {
      Ok(y) => assert!(y == x, "plcdr.wire.vendor_id: padded value"),
      Err(_) => assert!(false, "plcdr.wire.vendor_id: padded value refused"),
    }
  }
  #[kani::proof]
  #[kani::unwind(10)]
  fn c15_parse_vendor_id() { parse_any::<VendorId, 2>(any_endianness(), always::<2>, always::<2>); }

  // ---- BuiltinEndpointSet_t / BuiltinEndpointQos_t (unsigned long bit sets, 4) -------------------
  #[kani::proof]
  #[kani::unwind(10)]
  fn c15_rt_builtin_endpoint_set() {
    let x = BuiltinEndpointSet { value: kani::any() };
    let e = any_endianness();
    let mut want = [0u8; 4];
    put32(&mut want, 0, x.value, e);
    if let Some(y) = wire(&x, e, &want) {
      assert!(y == x, "plcdr.wire.builtin_endpoint_set");
      // every endpoint bit survives
      let bit: u32 = kani::any();
      assert!(y.contains(bit) == ((x.value & bit) == bit));
    }
  }
  #[kani::proof]
  #[kani::unwind(10)]
  fn c15_rt_builtin_endpoint_qos() {
    let x = BuiltinEndpointQos { value: kani::any() };
    let e = any_endianness();
    let mut want = [0u8; 4];
    put32(&mut want, 0, x.value, e);
    if let Some(y) = wire(&x, e, &want) {
      assert!(y == x, "plcdr.wire.builtin_endpoint_qos");
      assert!(y.is_best_effort() == (x.value == 1));
    }
  }
  #[kani::proof]
  #[kani::unwind(10)]
  fn c15_parse_builtin_endpoint_set() { parse_any::<BuiltinEndpointSet, 4>(any_endianness(), always::<4>, always::<4>); }
  #[kani::proof]
  #[kani::unwind(10)]
  fn c15_parse_builtin_endpoint_qos() { parse_any::<BuiltinEndpointQos, 4>(any_endianness(), always::<4>, always::<4>); }
}
