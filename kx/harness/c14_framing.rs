//@ append: src/messages/header.rs

// C14 — the 20-byte RTPS message header (unit `framing` assumes it: msg_hdr_rt).  Complete: every
// protocol version, vendor id and GUID prefix symbolic, both byte orders; the protocol id is the only
// value the crate can construct (private field).  The derive(Readable, Writable) expansion of Header and
// the hand-written impls of ProtocolId / VendorId are executed symbolically.
//   c14.rt.msgheader   read(write(h)) == Ok(h), 20 bytes, and the header a builder makes
//                      (Header::new) is valid, i.e. accepted by Message::read_from_buffer's check
#[cfg(kani)]
pub(crate) mod verif_c14_framing {
  use speedy::{Endianness, Readable, Writable};

  use super::*;

  #[kani::proof]
  #[kani::unwind(26)]
  fn c14_rt_msgheader() {
    let e = if kani::any() { Endianness::LittleEndian } else { Endianness::BigEndian };
    let h = Header {
      protocol_id: ProtocolId::default(),
      protocol_version: ProtocolVersion { major: kani::any(), minor: kani::any() },
      vendor_id: VendorId { vendor_id: kani::any() },
      guid_prefix: GuidPrefix { bytes: kani::any() },
    };
    let bytes = match h.write_to_vec_with_ctx(e) { Ok(b) => b, Err(_) => { assert!(false, "write failed"); return } };
    assert!(bytes.len() == 20, "c14.len: RTPS header is 20 bytes");
    assert!(bytes[0] == b'R' && bytes[1] == b'T' && bytes[2] == b'P' && bytes[3] == b'S', "c14.rt: protocol id on the wire");
    match Header::read_from_buffer_with_ctx(e, &bytes) {
      Ok(h2) => assert!(h2 == h, "c14.rt: header reads back"),
      Err(_) => assert!(false, "c14.rt: header rejected"),
    }
    let n = Header::new(GuidPrefix { bytes: kani::any() });
    assert!(n.valid(), "a built header passes the validity check");
    assert!(h.valid() == (h.protocol_version.major <= 2));
  }
}
