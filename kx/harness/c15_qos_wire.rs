//@ append: src/dds/qos.rs

// C15 — per-type wire round trips of the QoS policy values that QosPolicies::to_parameter_list /
// from_parameter_list put into / take out of PL_CDR parameters.  The Verus unit of C15 proves the
// PID pairing on top of ASSUMED per-type round trips  unwire_T(wire_T(x, ctx), ctx) == Some(x);
// these harnesses DISCHARGE those assumptions on the real crate: the speedy derive expansions
// (and speedy's BufferReader / write_to_vec) are executed symbolically by CBMC, every field value
// symbolic, both byte orders, no loop other than constant-bound byte copies/compares.
//   plcdr.wire.<t>         x.write_to_vec_with_ctx(e) has exactly the RTPS wire size, is exactly the
//                          RTPS/DDS layout (independent oracle: kind values of the specification,
//                          CDR primitives in the byte order e, Duration_t = seconds then fraction)
//                          and T::read_from_buffer_with_ctx(e, bytes) == Ok(x), consuming all bytes
//   plcdr.wire.<t>.reject  for ANY byte string of the wire size and any prefix of it: no panic;
//                          a short prefix is an Err; the full string is Ok iff every enum
//                          discriminant in it is one the specification defines (out of range ==> Err);
//                          an accepted canonical string re-serialises to itself
#[cfg(kani)]
pub(crate) mod verif_c15_qos_wire {
  use speedy::{Endianness, Readable, Writable};

  use super::{policy::*, *};
  use crate::structure::{duration::Duration, endpoint::ReliabilityKind};

  // ---- symbolic values: every variant / every field from kani::any() -------------------------
  pub fn any_endianness() -> Endianness {
    if kani::any() { Endianness::LittleEndian } else { Endianness::BigEndian }
  }
  // Duration { seconds: i32, fraction: u32 } has private fields; from_ticks is the bijection
  // i64 -> (i32, u32) = (ticks >> 32, ticks as u32), so every (seconds, fraction) pair is produced.
  impl kani::Arbitrary for Duration {
    fn any() -> Self { Duration::from_ticks(kani::any()) }
  }
  impl kani::Arbitrary for Durability {
    fn any() -> Self {
      let k: u8 = kani::any();
      kani::assume(k < 4);
      match k { 0 => Durability::Volatile, 1 => Durability::TransientLocal, 2 => Durability::Transient, _ => Durability::Persistent }
    }
  }
  impl kani::Arbitrary for PresentationAccessScope {
    fn any() -> Self {
      let k: u8 = kani::any();
      kani::assume(k < 3);
      match k { 0 => PresentationAccessScope::Instance, 1 => PresentationAccessScope::Topic, _ => PresentationAccessScope::Group }
    }
  }
  impl kani::Arbitrary for Presentation {
    fn any() -> Self { Presentation { access_scope: kani::any(), coherent_access: kani::any(), ordered_access: kani::any() } }
  }
  impl kani::Arbitrary for Deadline { fn any() -> Self { Deadline(kani::any()) } }
  impl kani::Arbitrary for LatencyBudget { fn any() -> Self { LatencyBudget { duration: kani::any() } } }
  impl kani::Arbitrary for OwnershipKind {
    fn any() -> Self { if kani::any() { OwnershipKind::Shared } else { OwnershipKind::Exclusive } }
  }
  impl kani::Arbitrary for Liveliness {
    fn any() -> Self {
      let k: u8 = kani::any();
      kani::assume(k < 3);
      let lease_duration: Duration = kani::any();
      match k { 0 => Liveliness::Automatic { lease_duration }, 1 => Liveliness::ManualByParticipant { lease_duration },
                _ => Liveliness::ManualByTopic { lease_duration } }
    }
  }
  impl kani::Arbitrary for TimeBasedFilter { fn any() -> Self { TimeBasedFilter { minimum_separation: kani::any() } } }
  impl kani::Arbitrary for ReliabilityKind {
    fn any() -> Self { if kani::any() { ReliabilityKind::BestEffort } else { ReliabilityKind::Reliable } }
  }
  impl kani::Arbitrary for ReliabilitySerialization {
    fn any() -> Self { ReliabilitySerialization { reliability_kind: kani::any(), max_blocking_time: kani::any() } }
  }
  impl kani::Arbitrary for DestinationOrder {
    fn any() -> Self { if kani::any() { DestinationOrder::ByReceptionTimestamp } else { DestinationOrder::BySourceTimeStamp } }
  }
  impl kani::Arbitrary for HistoryKind {
    fn any() -> Self { if kani::any() { HistoryKind::KeepLast } else { HistoryKind::KeepAll } }
  }
  impl kani::Arbitrary for HistorySerialization {
    fn any() -> Self { HistorySerialization { kind: kani::any(), depth: kani::any() } }
  }
  impl kani::Arbitrary for ResourceLimits {
    fn any() -> Self { ResourceLimits { max_samples: kani::any(), max_instances: kani::any(), max_samples_per_instance: kani::any() } }
  }
  impl kani::Arbitrary for Lifespan { fn any() -> Self { Lifespan { duration: kani::any() } } }

  // ---- independent layout oracle --------------------------------------------------------------
  // CDR primitives in the byte order of the encapsulation (RTPS 2.5 section 9.3.2 / 9.6.3.2: every QoS
  // parameter value is the CDR image of the DDS IDL struct; enum kinds are 32-bit with the IDL
  // ordinal, except ReliabilityKind_t BEST_EFFORT = 1 / RELIABLE = 2; Duration_t = long seconds,
  // unsigned long fraction).
  pub fn put32(out: &mut [u8], at: usize, v: u32, e: Endianness) {
    let b = if e == Endianness::LittleEndian { v.to_le_bytes() } else { v.to_be_bytes() };
    out[at] = b[0]; out[at + 1] = b[1]; out[at + 2] = b[2]; out[at + 3] = b[3];
  }
  pub fn get32(b: &[u8], at: usize, e: Endianness) -> u32 {
    let w = [b[at], b[at + 1], b[at + 2], b[at + 3]];
    if e == Endianness::LittleEndian { u32::from_le_bytes(w) } else { u32::from_be_bytes(w) }
  }
  fn put_dur(out: &mut [u8], at: usize, d: Duration, e: Endianness) {
    let t = d.to_ticks(); // seconds * 2^32 + fraction
    put32(out, at, (t >> 32) as u32, e); // seconds first
    put32(out, at + 4, t as u32, e);     // then fraction
  }
  fn durability_kind(d: Durability) -> u32 {
    match d { Durability::Volatile => 0, Durability::TransientLocal => 1, Durability::Transient => 2, Durability::Persistent => 3 }
  }
  fn scope_kind(s: PresentationAccessScope) -> u32 {
    match s { PresentationAccessScope::Instance => 0, PresentationAccessScope::Topic => 1, PresentationAccessScope::Group => 2 }
  }
  fn ownership_kind(o: &OwnershipKind) -> u32 { match o { OwnershipKind::Shared => 0, OwnershipKind::Exclusive => 1 } }
  fn liveliness_kind(l: &Liveliness) -> u32 {
    match l { Liveliness::Automatic { .. } => 0, Liveliness::ManualByParticipant { .. } => 1, Liveliness::ManualByTopic { .. } => 2 }
  }
  fn lease(l: &Liveliness) -> Duration {
    match l { Liveliness::Automatic { lease_duration } => *lease_duration,
              Liveliness::ManualByParticipant { lease_duration } => *lease_duration,
              Liveliness::ManualByTopic { lease_duration } => *lease_duration }
  }
  fn reliability_kind(k: ReliabilityKind) -> u32 { match k { ReliabilityKind::BestEffort => 1, ReliabilityKind::Reliable => 2 } }
  fn dest_kind(d: DestinationOrder) -> u32 { match d { DestinationOrder::ByReceptionTimestamp => 0, DestinationOrder::BySourceTimeStamp => 1 } }
  fn history_kind(k: &HistoryKind) -> u32 { match k { HistoryKind::KeepLast => 0, HistoryKind::KeepAll => 1 } }

  // ---- the obligations, generic over the parameter type ----------------------------------------
  /// plcdr.wire.<t>: size, layout, parse succeeds and consumes every byte; returns the parsed value
  /// (None only after a failed assertion) for the equality check at the call site (several of the
  /// helper types have no PartialEq)
  pub fn wire<T, const N: usize>(x: &T, e: Endianness, want: &[u8; N]) -> Option<T>
  where T: for<'a> Readable<'a, Endianness> + Writable<Endianness> {
    let bytes = match x.write_to_vec_with_ctx(e) { Ok(b) => b, Err(_) => { assert!(false, "plcdr.wire: write failed"); return None } };
    assert!(bytes.len() == N, "plcdr.wire: wire size");
    assert!(bytes[..] == want[..], "plcdr.wire: wire layout");
    let (r, used) = T::read_with_length_from_buffer_with_ctx(e, &bytes);
    assert!(used == N, "plcdr.wire: bytes consumed");
    match r { Ok(y) => Some(y), Err(_) => { assert!(false, "plcdr.wire: parse failed"); None } }
  }
  /// plcdr.wire.<t>.reject: any N bytes, any prefix length k <= N
  pub fn parse_any<T, const N: usize>(e: Endianness, valid: impl Fn(&[u8; N], Endianness) -> bool, canonical: impl Fn(&[u8; N], Endianness) -> bool)
  where T: for<'a> Readable<'a, Endianness> + Writable<Endianness> {
    let b: [u8; N] = kani::any();
    let k: usize = kani::any();
    kani::assume(k <= N);
    match T::read_from_buffer_with_ctx(e, &b[..k]) {
      Ok(v) => {
        assert!(k == N, "plcdr.wire.reject: short input accepted");
        assert!(valid(&b, e), "plcdr.wire.reject: out-of-range discriminant accepted");
        if canonical(&b, e) {
          match v.write_to_vec_with_ctx(e) {
            Ok(again) => { assert!(again.len() == N); assert!(again[..] == b[..], "plcdr.wire.reject: canonical bytes not reproduced"); }
            Err(_) => assert!(false, "write failed"),
          }
        }
      }
      Err(_) => assert!(k < N || !valid(&b, e), "plcdr.wire.reject: well-formed input refused"),
    }
  }
  pub fn always<const N: usize>(_b: &[u8; N], _e: Endianness) -> bool { true }

  // ---- Duration_t (8) -------------------------------------------------------------------------
  #[kani::proof]
  #[kani::unwind(14)]
  fn c15_rt_duration() {
    let x: Duration = kani::any();
    let e = any_endianness();
    let mut want = [0u8; 8];
    put_dur(&mut want, 0, x, e);
    if let Some(y) = wire(&x, e, &want) { assert!(y == x, "plcdr.wire.duration"); }
  }
  #[kani::proof]
  #[kani::unwind(14)]
  fn c15_parse_duration() { parse_any::<Duration, 8>(any_endianness(), always::<8>, always::<8>); }

  // ---- PID_DURABILITY (4) ---------------------------------------------------------------------
  #[kani::proof]
  #[kani::unwind(10)]
  fn c15_rt_durability() {
    let x: Durability = kani::any();
    let e = any_endianness();
    let mut want = [0u8; 4];
    put32(&mut want, 0, durability_kind(x), e);
    if let Some(y) = wire(&x, e, &want) { assert!(y == x, "plcdr.wire.durability"); }
  }
  fn tag_lt_4(b: &[u8; 4], e: Endianness) -> bool { get32(b, 0, e) < 4 }
  #[kani::proof]
  #[kani::unwind(10)]
  fn c15_reject_durability() { parse_any::<Durability, 4>(any_endianness(), tag_lt_4, always::<4>); }

  // ---- PID_PRESENTATION (kind 4 + 2 booleans = 6; Parameter::write_to pads the value to 8) --------
  #[kani::proof]
  #[kani::unwind(14)]
  fn c15_rt_presentation() {
    let x: Presentation = kani::any();
    let e = any_endianness();
    let mut want = [0u8; 6];
    put32(&mut want, 0, scope_kind(x.access_scope), e);
    want[4] = x.coherent_access as u8;
    want[5] = x.ordered_access as u8;
    if let Some(y) = wire(&x, e, &want) { assert!(y == x, "plcdr.wire.presentation"); }
    // what from_parameter_list reads is the parameter value as it sits on the wire: padded to a
    // multiple of 4 with two bytes of any content
    let padded = [want[0], want[1], want[2], want[3], want[4], want[5], kani::any(), kani::any()];
    match Presentation::read_from_buffer_with_ctx(e, &padded) {
      Ok(y) => assert!(y == x, "plcdr.wire.presentation: padded value"),
      Err(_) => assert!(false, "plcdr.wire.presentation: padded value refused"),
    }
  }
  fn presentation_valid(b: &[u8; 6], e: Endianness) -> bool { get32(b, 0, e) < 3 }
  fn presentation_canonical(b: &[u8; 6], _e: Endianness) -> bool { b[4] <= 1 && b[5] <= 1 }
  #[kani::proof]
  #[kani::unwind(12)]
  fn c15_reject_presentation() { parse_any::<Presentation, 6>(any_endianness(), presentation_valid, presentation_canonical); }

  // ---- PID_DEADLINE (8) -----------------------------------------------------------------------
  #[kani::proof]
  #[kani::unwind(14)]
  fn c15_rt_deadline() {
    let x: Deadline = kani::any();
    let e = any_endianness();
    let mut want = [0u8; 8];
    put_dur(&mut want, 0, x.0, e);
    if let Some(y) = wire(&x, e, &want) { assert!(y == x, "plcdr.wire.deadline"); }
  }
  #[kani::proof]
  #[kani::unwind(14)]
  fn c15_parse_deadline() { parse_any::<Deadline, 8>(any_endianness(), always::<8>, always::<8>); }

  // ---- PID_LATENCY_BUDGET (8) -----------------------------------------------------------------
  #[kani::proof]
  #[kani::unwind(14)]
  fn c15_rt_latency_budget() {
    let x: LatencyBudget = kani::any();
    let e = any_endianness();
    let mut want = [0u8; 8];
    put_dur(&mut want, 0, x.duration, e);
    if let Some(y) = wire(&x, e, &want) { assert!(y == x, "plcdr.wire.latency_budget"); }
  }
  #[kani::proof]
  #[kani::unwind(14)]
  fn c15_parse_latency_budget() { parse_any::<LatencyBudget, 8>(any_endianness(), always::<8>, always::<8>); }

  // ---- PID_OWNERSHIP (4) ----------------------------------------------------------------------
  #[kani::proof]
  #[kani::unwind(10)]
  fn c15_rt_ownership_kind() {
    let x: OwnershipKind = kani::any();
    let e = any_endianness();
    let mut want = [0u8; 4];
    put32(&mut want, 0, ownership_kind(&x), e);
    if let Some(y) = wire(&x, e, &want) {
      assert!(matches!((&y, &x), (OwnershipKind::Shared, OwnershipKind::Shared) | (OwnershipKind::Exclusive, OwnershipKind::Exclusive)),
              "plcdr.wire.ownership_kind");
    }
  }
  fn tag_lt_2(b: &[u8; 4], e: Endianness) -> bool { get32(b, 0, e) < 2 }
  #[kani::proof]
  #[kani::unwind(10)]
  fn c15_reject_ownership_kind() { parse_any::<OwnershipKind, 4>(any_endianness(), tag_lt_2, always::<4>); }

  // ---- PID_OWNERSHIP_STRENGTH (i32, 4) --------------------------------------------------------
  #[kani::proof]
  #[kani::unwind(10)]
  fn c15_rt_i32() {
    let x: i32 = kani::any();
    let e = any_endianness();
    let mut want = [0u8; 4];
    put32(&mut want, 0, x as u32, e);
    if let Some(y) = wire(&x, e, &want) { assert!(y == x, "plcdr.wire.i32"); }
  }
  #[kani::proof]
  #[kani::unwind(10)]
  fn c15_parse_i32() { parse_any::<i32, 4>(any_endianness(), always::<4>, always::<4>); }

  // ---- PID_LIVELINESS (kind 4 + Duration 8 = 12) ------------------------------------------------
  #[kani::proof]
  #[kani::unwind(18)]
  fn c15_rt_liveliness() {
    let x: Liveliness = kani::any();
    let e = any_endianness();
    let mut want = [0u8; 12];
    put32(&mut want, 0, liveliness_kind(&x), e);
    put_dur(&mut want, 4, lease(&x), e);
    if let Some(y) = wire(&x, e, &want) { assert!(y == x, "plcdr.wire.liveliness"); }
  }
  fn liveliness_valid(b: &[u8; 12], e: Endianness) -> bool { get32(b, 0, e) < 3 }
  #[kani::proof]
  #[kani::unwind(18)]
  fn c15_reject_liveliness() { parse_any::<Liveliness, 12>(any_endianness(), liveliness_valid, always::<12>); }

  // ---- PID_TIME_BASED_FILTER (8) --------------------------------------------------------------
  #[kani::proof]
  #[kani::unwind(14)]
  fn c15_rt_time_based_filter() {
    let x: TimeBasedFilter = kani::any();
    let e = any_endianness();
    let mut want = [0u8; 8];
    put_dur(&mut want, 0, x.minimum_separation, e);
    if let Some(y) = wire(&x, e, &want) { assert!(y == x, "plcdr.wire.time_based_filter"); }
  }
  #[kani::proof]
  #[kani::unwind(14)]
  fn c15_parse_time_based_filter() { parse_any::<TimeBasedFilter, 8>(any_endianness(), always::<8>, always::<8>); }

  // ---- PID_RELIABILITY (ReliabilityKind_t 4 + Duration 8 = 12) ----------------------------------
  #[kani::proof]
  #[kani::unwind(18)]
  fn c15_rt_reliability_serialization() {
    let x: ReliabilitySerialization = kani::any();
    let e = any_endianness();
    let mut want = [0u8; 12];
    put32(&mut want, 0, reliability_kind(x.reliability_kind), e);
    put_dur(&mut want, 4, x.max_blocking_time, e);
    if let Some(y) = wire(&x, e, &want) {
      assert!(y.reliability_kind == x.reliability_kind, "plcdr.wire.reliability_serialization: kind");
      assert!(y.max_blocking_time == x.max_blocking_time, "plcdr.wire.reliability_serialization: max_blocking_time");
    }
  }
  #[kani::proof]
  #[kani::unwind(10)]
  fn c15_rt_reliability_kind() {
    let x: ReliabilityKind = kani::any();
    let e = any_endianness();
    let mut want = [0u8; 4];
    put32(&mut want, 0, reliability_kind(x), e);
    if let Some(y) = wire(&x, e, &want) { assert!(y == x, "plcdr.wire.reliability_kind"); }
  }
  fn reliability_valid(b: &[u8; 12], e: Endianness) -> bool { let t = get32(b, 0, e); t == 1 || t == 2 }
  #[kani::proof]
  #[kani::unwind(18)]
  fn c15_reject_reliability_serialization() { parse_any::<ReliabilitySerialization, 12>(any_endianness(), reliability_valid, always::<12>); }

  // ---- PID_DESTINATION_ORDER (4) --------------------------------------------------------------
  #[kani::proof]
  #[kani::unwind(10)]
  fn c15_rt_destination_order() {
    let x: DestinationOrder = kani::any();
    let e = any_endianness();
    let mut want = [0u8; 4];
    put32(&mut want, 0, dest_kind(x), e);
    if let Some(y) = wire(&x, e, &want) { assert!(y == x, "plcdr.wire.destination_order"); }
  }
  #[kani::proof]
  #[kani::unwind(10)]
  fn c15_reject_destination_order() { parse_any::<DestinationOrder, 4>(any_endianness(), tag_lt_2, always::<4>); }

  // ---- PID_HISTORY (kind 4 + depth 4 = 8) -------------------------------------------------------
  #[kani::proof]
  #[kani::unwind(14)]
  fn c15_rt_history_serialization() {
    let x: HistorySerialization = kani::any();
    let e = any_endianness();
    let mut want = [0u8; 8];
    put32(&mut want, 0, history_kind(&x.kind), e);
    put32(&mut want, 4, x.depth as u32, e);
    if let Some(y) = wire(&x, e, &want) {
      assert!(history_kind(&y.kind) == history_kind(&x.kind), "plcdr.wire.history_serialization: kind");
      assert!(y.depth == x.depth, "plcdr.wire.history_serialization: depth");
    }
  }
  #[kani::proof]
  #[kani::unwind(10)]
  fn c15_rt_history_kind() {
    let x: HistoryKind = kani::any();
    let e = any_endianness();
    let mut want = [0u8; 4];
    put32(&mut want, 0, history_kind(&x), e);
    if let Some(y) = wire(&x, e, &want) { assert!(history_kind(&y) == history_kind(&x), "plcdr.wire.history_kind"); }
  }
  fn history_valid(b: &[u8; 8], e: Endianness) -> bool { get32(b, 0, e) < 2 }
  #[kani::proof]
  #[kani::unwind(14)]
  fn c15_reject_history_serialization() { parse_any::<HistorySerialization, 8>(any_endianness(), history_valid, always::<8>); }

  // ---- PID_RESOURCE_LIMITS (3 x long = 12) ------------------------------------------------------
  #[kani::proof]
  #[kani::unwind(18)]
  fn c15_rt_resource_limits() {
    let x: ResourceLimits = kani::any();
    let e = any_endianness();
    let mut want = [0u8; 12];
    put32(&mut want, 0, x.max_samples as u32, e);
    put32(&mut want, 4, x.max_instances as u32, e);
    put32(&mut want, 8, x.max_samples_per_instance as u32, e);
    if let Some(y) = wire(&x, e, &want) { assert!(y == x, "plcdr.wire.resource_limits"); }
  }
  #[kani::proof]
  #[kani::unwind(18)]
  fn c15_parse_resource_limits() { parse_any::<ResourceLimits, 12>(any_endianness(), always::<12>, always::<12>); }

  // ---- PID_LIFESPAN (8) -----------------------------------------------------------------------
  #[kani::proof]
  #[kani::unwind(14)]
  fn c15_rt_lifespan() {
    let x: Lifespan = kani::any();
    let e = any_endianness();
    let mut want = [0u8; 8];
    put_dur(&mut want, 0, x.duration, e);
    if let Some(y) = wire(&x, e, &want) { assert!(y == x, "plcdr.wire.lifespan"); }
  }
  #[kani::proof]
  #[kani::unwind(14)]
  fn c15_parse_lifespan() { parse_any::<Lifespan, 8>(any_endianness(), always::<8>, always::<8>); }
}
