//@ append: src/dds/readcondition.rs

// C08 — helper half of kx/harness/c08_sample_cache.rs. The mask fields of `ReadCondition` are
// private to this module, so the constructor for *arbitrary* mask triples (the full domain of the
// selection contract, not only the two conditions the public API can build) has to live here.
#[cfg(kani)]
pub(crate) mod verif_c08_rc {
  use super::*;

  // any subset of a flag type with the given set of valid bits (BitFlags type invariant:
  // no bit outside the declared flags)
  fn any_bits(valid: u32) -> u32 {
    let b: u32 = kani::any();
    kani::assume(b & !valid == 0);
    b
  }

  /// every read condition: all 4 x 4 x 8 mask triples, the empty masks included
  pub fn any_read_condition() -> ReadCondition {
    ReadCondition {
      sample_state_mask: BitFlags::<SampleState>::from_bits_truncate(any_bits(0b11)),
      view_state_mask: BitFlags::<ViewState>::from_bits_truncate(any_bits(0b11)),
      instance_state_mask: BitFlags::<InstanceState>::from_bits_truncate(any_bits(0b111)),
    }
  }

  // the two conditions the public API offers are instances of the mask triple
  // (DDS 1.4 2.2.2.5.8: ANY_*_STATE = all states of the kind)
  #[kani::proof]
  fn c08_readcondition_ctors() {
    let a = ReadCondition::any();
    assert!(a.sample_state_mask().bits() == 0b11);
    assert!(a.view_state_mask().bits() == 0b11);
    assert!(a.instance_state_mask().bits() == 0b111);
    let n = ReadCondition::not_read();
    assert!(n.sample_state_mask().bits() == SampleState::NotRead as u32);
    assert!(n.view_state_mask().bits() == 0b11);
    assert!(n.instance_state_mask().bits() == 0b111);
    // the generator covers both
    let g = any_read_condition();
    kani::cover!(g == a);
    kani::cover!(g == n);
  }
}
