//@ append: src/structure/time.rs

// Cross-engine consistency (DESIGN 4.3) for unit `take_loop` (C09): the R2 template impls that
// Engine V uses for Timestamp's derives (PartialEq, Eq, PartialOrd, Ord = lexicographic on
// (seconds, fraction)) and the assumed specification of std::cmp::max equal the real derived
// operations for all values.
#[cfg(kani)]
mod verif_r2_timestamp {
  use super::*;
  use std::cmp::Ordering;

  #[kani::proof]
  fn r2_timestamp_cmp_eq() {
    let s1: u32 = kani::any();
    let f1: u32 = kani::any();
    let s2: u32 = kani::any();
    let f2: u32 = kani::any();
    let x = Timestamp {
      seconds: s1,
      fraction: f1,
    };
    let y = Timestamp {
      seconds: s2,
      fraction: f2,
    };
    // ts_lt / eq_spec of the unit
    let lt = s1 < s2 || (s1 == s2 && f1 < f2);
    let eq = s1 == s2 && f1 == f2;
    assert!((x == y) == eq);
    assert!((x < y) == lt);
    assert!((x <= y) == (lt || eq));
    assert!((x > y) == !(lt || eq));
    let c = if lt {
      Ordering::Less
    } else if eq {
      Ordering::Equal
    } else {
      Ordering::Greater
    };
    assert!(x.cmp(&y) == c);
    assert!(x.partial_cmp(&y) == Some(c));
    // assume_specification[std::cmp::max]: r == if a.cmp(b) == Greater { a } else { b }
    let m = std::cmp::max(x, y);
    let expect = if c == Ordering::Greater { x } else { y };
    assert!(m == expect);
  }
}
