//@ append: src/security/access_control/access_control_builtin/domain_participant_permissions_document.rs
//@ attr: src/security/access_control/access_control_builtin/domain_participant_permissions_document.rs :: DomainIds::matches
  #[cfg_attr(kani, kani::ensures(|r: &bool| *r == verif_c18::o_domain_ids(self, i)))]
//@ end

// C18 — rule evaluation part. Oracles are written from the property statement and DDS Security
// 1.1 sections 9.4.1.3 (permissions document), 9.4.1.2.7 (governance) and 9.4.3 (check_* tables),
// not from the code.
//
// File-name pattern matching itself (`glob::Pattern::matches`) is NOT under contract: it is
// replaced (kani::stub) by an arbitrary but functional predicate — a nondeterministic truth table
// indexed by (which pattern object, candidate text) — so every claim below holds for every
// possible pattern semantics, in particular for the one of the `glob` crate. (Indexing by pattern
// object is more general than indexing by pattern text: any text-based semantics is one of the
// tables.)
#[cfg(kani)]
pub(crate) mod verif_c18 {
  use super::*;

  // ---- the stubbed pattern predicate ---------------------------------------------------------
  // Patterns are `Pattern::default()` objects (no heap), told apart by where they are stored;
  // candidate texts are "" (id 0) and the one-letter texts "A".."C" (ids 1..3).
  pub const MAXP: usize = 24;
  pub const NSTR: usize = 4;
  pub static mut PAT_REG: [*const Pattern; MAXP] = [core::ptr::null(); MAXP];
  pub static mut PAT_N: usize = 0;
  pub static mut GLOB_BITS: u128 = 0; // bit k*NSTR+s: pattern k matches text s
  pub const STRS: [&str; NSTR] = ["", "A", "B", "C"];

  // Registers every pattern slot of the vector's allocation (its capacity, which any_vec keeps
  // concrete and fully initialised), not only the first len(): registry indices stay concrete.
  pub fn register(ps: &Vec<Pattern>) {
    let cap = ps.capacity();
    let mut k = 0;
    while k < cap {
      unsafe {
        assert!(PAT_N < MAXP);
        PAT_REG[PAT_N] = ps.as_ptr().add(k);
        PAT_N += 1;
      }
      k += 1;
    }
  }
  pub fn register_one(p: &Pattern) {
    unsafe {
      assert!(PAT_N < MAXP);
      PAT_REG[PAT_N] = p as *const Pattern;
      PAT_N += 1;
    }
  }
  macro_rules! find_id {
    ($a:expr; $($k:literal)*) => { $( if unsafe { PAT_REG[$k] } == $a { return $k; } )* };
  }
  fn pat_id(p: &Pattern) -> usize {
    let a = p as *const Pattern;
    find_id!(a; 0 1 2 3 4 5 6 7 8 9 10 11 12 13 14 15 16 17 18 19 20 21 22 23);
    panic!("pattern not registered with the stub")
  }
  fn str_id(s: &str) -> usize {
    let b = s.as_bytes();
    if b.is_empty() { 0 } else { (b[0] - b'A') as usize + 1 }
  }
  pub fn glob_stub(p: &Pattern, s: &str) -> bool {
    let bit = pat_id(p) * NSTR + str_id(s);
    unsafe { (GLOB_BITS >> bit) & 1 == 1 }
  }
  pub fn any_glob_table() {
    unsafe { GLOB_BITS = kani::any(); }
  }
  pub fn any_str() -> &'static str {
    match kani::any::<u8>() % 4 { 0 => "", 1 => "A", 2 => "B", _ => "C" }
  }
  pub fn any_name() -> &'static str { // a topic name: not empty
    match kani::any::<u8>() % 3 { 0 => "A", 1 => "B", _ => "C" }
  }

  // ---- oracles ---------------------------------------------------------------------------------
  // "domain ids matched against the listed values and ranges" (bounds inclusive, 9.4.1.3.2.3.1.1)
  pub fn o_domain_ids(d: &DomainIds, i: u16) -> bool {
    let (lo, hi): (u32, u32) = match *d {
      DomainIds::Value(v) => (v as u32, v as u32),
      DomainIds::Range(a, b) => (a as u32, b as u32),
      DomainIds::Min(a) => (a as u32, u16::MAX as u32),
      DomainIds::Max(b) => (0, b as u32),
    };
    lo <= i as u32 && i as u32 <= hi
  }
  pub fn o_domains(ds: &[DomainIds], i: u16) -> bool {
    let mut k = 0;
    while k < ds.len() { if o_domain_ids(&ds[k], i) { return true; } k += 1; }
    false
  }
  pub fn o_any_pattern(ps: &[Pattern], s: &str) -> bool {
    let mut k = 0;
    while k < ps.len() { if glob_stub(&ps[k], s) { return true; } k += 1; }
    false
  }
  // 9.4.1.3.2.3.1.4: a criterion matches when the topic matches one of its topic expressions, the
  // set of partitions of the entity is contained in the set its partition expressions denote, and
  // every data tag of the entity is listed. An entity without partitions is in the "" partition;
  // a criterion without partitions section denotes the "" partition only.
  pub fn o_criterion(c: &Criterion, topic: &str, parts: &[&str], tags: &[(&str, &str)]) -> bool {
    if !o_any_pattern(&c.topics, topic) { return false; }
    let default_partition = [""];
    let eff: &[&str] = if parts.is_empty() { &default_partition } else { parts };
    let mut k = 0;
    while k < eff.len() {
      let ok = if c.partitions.is_empty() { eff[k].is_empty() } else { o_any_pattern(&c.partitions, eff[k]) };
      if !ok { return false; }
      k += 1;
    }
    let mut k = 0;
    while k < tags.len() {
      let mut found = false;
      let mut j = 0;
      while j < c.data_tags.len() {
        if c.data_tags[j].name == tags[k].0 && c.data_tags[j].value == tags[k].1 { found = true; }
        j += 1;
      }
      if !found { return false; }
      k += 1;
    }
    true
  }
  fn o_criteria(r: &Rule, a: Action) -> &[Criterion] {
    match a { Action::Publish => &r.publish, Action::Subscribe => &r.subscribe, Action::Relay => &r.relay }
  }
  // a rule applies when one of its domain entries covers the domain and one of its criteria of
  // the requested kind matches; "matches" for a criterion is Criterion::is_applicable, which has
  // its own obligations (c18.criterion*), so the layers are checked separately
  pub fn o_rule(r: &Rule, a: Action, dom: u16, topic: &str, parts: &[&str], tags: &[(&str, &str)]) -> bool {
    if !o_domains(&r.domains, dom) { return false; }
    let cs = o_criteria(r, a);
    let mut k = 0;
    while k < cs.len() {
      if cs[k].is_applicable(topic, parts.iter(), tags.iter()) { return true; }
      k += 1;
    }
    false
  }
  // "the first applicable rule of the grant allows it (otherwise the grant's default applies)"
  pub fn o_check_action(g: &Grant, a: Action, dom: u16, topic: &str, parts: &[&str], tags: &[(&str, &str)]) -> bool {
    let mut k = 0;
    while k < g.rules.len() {
      if o_rule(&g.rules[k], a, dom, topic, parts, tags) { return allow(g.rules[k].verdict); }
      k += 1;
    }
    allow(g.default_action)
  }
  pub fn allow(v: AllowOrDeny) -> bool { matches!(v, AllowOrDeny::Allow) }

  // ---- symbolic values ---------------------------------------------------------------------------
  pub fn any_verdict() -> AllowOrDeny { if kani::any() { AllowOrDeny::Allow } else { AllowOrDeny::Deny } }
  pub fn any_action() -> Action {
    match kani::any::<u8>() % 3 { 0 => Action::Publish, 1 => Action::Subscribe, _ => Action::Relay }
  }
  pub fn any_domain_ids() -> DomainIds {
    match kani::any::<u8>() % 4 {
      0 => DomainIds::Value(kani::any()),
      1 => DomainIds::Range(kani::any(), kani::any()),
      2 => DomainIds::Min(kani::any()),
      _ => DomainIds::Max(kani::any()),
    }
  }
  // a vector of symbolic length lo..=hi: one allocation of the maximal size, hi generated elements,
  // and only the length symbolic (elements beyond it are leaked) - keeps every pointer concrete
  pub fn any_vec<T>(lo: usize, hi: usize, mut f: impl FnMut() -> T) -> Vec<T> {
    let mut v = Vec::with_capacity(hi);
    let mut k = 0;
    while k < hi { v.push(f()); k += 1; }
    if lo < hi {
      let n: usize = kani::any();
      kani::assume(lo <= n && n <= hi);
      unsafe { v.set_len(n); }
    }
    v
  }
  const TAGS: [(&str, &str); 3] = [("n", "v"), ("n", "w"), ("m", "v")];
  pub fn any_tag() -> (&'static str, &'static str) {
    match kani::any::<u8>() % 3 { 0 => TAGS[0], 1 => TAGS[1], _ => TAGS[2] }
  }
  pub fn any_criterion(max_topics: usize, max_parts: usize, max_tags: usize) -> Criterion {
    Criterion {
      topics: any_vec(1, max_topics, Pattern::default), // documented invariant: not empty
      partitions: any_vec(0, max_parts, Pattern::default),
      data_tags: any_vec(0, max_tags, || { let (n, v) = any_tag(); DataTag::new(n, v) }),
    }
  }
  pub fn register_criteria(cs: &Vec<Criterion>) {
    let cap = cs.capacity();
    let mut k = 0;
    while k < cap {
      let c: &Criterion = unsafe { &*cs.as_ptr().add(k) }; // initialised by any_vec up to capacity
      register(&c.topics);
      register(&c.partitions);
      k += 1;
    }
  }
  pub fn any_rule(max_domains: usize, max_criteria: usize, max_parts: usize) -> Rule {
    Rule {
      verdict: any_verdict(),
      domains: any_vec(1, max_domains, any_domain_ids), // documented invariant: not empty
      publish: any_vec(0, max_criteria, || any_criterion(1, max_parts, 0)),
      subscribe: any_vec(0, max_criteria, || any_criterion(1, max_parts, 0)),
      relay: any_vec(0, max_criteria, || any_criterion(1, max_parts, 0)),
    }
  }
  pub fn register_rule(r: &Rule) {
    register_criteria(&r.publish); register_criteria(&r.subscribe); register_criteria(&r.relay);
  }

  // ---- c18.domain_ids: complete ------------------------------------------------------------------
  #[kani::proof_for_contract(DomainIds::matches)]
  fn c18_domain_ids() {
    let d = any_domain_ids();
    let i: u16 = kani::any();
    kani::cover!(true);
    d.matches(i);
  }

  // ---- c18.criterion: bounded ---------------------------------------------------------------------
  // explicit partitions on both sides (the entity names 1..2 partitions, the criterion 1..2
  // partition expressions); <= 2 topic expressions, <= 2 data tags on each side
  #[kani::proof]
  #[kani::stub(glob::Pattern::matches, glob_stub)]
  #[kani::unwind(3)]
  fn c18_criterion() {
    any_glob_table();
    let c = any_criterion(2, 2, 2);
    register(&c.topics);
    register(&c.partitions);
    let topic = any_name();
    let parts: Vec<&str> = any_vec(1, 2, any_str);
    let tags: Vec<(&str, &str)> = any_vec(0, 2, any_tag);
    kani::assume(!c.partitions.is_empty());
    let got = c.is_applicable(topic, parts.iter(), tags.iter());
    assert!(got == o_criterion(&c, topic, &parts, &tags));
    core::mem::forget((c, parts, tags));
  }

  // the default ("") partition: the entity names no partition and/or the criterion has no
  // partitions section
  #[kani::proof]
  #[kani::stub(glob::Pattern::matches, glob_stub)]
  #[kani::unwind(3)]
  fn c18_criterion_default_partition() {
    any_glob_table();
    let c = any_criterion(1, 2, 0);
    register(&c.topics);
    register(&c.partitions);
    let topic = any_name();
    let parts: Vec<&str> = any_vec(0, 2, any_str);
    let tags: [(&str, &str); 0] = [];
    kani::assume(parts.is_empty() || c.partitions.is_empty());
    let got = c.is_applicable(topic, parts.iter(), tags.iter());
    assert!(got == o_criterion(&c, topic, &parts, &tags));
    core::mem::forget((c, parts));
  }

  // ---- c18.rule: bounded ---------------------------------------------------------------------------
  // <= 2 domain entries, <= 2 criteria per action kind (1 topic expression, <= 1 partition
  // expression each), entity with <= 1 partition
  #[kani::proof]
  #[kani::stub(glob::Pattern::matches, glob_stub)]
  #[kani::unwind(3)]
  fn c18_rule_applicable() {
    any_glob_table();
    let r = any_rule(2, 2, 1);
    register_rule(&r);
    let (a, dom, topic) = (any_action(), kani::any::<u16>(), any_name());
    let parts: Vec<&str> = any_vec(0, 1, any_str);
    let tags: [(&str, &str); 0] = [];
    let got = r.is_applicable(a, dom, topic, &parts, &tags);
    assert!(got == o_rule(&r, a, dom, topic, &parts, &tags));
    core::mem::forget((r, parts));
  }

  // ---- c18.first_rule: bounded -------------------------------------------------------------------
  // <= 3 rules x <= 2 criteria per action kind, 1 domain entry per rule, 1 topic expression per
  // criterion, no partitions
  #[kani::proof]
  #[kani::stub(glob::Pattern::matches, glob_stub)]
  #[kani::unwind(4)]
  fn c18_first_rule() {
    any_glob_table();
    let g = Grant {
      subject_name: DistinguishedName::from(x509_cert::name::Name::default()),
      validity: chrono::DateTime::<Utc>::MIN_UTC..chrono::DateTime::<Utc>::MAX_UTC,
      rules: any_vec(0, 3, || any_rule(1, 2, 0)),
      default_action: any_verdict(),
    };
    let mut k = 0;
    while k < g.rules.capacity() { register_rule(unsafe { &*g.rules.as_ptr().add(k) }); k += 1; }
    let (a, dom, topic) = (any_action(), kani::any::<u16>(), any_name());
    let parts: [&str; 0] = [];
    let tags: [(&str, &str); 0] = [];
    let got = g.check_action(a, dom, topic, &parts, &tags);
    assert!(allow(got) == o_check_action(&g, a, dom, topic, &parts, &tags));
    core::mem::forget(g);
  }

  // ---- c18.find_grant: bounded -----------------------------------------------------------------
  // structurally distinct subject names without running the X.509 name parser: k empty RDNs
  pub fn dn(k: u8) -> DistinguishedName {
    let rdn = x509_cert::name::RelativeDistinguishedName::default();
    DistinguishedName::from(x509_cert::name::RdnSequence(match k {
      0 => Vec::new(),
      1 => vec![rdn],
      _ => vec![rdn.clone(), rdn],
    }))
  }
  // Instants are the three chrono constants MIN_UTC < UNIX_EPOCH < MAX_UTC (the calendar
  // conversion of symbolic timestamps is too expensive for CBMC: > 7 min); the chrono comparison
  // inside Range::contains is the real one. ranks: 0 = MIN_UTC, 1 = UNIX_EPOCH, 2 = MAX_UTC
  fn any_instant() -> (u8, chrono::DateTime<Utc>) {
    match kani::any::<u8>() % 3 {
      0 => (0, chrono::DateTime::<Utc>::MIN_UTC),
      1 => (1, chrono::DateTime::<Utc>::UNIX_EPOCH),
      _ => (2, chrono::DateTime::<Utc>::MAX_UTC),
    }
  }
  // "the subject's currently valid grant": the first grant whose subject is the participant's and
  // whose validity [not_before, not_after) contains the current time; <= 3 grants, 3 subjects,
  // every ordering of not_before / now / not_after (equal instants included)
  #[kani::proof]
  #[kani::unwind(3)]
  fn c18_find_grant() {
    // bounds: <= 2 grants, 2 distinct subject names, 3 instants
    let subj_k: bool = kani::any();
    let subject = if subj_k { dn(1) } else { dn(0) };
    let (now_i, now) = any_instant();
    let n: usize = kani::any();
    kani::assume(n <= 2);
    let k0: bool = kani::any();
    let k1: bool = kani::any();
    let (b0_i, b0) = any_instant();
    let (a0_i, a0) = any_instant();
    let (b1_i, b1) = any_instant();
    let (a1_i, a1) = any_instant();
    let mut grants: Vec<Grant> = Vec::with_capacity(2);
    grants.push(Grant { subject_name: if k0 { dn(1) } else { dn(0) }, validity: b0..a0, rules: Vec::new(), default_action: any_verdict() });
    grants.push(Grant { subject_name: if k1 { dn(1) } else { dn(0) }, validity: b1..a1, rules: Vec::new(), default_action: any_verdict() });
    unsafe { grants.set_len(n); }
    let perms = DomainParticipantPermissions { grants, original_string: String::new() };
    let got = perms.find_grant(&subject, &now);
    let ok0 = n >= 1 && k0 == subj_k && b0_i <= now_i && now_i < a0_i;
    let ok1 = n >= 2 && k1 == subj_k && b1_i <= now_i && now_i < a1_i;
    let want: Option<usize> = if ok0 { Some(0) } else if ok1 { Some(1) } else { None };
    match (got, want) {
      (None, None) => {}
      (Some(g), Some(i)) => assert!(core::ptr::eq(g, unsafe { perms.grants.as_ptr().add(i) })),
      _ => assert!(false, "find_grant: presence differs from the oracle"),
    }
    core::mem::forget((perms, subject));
  }
}
