//@ append: src/security/access_control/access_control_builtin/domain_participant_permissions_document.rs
//@ attr: src/security/access_control/access_control_builtin/domain_participant_permissions_document.rs :: DomainIds::matches
  #[cfg_attr(kani, kani::ensures(|r: &bool| *r == verif_c18::o_domain_ids(self, i)))]
//@ end

// C18 — rule evaluation part. Oracles are written from the property statement and DDS Security
// 1.1 section 9.4.1.3 (permissions document) / 9.4.1.2.7 (governance), not from the code.
//
// File-name pattern matching itself (`glob::Pattern::matches`) is NOT under contract: it is
// replaced (kani::stub) by an arbitrary but functional predicate — a nondeterministic truth table
// indexed by (pattern text, candidate text) — so every claim below holds for every possible
// pattern semantics, in particular for the one of the `glob` crate.
#[cfg(kani)]
pub(crate) mod verif_c18 {
  use chrono::TimeZone;

  use super::*;

  // ---- the stubbed pattern predicate ---------------------------------------------------------
  // patterns are the one-letter texts "a".."d" (ids 0..3); candidate texts are "" (id 0) and the
  // one-letter texts "A".."C" (ids 1..3). What a pattern "means" is given by the table only.
  pub const NPAT: usize = 4;
  pub const NSTR: usize = 4;
  pub static mut GLOB_TABLE: [[bool; NSTR]; NPAT] = [[false; NSTR]; NPAT];
  pub const STRS: [&str; NSTR] = ["", "A", "B", "C"];
  const PATS: [&str; NPAT] = ["a", "b", "c", "d"];

  fn pat_id(p: &Pattern) -> usize {
    let b = p.as_str().as_bytes();
    (b[0] - b'a') as usize
  }
  fn str_id(s: &str) -> usize {
    let b = s.as_bytes();
    if b.is_empty() { 0 } else { (b[0] - b'A') as usize + 1 }
  }
  pub fn glob_stub(p: &Pattern, s: &str) -> bool {
    unsafe { GLOB_TABLE[pat_id(p)][str_id(s)] }
  }
  pub fn any_glob_table() {
    unsafe { GLOB_TABLE = kani::any(); }
  }
  pub fn any_pattern() -> Pattern {
    let k: usize = kani::any();
    kani::assume(k < NPAT);
    Pattern::new(PATS[k]).unwrap()
  }
  pub fn any_str() -> &'static str {
    let k: usize = kani::any();
    kani::assume(k < NSTR);
    STRS[k]
  }

  // ---- oracles ---------------------------------------------------------------------------------
  // "domain ids matched against the listed values and ranges" (bounds inclusive, 9.4.1.3.2.3.1.1)
  pub fn o_domain_ids(d: &DomainIds, i: u16) -> bool {
    let (lo, hi): (u32, u32) = match *d {
      DomainIds::Value(v) => (v as u32, v as u32),
      DomainIds::Range(a, b) => (a as u32, b as u32),
      DomainIds::Min(a) => (a as u32, u16::MAX as u32),
      DomainIds::Max(b) => (0, b as u32),
    };
    lo <= i as u32 && i as u32 <= hi
  }
  fn o_domains(ds: &[DomainIds], i: u16) -> bool {
    let mut k = 0;
    while k < ds.len() { if o_domain_ids(&ds[k], i) { return true; } k += 1; }
    false
  }
  fn o_any_pattern(ps: &[Pattern], s: &str) -> bool {
    let mut k = 0;
    while k < ps.len() { if glob_stub(&ps[k], s) { return true; } k += 1; }
    false
  }
  // 9.4.1.3.2.3.1.4: a criterion matches when the topic matches one of its topic expressions, the
  // set of partitions of the entity is contained in the set its partition expressions denote, and
  // every data tag of the entity is listed. An entity without partitions is in the "" partition;
  // a criterion without partitions section denotes the "" partition only.
  pub fn o_criterion(c: &Criterion, topic: &str, parts: &[&str], tags: &[(&str, &str)]) -> bool {
    if !o_any_pattern(&c.topics, topic) { return false; }
    let default_partition = [""];
    let eff: &[&str] = if parts.is_empty() { &default_partition } else { parts };
    let mut k = 0;
    while k < eff.len() {
      let ok = if c.partitions.is_empty() { eff[k].is_empty() } else { o_any_pattern(&c.partitions, eff[k]) };
      if !ok { return false; }
      k += 1;
    }
    let mut k = 0;
    while k < tags.len() {
      let mut found = false;
      let mut j = 0;
      while j < c.data_tags.len() {
        if c.data_tags[j].name == tags[k].0 && c.data_tags[j].value == tags[k].1 { found = true; }
        j += 1;
      }
      if !found { return false; }
      k += 1;
    }
    true
  }
  fn o_criteria<'r>(r: &'r Rule, a: Action) -> &'r [Criterion] {
    match a { Action::Publish => &r.publish, Action::Subscribe => &r.subscribe, Action::Relay => &r.relay }
  }
  // a rule applies when one of its domain entries covers the domain and one of its criteria of
  // the requested kind matches; "matches" for a criterion is Criterion::is_applicable, which has
  // its own obligations (c18.criterion*), so the layers are checked separately
  pub fn o_rule(r: &Rule, a: Action, dom: u16, topic: &str, parts: &[&str], tags: &[(&str, &str)]) -> bool {
    if !o_domains(&r.domains, dom) { return false; }
    let cs = o_criteria(r, a);
    let mut k = 0;
    while k < cs.len() {
      if cs[k].is_applicable(topic, parts.iter(), tags.iter()) { return true; }
      k += 1;
    }
    false
  }
  // "the first applicable rule of the grant allows it (otherwise the grant's default applies)"
  pub fn o_check_action(g: &Grant, a: Action, dom: u16, topic: &str, parts: &[&str], tags: &[(&str, &str)]) -> bool {
    let mut k = 0;
    while k < g.rules.len() {
      if o_rule(&g.rules[k], a, dom, topic, parts, tags) { return allow(g.rules[k].verdict); }
      k += 1;
    }
    allow(g.default_action)
  }
  pub fn allow(v: AllowOrDeny) -> bool { matches!(v, AllowOrDeny::Allow) }

  // ---- symbolic values ---------------------------------------------------------------------------
  pub fn any_verdict() -> AllowOrDeny { if kani::any() { AllowOrDeny::Allow } else { AllowOrDeny::Deny } }
  pub fn any_action() -> Action {
    match kani::any::<u8>() % 3 { 0 => Action::Publish, 1 => Action::Subscribe, _ => Action::Relay }
  }
  pub fn any_domain_ids() -> DomainIds {
    match kani::any::<u8>() % 4 {
      0 => DomainIds::Value(kani::any()),
      1 => DomainIds::Range(kani::any(), kani::any()),
      2 => DomainIds::Min(kani::any()),
      _ => DomainIds::Max(kani::any()),
    }
  }
  // a vector of symbolic length lo..=hi (hi <= 2) built without reallocation
  pub fn any_vec<T>(lo: usize, hi: usize, mut f: impl FnMut() -> T) -> Vec<T> {
    let n: usize = kani::any();
    kani::assume(lo <= n && n <= hi);
    match n { 0 => Vec::new(), 1 => vec![f()], _ => vec![f(), f()] }
  }
  const TAGS: [(&str, &str); 3] = [("n", "v"), ("n", "w"), ("m", "v")];
  pub fn any_tag() -> (&'static str, &'static str) {
    let k: usize = kani::any();
    kani::assume(k < TAGS.len());
    TAGS[k]
  }
  pub fn any_criterion(max_topics: usize, max_parts: usize, max_tags: usize) -> Criterion {
    Criterion {
      topics: any_vec(1, max_topics, any_pattern), // documented invariant: not empty
      partitions: any_vec(0, max_parts, any_pattern),
      data_tags: any_vec(0, max_tags, || { let (n, v) = any_tag(); DataTag::new(n, v) }),
    }
  }

  // ---- c18.domain_ids: complete ------------------------------------------------------------------
  #[kani::proof_for_contract(DomainIds::matches)]
  fn c18_domain_ids() {
    let d = any_domain_ids();
    let i: u16 = kani::any();
    kani::cover!(true);
    d.matches(i);
  }

  // ---- c18.criterion: bounded ---------------------------------------------------------------------
  // explicit partitions on both sides (the entity names 1..2 partitions, the criterion 1..2
  // partition expressions)
  #[kani::proof]
  #[kani::stub(glob::Pattern::matches, glob_stub)]
  #[kani::unwind(6)]
  fn c18_criterion() {
    any_glob_table();
    let c = any_criterion(2, 2, 2);
    let topic = any_str();
    let parts: Vec<&str> = any_vec(0, 2, any_str);
    let tags: Vec<(&str, &str)> = any_vec(0, 2, any_tag);
    kani::assume(!parts.is_empty() && !c.partitions.is_empty());
    let got = c.is_applicable(topic, parts.iter(), tags.iter());
    assert!(got == o_criterion(&c, topic, &parts, &tags));
  }

  // the default ("") partition: the entity names no partition and/or the criterion has no
  // partitions section
  #[kani::proof]
  #[kani::stub(glob::Pattern::matches, glob_stub)]
  #[kani::unwind(6)]
  fn c18_criterion_default_partition() {
    any_glob_table();
    let c = any_criterion(1, 2, 0);
    let topic = any_str();
    let parts: Vec<&str> = any_vec(0, 2, any_str);
    let tags: Vec<(&str, &str)> = Vec::new();
    kani::assume(parts.is_empty() || c.partitions.is_empty());
    let got = c.is_applicable(topic, parts.iter(), tags.iter());
    assert!(got == o_criterion(&c, topic, &parts, &tags));
  }
}
