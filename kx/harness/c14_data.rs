//@ append: src/messages/submessages/data.rs

// C14 item 3 — DATA, BOUNDED: payload length L ≤ 8 (every residue mod 4), no inline QoS or one
// parameter of ≤ 4 value bytes; Data flag with little endian, Key flag with big endian; every header field, payload byte, parameter id/value byte symbolic;
// both byte orders.  Struct level: Data::write_to (real Writable impl, through write_to_vec_with_ctx)
// against Data::deserialize_data (real parser, through Bytes / io::Cursor).
//   c14.rt.data     parse(write(d)) == d, payload and parameter values compared up to the zero
//                   padding to a 4-byte boundary that RTPS framing adds
//   c14.len.data    |write(d)| == d.len_serialized() (what MessageBuilder::data_msg announces)
#[cfg(kani)]
pub(crate) mod verif_c14_data {
  use speedy::Endianness;

  use super::*;
  use crate::{
    messages::submessages::elements::parameter::Parameter,
    structure::{guid::EntityKind, parameter_id::ParameterId},
  };

  pub fn stub_format(_a: core::fmt::Arguments<'_>) -> String { String::new() }
  fn any_entity_id() -> EntityId { EntityId::new(kani::any(), EntityKind::from(kani::any::<u8>())) }

  /// payload / value as the parser returns it: original bytes followed by zero padding to 4
  fn eq_up_to_padding(parsed: &[u8], orig: &[u8]) -> bool {
    if parsed.len() != round_up_to_4(orig.len()) { return false; }
    let i: usize = kani::any();
    kani::assume(i < parsed.len());
    if i < orig.len() { parsed[i] == orig[i] } else { parsed[i] == 0 }
  }

  // the byte order is a harness constant (each harness runs both): the flag byte decides in the
  // parser whether an inline-QoS list / a payload is expected, and a symbolic flag byte makes CBMC
  // unwind the (unbounded) parameter-list loop even when no list is present
  fn data_rt<const L: usize>(le: bool, with_payload: bool, qos_value_len: Option<usize>) {
    let e = if le { Endianness::LittleEndian } else { Endianness::BigEndian };
    let payload: [u8; L] = kani::any();
    let qv: [u8; 4] = kani::any();
    let pid = match <ParameterId as speedy::Readable<Endianness>>::read_from_buffer_with_ctx(Endianness::LittleEndian, &kani::any::<[u8; 2]>()) { Ok(p) => p, Err(_) => { assert!(false); return } };
    kani::assume(pid != ParameterId::PID_SENTINEL);
    let inline_qos = qos_value_len.map(|n| ParameterList { parameters: vec![Parameter { parameter_id: pid, value: qv[..n].to_vec() }] });
    let d = Data {
      reader_id: any_entity_id(), writer_id: any_entity_id(), writer_sn: SequenceNumber::new(kani::any()),
      inline_qos,
      serialized_payload: if with_payload { Some(Bytes::from_static(Box::leak(Box::new(payload)))) } else { None },
    };
    // flags as MessageBuilder::data_msg sets them: E, Q iff inline QoS, D or K iff payload
    let mut flags = BitFlags::<DATA_Flags>::from_endianness(e);
    if d.inline_qos.is_some() { flags |= DATA_Flags::InlineQos; }
    if with_payload { flags |= if le { DATA_Flags::Data } else { DATA_Flags::Key }; }
    let bytes = match d.write_to_vec_with_ctx(e) { Ok(b) => b, Err(_) => { assert!(false, "write failed"); return } };
    assert!(bytes.len() == d.len_serialized(), "c14.len.data");
    assert!(bytes.len() % 4 == 0, "c14.len.data: next submessage header stays 4-aligned");
    // parse from a Bytes over static storage (cheapest Bytes representation: clone/split are plain
    // pointer arithmetic; the parser only uses the representation-independent API)
    let wire: &'static [u8] = Box::leak(bytes.into_boxed_slice());
    match Data::deserialize_data(&Bytes::from_static(wire), flags) {
      Ok(back) => {
        assert!(back.reader_id == d.reader_id && back.writer_id == d.writer_id && back.writer_sn == d.writer_sn, "c14.rt.data: ids/sn");
        match (&back.serialized_payload, with_payload) {
          (Some(p), true) => assert!(eq_up_to_padding(p, &payload), "c14.rt.data: payload"),
          (None, false) => (),
          _ => assert!(false, "c14.rt.data: payload presence"),
        }
        match (&back.inline_qos, qos_value_len) {
          (None, None) => (),
          (Some(q), Some(n)) => {
            assert!(q.parameters.len() == 1, "c14.rt.data: parameter count");
            assert!(q.parameters[0].parameter_id == pid, "c14.rt.data: parameter id");
            assert!(eq_up_to_padding(&q.parameters[0].value, &qv[..n]), "c14.rt.data: parameter value");
          }
          _ => assert!(false, "c14.rt.data: inline QoS presence"),
        }
      }
      Err(_) => assert!(false, "c14.rt.data: parse failed"),
    }
  }

  macro_rules! data_harnesses { ($($l:literal $h:ident;)*) => { $(
    #[kani::proof] #[kani::unwind(40)] #[kani::stub(alloc::fmt::format, stub_format)]
    fn $h() { data_rt::<$l>(true, true, None); data_rt::<$l>(false, true, None); }
  )* } }
  data_harnesses! {
    0 c14_rt_data_p0; 1 c14_rt_data_p1; 2 c14_rt_data_p2; 3 c14_rt_data_p3; 4 c14_rt_data_p4;
    5 c14_rt_data_p5; 6 c14_rt_data_p6; 7 c14_rt_data_p7; 8 c14_rt_data_p8;
  }
  // no payload, no inline QoS (dispose-by-key-hash shape without the hash) and tiny inline QoS
  #[kani::proof] #[kani::unwind(40)] #[kani::stub(alloc::fmt::format, stub_format)]
  fn c14_rt_data_nopayload() { data_rt::<0>(true, false, None); data_rt::<0>(false, false, None); }
  #[kani::proof] #[kani::unwind(12)] #[kani::stub(alloc::fmt::format, stub_format)]
  fn c14_rt_data_q3_nopayload() { data_rt::<0>(true, false, Some(3)); }
  #[kani::proof] #[kani::unwind(12)] #[kani::stub(alloc::fmt::format, stub_format)]
  fn c14_rt_data_q4_p1() { data_rt::<1>(false, true, Some(4)); }
}
