//@ append: src/messages/submessages/submessage.rs

// C14 — fixed-layout submessages, struct level, complete: every field value symbolic, both byte
// orders.  The speedy derive expansions / hand-written Readable+Writable impls of the real crate
// are executed symbolically; nothing of the code under proof is re-stated here.
//   c14.rt.<x>     read(write(x)) == Ok(x)
//   c14.len.<x>    |write(x)| == the length the implementation itself announces for x
//                  (len_serialized / content_length put into the header by create_submessage /
//                  MessageBuilder) and, where the code has no such function, the RTPS wire size
//   c14.canon.<x>  for ANY byte string of that size: parse succeeds and write(parse(b)) == b
//                  (re-serialising a parsed message reproduces the same bytes)
//   c14.header     SubmessageHeader: kind/flags/content_length round trip; the 16-bit length is
//                  laid out in the byte order announced by flag bit 0, whatever the context
#[cfg(kani)]
pub(crate) mod verif_c14_fixed {
  use speedy::{Endianness, Readable, Writable};
  use enumflags2::BitFlags;

  use super::*;
  use crate::{
    messages::{
      protocol_version::ProtocolVersion,
      submessages::{
        submessage_flag::{endianness_flag, FromEndianness},
        submessage_header::SubmessageHeader,
        submessage_kind::SubmessageKind,
      },
      vendor_id::VendorId,
    },
    rtps::{message::MessageBuilder, SubmessageBody},
    structure::{
      guid::{EntityKind, GuidPrefix},
      sequence_number::{FragmentNumber, SequenceNumber},
      time::Timestamp,
    },
  };

  // ---- symbolic values ---------------------------------------------------------------------
  pub fn any_endianness() -> Endianness {
    if kani::any() { Endianness::LittleEndian } else { Endianness::BigEndian }
  }
  pub fn any_entity_id() -> EntityId {
    EntityId::new(kani::any(), EntityKind::from(kani::any::<u8>()))
  }
  pub fn any_prefix() -> GuidPrefix { GuidPrefix { bytes: kani::any() } }
  pub fn any_sn() -> SequenceNumber { SequenceNumber::new(kani::any()) }
  pub fn any_heartbeat() -> Heartbeat {
    Heartbeat { reader_id: any_entity_id(), writer_id: any_entity_id(), first_sn: any_sn(), last_sn: any_sn(), count: kani::any() }
  }
  pub fn any_heartbeat_frag() -> HeartbeatFrag {
    HeartbeatFrag { reader_id: any_entity_id(), writer_id: any_entity_id(), writer_sn: any_sn(),
                    last_fragment_num: FragmentNumber::new(kani::any()), count: kani::any() }
  }
  pub fn any_info_source() -> InfoSource {
    InfoSource { unused: kani::any(), protocol_version: ProtocolVersion { major: kani::any(), minor: kani::any() },
                 vendor_id: VendorId { vendor_id: kani::any() }, guid_prefix: any_prefix() }
  }

  // ---- independent layout oracle (RTPS 2.5 section 9.4: CDR primitives in the submessage's byte order;
  // EntityId / GuidPrefix are octet arrays; SequenceNumber = high i32 then low u32) -----------------
  fn put32(out: &mut [u8], at: usize, v: u32, e: Endianness) {
    let b = if e == Endianness::LittleEndian { v.to_le_bytes() } else { v.to_be_bytes() };
    out[at] = b[0]; out[at + 1] = b[1]; out[at + 2] = b[2]; out[at + 3] = b[3];
  }
  fn put_eid(out: &mut [u8], at: usize, id: EntityId) {
    out[at] = id.entity_key[0]; out[at + 1] = id.entity_key[1]; out[at + 2] = id.entity_key[2]; out[at + 3] = u8::from(id.entity_kind);
  }
  fn put_sn(out: &mut [u8], at: usize, sn: SequenceNumber, e: Endianness) {
    let v = i64::from(sn);
    put32(out, at, (v >> 32) as u32, e);
    put32(out, at + 4, v as u32, e);
  }

  // ---- the three obligations, generic over the submessage type -------------------------------
  /// rt + len: returns the bytes
  pub fn roundtrip<T>(x: &T, e: Endianness, announced_len: usize) -> Vec<u8>
  where T: for<'a> Readable<'a, Endianness> + Writable<Endianness> + PartialEq {
    let bytes = match x.write_to_vec_with_ctx(e) { Ok(b) => b, Err(_) => { assert!(false, "write failed"); return Vec::new() } };
    assert!(bytes.len() == announced_len, "c14.len");
    match T::read_from_buffer_with_ctx(e, &bytes) {
      Ok(back) => assert!(back == *x, "c14.rt"),
      Err(_) => assert!(false, "c14.rt: parse failed"),
    }
    bytes
  }
  /// canon: any byte string of the wire size parses and re-serialises to itself
  pub fn canonical<T, const N: usize>(e: Endianness)
  where T: for<'a> Readable<'a, Endianness> + Writable<Endianness> {
    let b: [u8; N] = kani::any();
    match T::read_from_buffer_with_ctx(e, &b) {
      Ok(v) => match v.write_to_vec_with_ctx(e) {
        Ok(again) => { assert!(again.len() == N, "c14.canon len"); assert!(again[..] == b[..], "c14.canon"); }
        Err(_) => assert!(false, "write failed"),
      },
      Err(_) => assert!(false, "c14.canon: parse of a full-size buffer failed"),
    }
  }

  // ---- HEARTBEAT (RTPS 2.5 9.4.5.7: 4+4+8+8+4 = 28) -------------------------------------------
  #[kani::proof]
  #[kani::unwind(34)]
  fn c14_rt_heartbeat() {
    let hb = any_heartbeat();
    let e = any_endianness();
    let flags = BitFlags::<HEARTBEAT_Flags>::from_bits_truncate(kani::any());
    // the implementation's own announcement of the length: create_submessage → content_length
    let sm = hb.clone().create_submessage(flags);
    let announced = match &sm { Some(s) => s.header.content_length as usize, None => { assert!(false, "create_submessage refused"); 0 } };
    if let Some(s) = &sm {
      assert!(s.header.kind == SubmessageKind::HEARTBEAT && s.header.flags == flags.bits(), "c14.len: header kind/flags");
      match &s.body { SubmessageBody::Writer(WriterSubmessage::Heartbeat(b, f)) => assert!(*b == hb && *f == flags), _ => assert!(false) }
    }
    assert!(announced == 28);
    let bytes = roundtrip(&hb, e, announced);
    // wire layout another implementation expects (RTPS 9.4.5.7)
    let mut want = [0u8; 28];
    put_eid(&mut want, 0, hb.reader_id); put_eid(&mut want, 4, hb.writer_id);
    put_sn(&mut want, 8, hb.first_sn, e); put_sn(&mut want, 16, hb.last_sn, e);
    put32(&mut want, 24, hb.count as u32, e);
    assert!(bytes[..] == want[..], "c14.rt: HEARTBEAT wire layout");
  }
  #[kani::proof]
  #[kani::unwind(34)]
  fn c14_canon_heartbeat() { canonical::<Heartbeat, 28>(any_endianness()); }

  // ---- HEARTBEAT_FRAG (9.4.5.8: 4+4+8+4+4 = 24); the crate has no length function for it ------
  #[kani::proof]
  #[kani::unwind(30)]
  fn c14_rt_hbfrag() {
    let h = any_heartbeat_frag();
    let e = any_endianness();
    let bytes = roundtrip(&h, e, 24);
    let mut want = [0u8; 24];
    put_eid(&mut want, 0, h.reader_id); put_eid(&mut want, 4, h.writer_id);
    put_sn(&mut want, 8, h.writer_sn, e);
    put32(&mut want, 16, u32::from(h.last_fragment_num), e);
    put32(&mut want, 20, h.count as u32, e);
    assert!(bytes[..] == want[..], "c14.rt: HEARTBEAT_FRAG wire layout");
  }
  #[kani::proof]
  #[kani::unwind(30)]
  fn c14_canon_hbfrag() { canonical::<HeartbeatFrag, 24>(any_endianness()); }

  // ---- INFO_DST (12) ---------------------------------------------------------------------------
  #[kani::proof]
  #[kani::unwind(18)]
  fn c14_rt_infodst() {
    let d = InfoDestination { guid_prefix: any_prefix() };
    let e = any_endianness();
    let flags = BitFlags::<INFODESTINATION_Flags>::from_bits_truncate(kani::any());
    let sm = d.clone().create_submessage(flags);
    assert!(sm.header.kind == SubmessageKind::INFO_DST && sm.header.flags == flags.bits());
    assert!(sm.header.content_length as usize == d.len_serialized());
    match &sm.body { SubmessageBody::Interpreter(InterpreterSubmessage::InfoDestination(b, f)) => assert!(*b == d && *f == flags), _ => assert!(false) }
    let bytes = roundtrip(&d, e, d.len_serialized());
    // the builder used by the writer announces the same length and the flag of the byte order
    let m = MessageBuilder::new().dst_submessage(e, d.guid_prefix).add_header_and_build(any_prefix());
    assert!(m.submessages.len() == 1);
    let h = m.submessages[0].header;
    assert!(h.kind == SubmessageKind::INFO_DST && h.content_length as usize == bytes.len() && endianness_flag(h.flags) == e);
    match &m.submessages[0].body {
      SubmessageBody::Interpreter(InterpreterSubmessage::InfoDestination(b, f)) => assert!(*b == d && *f == BitFlags::<INFODESTINATION_Flags>::from_endianness(e)),
      _ => assert!(false) }
  }
  #[kani::proof]
  #[kani::unwind(18)]
  fn c14_canon_infodst() { canonical::<InfoDestination, 12>(any_endianness()); }

  // ---- INFO_SRC (9.4.5.11: 4+2+2+12 = 20); len_serialized exists only with feature security ----
  #[kani::proof]
  #[kani::unwind(26)]
  fn c14_rt_infosrc() {
    let s = any_info_source();
    #[cfg(feature = "security")]
    {
      let flags = BitFlags::<INFOSOURCE_Flags>::from_bits_truncate(kani::any());
      let sm = s.create_submessage(flags);
      assert!(sm.header.kind == SubmessageKind::INFO_SRC && sm.header.flags == flags.bits());
      assert!(sm.header.content_length as usize == 20 && s.len_serialized() == 20);
    }
    roundtrip(&s, any_endianness(), 20);
  }
  #[kani::proof]
  #[kani::unwind(26)]
  fn c14_canon_infosrc() { canonical::<InfoSource, 20>(any_endianness()); }

  // ---- INFO_TS: written by `impl Writable for InterpreterSubmessage` (this file), read by the
  // INFO_TS arm of Submessage::read_from_buffer = Timestamp::read_from_buffer_with_ctx unless the
  // Invalidate flag is set.  Length announced by MessageBuilder::ts_msg. -------------------------
  #[kani::proof]
  #[kani::unwind(14)]
  fn c14_rt_infots() {
    let e = any_endianness();
    let ts: Option<Timestamp> = if kani::any() { Some(Timestamp::from_ticks(kani::any())) } else { None };
    let m = MessageBuilder::new().ts_msg(e, ts).add_header_and_build(any_prefix());
    assert!(m.submessages.len() == 1);
    let sm = &m.submessages[0];
    assert!(sm.header.kind == SubmessageKind::INFO_TS && endianness_flag(sm.header.flags) == e, "c14.len: header kind/flags");
    let f = BitFlags::<INFOTIMESTAMP_Flags>::from_bits_truncate(sm.header.flags);
    // flag and presence agree (a reader decides from the flag whether a timestamp follows)
    assert!(f.contains(INFOTIMESTAMP_Flags::Invalidate) == ts.is_none(), "c14.len: Invalidate flag");
    match &sm.body { SubmessageBody::Interpreter(InterpreterSubmessage::InfoTimestamp(b, f2)) => assert!(b.timestamp == ts && *f2 == f), _ => assert!(false) }
    // serialise exactly what Submessage::write_to serialises after the header: the body, in the
    // byte order of the header flag (value rebuilt locally so that the enum variant is a constant)
    let body = InterpreterSubmessage::InfoTimestamp(InfoTimestamp { timestamp: ts }, f);
    let bytes = match body.write_to_vec_with_ctx(endianness_flag(sm.header.flags)) { Ok(b) => b, Err(_) => { assert!(false); return } };
    assert!(bytes.len() == sm.header.content_length as usize, "c14.len");
    match ts {
      None => assert!(bytes.is_empty()),
      Some(t) => match Timestamp::read_from_buffer_with_ctx(e, &bytes) {
        Ok(back) => assert!(back == t, "c14.rt"),
        Err(_) => assert!(false, "c14.rt: parse failed"),
      },
    }
  }
  #[kani::proof]
  #[kani::unwind(14)]
  fn c14_canon_infots() { canonical::<Timestamp, 8>(any_endianness()); }

  // ---- SubmessageHeader ------------------------------------------------------------------------
  fn any_kind() -> SubmessageKind {
    match SubmessageKind::read_from_buffer(&[kani::any::<u8>()]) { Ok(k) => k, Err(_) => { assert!(false); SubmessageKind::PAD } }
  }
  #[kani::proof]
  #[kani::unwind(8)]
  fn c14_header() {
    let h = SubmessageHeader { kind: any_kind(), flags: kani::any(), content_length: kani::any() };
    let ctx = any_endianness(); // the context byte order must not matter: the flag decides
    let bytes = roundtrip(&h, ctx, 4);
    assert!(bytes[0] == u8::from(h.kind) && bytes[1] == h.flags);
    // "the length and flags written in each submessage header agree with the bytes that follow":
    // octetsToNextHeader is encoded in the byte order that flag bit 0 announces (RTPS 9.4.5.1)
    let announced = if (bytes[1] & 1) == 1 { u16::from_le_bytes([bytes[2], bytes[3]]) } else { u16::from_be_bytes([bytes[2], bytes[3]]) };
    assert!(announced == h.content_length, "c14.header: length byte order");
    // and the flag produced for a byte order is read back as that byte order
    let e = any_endianness();
    assert!(endianness_flag(BitFlags::<HEARTBEAT_Flags>::from_endianness(e).bits()) == e);
    assert!(endianness_flag(BitFlags::<ACKNACK_Flags>::from_endianness(e).bits()) == e);
    assert!(endianness_flag(BitFlags::<GAP_Flags>::from_endianness(e).bits()) == e);
    assert!(endianness_flag(BitFlags::<DATA_Flags>::from_endianness(e).bits()) == e);
    assert!(endianness_flag(BitFlags::<DATAFRAG_Flags>::from_endianness(e).bits()) == e);
    assert!(endianness_flag(BitFlags::<NACKFRAG_Flags>::from_endianness(e).bits()) == e);
    assert!(endianness_flag(BitFlags::<INFOTIMESTAMP_Flags>::from_endianness(e).bits()) == e);
    assert!(endianness_flag(BitFlags::<INFODESTINATION_Flags>::from_endianness(e).bits()) == e);
    assert!((BitFlags::<HEARTBEAT_Flags>::from_endianness(e).bits() & 1 == 1) == (e == Endianness::LittleEndian));
  }
  #[kani::proof]
  #[kani::unwind(8)]
  fn c14_canon_header() { canonical::<SubmessageHeader, 4>(any_endianness()); }
}
