//@ append: src/dds/with_key/datasample_cache.rs
//@ attr: src/dds/with_key/datasample_cache.rs :: DataSampleCache::sample_selector
  #[cfg_attr(kani, kani::requires(verif_c08::total_fits(&d.generation_counts) && verif_c08::total_fits(&imd.last_generation_accessed)))]
  #[cfg_attr(kani, kani::ensures(|r: &bool| *r == verif_c08::selects(rc, imd, d)))]
//@ end
//@ attr: src/dds/with_key/datasample_cache.rs :: DataSampleCache::make_sample_info
  #[cfg_attr(kani, kani::requires(verif_c08::info_pre(dswm, imd, sample_rank, mrs_generations, mrsic_generations)))]
  #[cfg_attr(kani, kani::ensures(|r: &SampleInfo| verif_c08::info_sample_state(dswm, r)))]
  #[cfg_attr(kani, kani::ensures(|r: &SampleInfo| verif_c08::info_view_state(dswm, imd, r)))]
  #[cfg_attr(kani, kani::ensures(|r: &SampleInfo| verif_c08::info_instance_state(imd, r)))]
  #[cfg_attr(kani, kani::ensures(|r: &SampleInfo| verif_c08::info_generation_counts(dswm, r)))]
  #[cfg_attr(kani, kani::ensures(|r: &SampleInfo| verif_c08::info_ranks(dswm, sample_rank, mrs_generations, mrsic_generations, r)))]
  #[cfg_attr(kani, kani::ensures(|r: &SampleInfo| verif_c08::info_origin(dswm, r)))]
//@ end
//@ attr: src/dds/sampleinfo.rs :: NotAliveGenerationCounts::total
  #[cfg_attr(kani, kani::requires({ let t = self.disposed_generation_count as i64 + self.no_writers_generation_count as i64; t >= i32::MIN as i64 && t <= i32::MAX as i64 }))]
  #[cfg_attr(kani, kani::ensures(|r: &i32| *r as i64 == self.disposed_generation_count as i64 + self.no_writers_generation_count as i64))]
//@ end

// C08 — per-sample part. Contracts of DataSampleCache::sample_selector / make_sample_info and
// NotAliveGenerationCounts::total, written from the property statement and DDS 1.4 sections
// 2.2.2.5.1 (SampleInfo) and 2.2.2.5.8 (ReadCondition); the oracle works on the raw PSM bit values
// and in i64 so that it shares nothing with the code under contract (enumflags `contains`,
// i32 arithmetic, `total()`).
#[cfg(kani)]
pub(crate) mod verif_c08 {
  use serde::{Deserialize, Serialize};

  use super::*;
  use crate::{
    dds::readcondition::verif_c08_rc::any_read_condition,
    structure::guid::{EntityId, EntityKind, GuidPrefix},
  };

  // ---- the data type the generic cache is instantiated with --------------------------------
  #[derive(Clone, PartialEq, Serialize, Deserialize)]
  pub struct D0(pub u8);
  impl Keyed for D0 {
    type K = u8;
    fn key(&self) -> u8 { self.0 }
  }

  // ---- oracle ------------------------------------------------------------------------------
  // DDS 1.4 PSM (2.3.3): READ = 1, NOT_READ = 2; NEW = 1, NOT_NEW = 2;
  // ALIVE = 1, NOT_ALIVE_DISPOSED = 2, NOT_ALIVE_NO_WRITERS = 4
  fn gen_total(g: &NotAliveGenerationCounts) -> i64 {
    g.disposed_generation_count as i64 + g.no_writers_generation_count as i64
  }
  pub fn total_fits(g: &NotAliveGenerationCounts) -> bool {
    gen_total(g) >= i32::MIN as i64 && gen_total(g) <= i32::MAX as i64
  }
  fn sample_state_bit(has_been_read: bool) -> u32 { if has_been_read { 1 } else { 2 } }
  // NEW: the sample belongs to a generation of the instance later than the last one accessed
  // ("first time … accessed samples of that instance, or … the instance has since been reborn")
  fn view_is_new<D: Keyed>(d: &SampleWithMetaData<D>, imd: &InstanceMetaData) -> bool {
    gen_total(&d.generation_counts) > gen_total(&imd.last_generation_accessed)
  }
  fn view_state_bit(is_new: bool) -> u32 { if is_new { 1 } else { 2 } }
  fn instance_state_bit(s: InstanceState) -> u32 {
    match s { InstanceState::Alive => 1, InstanceState::NotAliveDisposed => 2, InstanceState::NotAliveNoWriters => 4 }
  }

  // [c08.select] 2.2.2.5.8: selected <=> each of the three states of the sample is in its mask
  pub fn selects<D: Keyed>(rc: &ReadCondition, imd: &InstanceMetaData, d: &SampleWithMetaData<D>) -> bool {
    rc.sample_state_mask().bits() & sample_state_bit(d.sample_has_been_read) != 0
      && rc.view_state_mask().bits() & view_state_bit(view_is_new(d, imd)) != 0
      && rc.instance_state_mask().bits() & instance_state_bit(imd.instance_state) != 0
  }

  // precondition of make_sample_info: nothing leaves i32
  pub fn info_pre<D: Keyed>(d: &SampleWithMetaData<D>, imd: &InstanceMetaData, sample_rank: usize, mrs: i32, mrsic: i32) -> bool {
    let fits = |x: i64| x >= i32::MIN as i64 && x <= i32::MAX as i64;
    total_fits(&d.generation_counts) && total_fits(&imd.last_generation_accessed)
      && sample_rank <= i32::MAX as usize
      && fits(mrs as i64 - gen_total(&d.generation_counts))
      && fits(mrsic as i64 - gen_total(&d.generation_counts))
  }
  // [c08.info.sample_state] READ <=> the sample has been read before
  pub fn info_sample_state<D: Keyed>(d: &SampleWithMetaData<D>, r: &SampleInfo) -> bool {
    r.sample_state as u32 == sample_state_bit(d.sample_has_been_read)
  }
  // [c08.info.view_state]
  pub fn info_view_state<D: Keyed>(d: &SampleWithMetaData<D>, imd: &InstanceMetaData, r: &SampleInfo) -> bool {
    r.view_state as u32 == view_state_bit(view_is_new(d, imd))
  }
  // [c08.info.instance_state] snapshot of the instance's state
  pub fn info_instance_state(imd: &InstanceMetaData, r: &SampleInfo) -> bool {
    r.instance_state as u32 == instance_state_bit(imd.instance_state)
  }
  // [c08.info.generation_counts] snapshot of the counters at the time the sample was received
  pub fn info_generation_counts<D: Keyed>(d: &SampleWithMetaData<D>, r: &SampleInfo) -> bool {
    r.generation_counts.disposed_generation_count == d.generation_counts.disposed_generation_count
      && r.generation_counts.no_writers_generation_count == d.generation_counts.no_writers_generation_count
  }
  // [c08.info.ranks] 2.2.2.5.1.6-7:
  //   generation_rank          = (MRSIC.disposed + MRSIC.no_writers) - (S.disposed + S.no_writers)
  //   absolute_generation_rank = (MRS.disposed + MRS.no_writers)     - (S.disposed + S.no_writers)
  //   sample_rank              = number of samples of the instance that follow in the collection
  pub fn info_ranks<D: Keyed>(d: &SampleWithMetaData<D>, sample_rank: usize, mrs: i32, mrsic: i32, r: &SampleInfo) -> bool {
    r.generation_rank as i64 == mrsic as i64 - gen_total(&d.generation_counts)
      && r.absolute_generation_rank as i64 == mrs as i64 - gen_total(&d.generation_counts)
      && r.sample_rank >= 0 && r.sample_rank as usize == sample_rank
  }
  // [c08.info.origin] writer, sequence number and write options are those of the sample
  pub fn info_origin<D: Keyed>(d: &SampleWithMetaData<D>, r: &SampleInfo) -> bool {
    r.publication_handle == d.writer_guid && r.sequence_number == d.sequence_number && r.write_options == d.write_options
  }

  // ---- symbolic values ---------------------------------------------------------------------
  fn any_instance_state() -> InstanceState {
    match kani::any::<u8>() % 3 { 0 => InstanceState::Alive, 1 => InstanceState::NotAliveDisposed, _ => InstanceState::NotAliveNoWriters }
  }
  // every pair of i32 counters (no range assumption; overflow is excluded by `requires` only)
  fn any_gen() -> NotAliveGenerationCounts {
    NotAliveGenerationCounts { disposed_generation_count: kani::any(), no_writers_generation_count: kani::any() }
  }
  fn any_guid() -> GUID {
    GUID::new(GuidPrefix { bytes: kani::any() }, EntityId::new(kani::any(), EntityKind::from(kani::any::<u8>())))
  }
  fn any_imd() -> InstanceMetaData {
    InstanceMetaData {
      instance_samples: BTreeSet::new(),
      instance_state: any_instance_state(),
      latest_generation_available: any_gen(),
      last_generation_accessed: any_gen(),
    }
  }
  fn any_sample() -> SampleWithMetaData<D0> {
    SampleWithMetaData::<D0> {
      generation_counts: any_gen(),
      writer_guid: any_guid(),
      sequence_number: SequenceNumber::new(kani::any()),
      write_options: WriteOptions::from(if kani::any() { Some(Timestamp::from_ticks(kani::any())) } else { None }),
      sample_has_been_read: kani::any(),
      sample: if kani::any() { Sample::Value(D0(kani::any())) } else { Sample::Dispose(kani::any()) },
    }
  }

  // ---- harnesses: complete (loop-free, full domain) ------------------------------------------
  #[kani::proof_for_contract(DataSampleCache::sample_selector)]
  fn c08_select_contract() {
    let cache = DataSampleCache::<D0>::new(QosPolicies::qos_none());
    let rc = any_read_condition();
    let imd = any_imd();
    let d = any_sample();
    kani::cover!(true);
    cache.sample_selector(&rc, &imd, &d);
  }

  #[kani::proof_for_contract(DataSampleCache::make_sample_info)]
  fn c08_info_contract() {
    let imd = any_imd();
    let d = any_sample();
    kani::cover!(true);
    DataSampleCache::<D0>::make_sample_info(&d, &imd, kani::any(), kani::any(), kani::any());
  }

  #[kani::proof_for_contract(NotAliveGenerationCounts::total)]
  fn c08_total_contract() {
    let g = any_gen();
    g.total();
  }

  // zero() / sub_zero(): a never-accessed instance is NEW for every sample generation >= 0
  #[kani::proof]
  fn c08_gen_markers() {
    let z = NotAliveGenerationCounts::zero();
    assert!(z.disposed_generation_count == 0 && z.no_writers_generation_count == 0);
    let s = NotAliveGenerationCounts::sub_zero();
    assert!(gen_total(&s) < gen_total(&z));
  }
}

// A bounded sequence harness over the real cache (ONE instance of a unit-keyed type, one add_sample,
// select_keys_for_access, take_by_keys, select again; unwind 3) was tried and is NOT included:
// symbolic execution of the std BTreeMap/BTreeSet node code did not finish within 600 s (4.7 GB and
// growing at 340 s). add_sample / select_* / read_by_keys / take_by_keys are listed as unverified
// in obligations/C08.json.
