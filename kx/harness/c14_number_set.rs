//@ append: src/structure/sequence_number.rs

// C14 route 2b(i) — the real `impl Readable/Writable for NumberSet<N>` (and, through the derive
// expansions, AckNack / Gap / NackFrag) driven by a harness-local MINIMAL implementation of speedy's
// `Reader` / `Writer` traits over a fixed byte array.  Only `read_bytes` / `peek_bytes` /
// `write_bytes` / `context` are provided: every primitive encoder (`write_u32`, `read_value::<u32>`,
// byte swapping) is speedy's own default method, executed symbolically.  What is avoided is
// `BufferReader` (raw pointers), `Vec<u8>` growth of `write_to_vec` and `io::Error` strings.
// One harness per bitmap word count 0..=8 (num_bits symbolic within the word count).
#[cfg(kani)]
pub(crate) mod verif_c14_ns {
  use speedy::{Context, Endianness, IsEof, Readable, Reader, Writable, Writer};

  use super::*;
  use crate::{
    messages::submessages::submessages::{AckNack, Gap, NackFrag},
    structure::guid::{EntityId, EntityKind},
  };

  // ---- minimal speedy back end ---------------------------------------------------------------
  pub struct Ctx(pub Endianness);
  pub struct MiniErr; // no payload: no strings, no io::Error
  impl From<speedy::Error> for MiniErr { fn from(_e: speedy::Error) -> Self { MiniErr } }
  impl IsEof for MiniErr { fn is_eof(&self) -> bool { false } }
  impl Context for Ctx {
    type Error = MiniErr;
    fn endianness(&self) -> Endianness { self.0 }
  }
  pub const CAP: usize = 64; // ≥ 4+4+8 + 8+4+32 + 4 = 64 (NACK_FRAG / GAP / ACKNACK with 8 words)
  pub struct Buf { pub b: [u8; CAP], pub pos: usize, pub end: usize, pub ctx: Ctx }
  impl Buf {
    pub fn new(e: Endianness) -> Self { Buf { b: [0; CAP], pos: 0, end: CAP, ctx: Ctx(e) } }
    /// a reader over exactly the bytes written so far
    pub fn rewind(self) -> Self { Buf { b: self.b, pos: 0, end: self.pos, ctx: self.ctx } }
  }
  impl Writer<Ctx> for Buf {
    fn write_bytes(&mut self, s: &[u8]) -> Result<(), MiniErr> {
      let n = s.len();
      if n > self.end - self.pos { return Err(MiniErr); }
      self.b[self.pos..self.pos + n].copy_from_slice(s);
      self.pos += n;
      Ok(())
    }
    fn context(&self) -> &Ctx { &self.ctx }
    fn context_mut(&mut self) -> &mut Ctx { &mut self.ctx }
  }
  impl<'a> Reader<'a, Ctx> for Buf {
    fn read_bytes(&mut self, out: &mut [u8]) -> Result<(), MiniErr> {
      let n = out.len();
      if n > self.end - self.pos { return Err(MiniErr); }
      out.copy_from_slice(&self.b[self.pos..self.pos + n]);
      self.pos += n;
      Ok(())
    }
    fn peek_bytes(&mut self, out: &mut [u8]) -> Result<(), MiniErr> {
      let n = out.len();
      if n > self.end - self.pos { return Err(MiniErr); }
      out.copy_from_slice(&self.b[self.pos..self.pos + n]);
      Ok(())
    }
    fn context(&self) -> &Ctx { &self.ctx }
    fn context_mut(&mut self) -> &mut Ctx { &mut self.ctx }
  }

  // ---- symbolic values ------------------------------------------------------------------------
  fn any_endianness() -> Endianness { if kani::any() { Endianness::LittleEndian } else { Endianness::BigEndian } }
  fn any_entity_id() -> EntityId { EntityId::new(kani::any(), EntityKind::from(kani::any::<u8>())) }
  /// any well-formed set with exactly W bitmap words: base, num_bits (⌈num_bits/32⌉ == W) and
  /// every bitmap bit arbitrary (including the undefined tail bits of the last word)
  fn any_set<N, const W: usize>(base: N) -> NumberSet<N>
  where N: Clone + Debug + Hash + PartialEq + Eq + NumOps + From<i64> {
    let num_bits: u32 = kani::any();
    kani::assume(num_bits <= 256 && (num_bits as usize + 31) / 32 == W);
    let words: [u32; W] = kani::any();
    NumberSet { bitmap_base: base, num_bits, bitmap: words.to_vec() }
  }
  /// membership oracle (RTPS 9.4.2.6: bit k, counted from the MSB of word k/32, stands for base+k)
  fn member<N>(s: &NumberSet<N>, k: u32) -> bool
  where N: Clone + Debug + Hash + PartialEq + Eq + NumOps + From<i64> {
    k < s.num_bits && (k / 32) < s.bitmap.len() as u32 && (s.bitmap[(k / 32) as usize] >> (31 - k % 32)) & 1 == 1
  }

  // ---- obligations on NumberSet ----------------------------------------------------------------
  // [c14.ns.rt]   read(write(s)) == Ok(s'): base, num_bits equal, membership equal for every k,
  //               (structurally equal, too); reader consumes exactly what the writer produced
  // [c14.ns.len]  bytes written == s.len_serialized()  (what ACKNACK/NACK_FRAG put in the header)
  fn ns_roundtrip<N, const W: usize>(base: N, base_size: usize)
  where N: Clone + Copy + Debug + Hash + PartialEq + Eq + NumOps + From<i64> + Ord + PartialOrd
          + for<'a> Readable<'a, Ctx> + Writable<Ctx>,
        i64: From<N> {
    let s: NumberSet<N> = any_set::<N, W>(base);
    let mut w = Buf::new(any_endianness());
    match s.write_to(&mut w) { Ok(()) => (), Err(_) => { assert!(false, "write failed"); return } }
    let written = w.pos;
    assert!(written == s.len_serialized(), "c14.ns.len");
    assert!(written == base_size + 4 + 4 * W, "c14.ns.len: wire size");
    let mut r = w.rewind();
    match NumberSet::<N>::read_from(&mut r) {
      Ok(back) => {
        assert!(r.pos == written, "c14.ns.rt: consumed");
        assert!(back.bitmap_base == s.bitmap_base && back.num_bits == s.num_bits, "c14.ns.rt: base/num_bits");
        assert!(back.bitmap.len() == W);
        let k: u32 = kani::any();
        assert!(member(&back, k) == member(&s, k), "c14.ns.rt: membership");
        assert!(k < 256 || !member(&back, k), "c14.ns.window");
        assert!(back == s, "c14.ns.rt: structural");
      }
      Err(_) => assert!(false, "c14.ns.rt: parse failed"),
    }
  }

  // [c14.ns.canon] ANY bytes: if the parser accepts, num_bits ≤ 256 (no member outside the window),
  //                exactly ⌈num_bits/32⌉ words were consumed and re-serialising gives the same bytes;
  // [c14.ns.reject] num_bits > 256 ⇒ Err
  fn ns_canonical<N, const W: usize>(base_size: usize)
  where N: Clone + Copy + Debug + Hash + PartialEq + Eq + NumOps + From<i64> + Ord + PartialOrd
          + for<'a> Readable<'a, Ctx> + Writable<Ctx>,
        i64: From<N> {
    let e = any_endianness();
    let mut r = Buf { b: kani::any(), pos: 0, end: base_size + 4 + 4 * W, ctx: Ctx(e) };
    let input = r.b;
    // the num_bits field as an independent reader would decode it
    let nbb = [input[base_size], input[base_size + 1], input[base_size + 2], input[base_size + 3]];
    let wire_num_bits = if e == Endianness::LittleEndian { u32::from_le_bytes(nbb) } else { u32::from_be_bytes(nbb) };
    kani::assume(wire_num_bits > 256 || (wire_num_bits as usize + 31) / 32 == W);
    match NumberSet::<N>::read_from(&mut r) {
      Ok(s) => {
        assert!(wire_num_bits <= 256, "c14.ns.reject");
        assert!(s.num_bits == wire_num_bits && s.bitmap.len() == W);
        assert!(r.pos == base_size + 4 + 4 * W && r.pos == s.len_serialized(), "c14.ns.canon: consumed");
        let mut w = Buf::new(e);
        match s.write_to(&mut w) { Ok(()) => (), Err(_) => { assert!(false); return } }
        assert!(w.pos == r.pos, "c14.ns.canon: length");
        let i: usize = kani::any();
        kani::assume(i < w.pos);
        assert!(w.b[i] == input[i], "c14.ns.canon: bytes");
      }
      Err(_) => assert!(wire_num_bits > 256, "c14.ns.canon: well-formed set rejected"),
    }
  }

  // unwind bound = 4·W+3 (memcmp of the W-word bitmaps in the structural comparison), ≥ 11 for the
  // word loop (≤ 8 iterations + 1) — every loop is fully unwound (unwinding assertions checked)
  macro_rules! ns_harnesses {
    ($($w:literal $u:literal $rt:ident $canon:ident $frt:ident;)*) => { $(
      #[kani::proof] #[kani::unwind($u)]
      #[kani::stub(alloc::fmt::format, stub_format)] #[kani::stub(alloc::vec::Vec::with_capacity, stub_with_capacity)]
      fn $rt() { ns_roundtrip::<SequenceNumber, $w>(SequenceNumber::new(kani::any()), 8); }
      #[kani::proof] #[kani::unwind($u)]
      #[kani::stub(alloc::fmt::format, stub_format)] #[kani::stub(alloc::vec::Vec::with_capacity, stub_with_capacity)]
      fn $canon() { ns_canonical::<SequenceNumber, $w>(8); }
      #[kani::proof] #[kani::unwind($u)]
      #[kani::stub(alloc::fmt::format, stub_format)] #[kani::stub(alloc::vec::Vec::with_capacity, stub_with_capacity)]
      fn $frt() { ns_roundtrip::<FragmentNumber, $w>(FragmentNumber::new(kani::any()), 4); }
    )* }
  }
  pub fn stub_format(_a: core::fmt::Arguments<'_>) -> String { String::new() }
  /// `Vec::with_capacity(n)` with a symbolic n (the word count decoded from the wire) makes CBMC
  /// model an allocation of symbolic size and the grow path of every later `push` (25 GB, > 7 min
  /// for two words).  Capacity is only a hint: the stub returns an empty Vec and lets `push` grow it
  /// along concrete lengths.  Assumed: Vec's observable behaviour does not depend on its capacity.
  pub fn stub_with_capacity<T>(_n: usize) -> Vec<T> { Vec::new() }
  ns_harnesses! {
    0 11 c14_ns_rt_w0 c14_ns_canon_w0 c14_fns_rt_w0;
    1 11 c14_ns_rt_w1 c14_ns_canon_w1 c14_fns_rt_w1;
    2 11 c14_ns_rt_w2 c14_ns_canon_w2 c14_fns_rt_w2;
    3 15 c14_ns_rt_w3 c14_ns_canon_w3 c14_fns_rt_w3;
    4 19 c14_ns_rt_w4 c14_ns_canon_w4 c14_fns_rt_w4;
    5 23 c14_ns_rt_w5 c14_ns_canon_w5 c14_fns_rt_w5;
    6 27 c14_ns_rt_w6 c14_ns_canon_w6 c14_fns_rt_w6;
    7 31 c14_ns_rt_w7 c14_ns_canon_w7 c14_fns_rt_w7;
    8 35 c14_ns_rt_w8 c14_ns_canon_w8 c14_fns_rt_w8;
  }

  // [c14.ns.reject] with room for up to 13 words in the buffer: 256 < num_bits <= 384 ==> Err
  // (a reader that let such a set through would report members outside the 256-element window)
  #[kani::proof] #[kani::unwind(15)]
  #[kani::stub(alloc::fmt::format, stub_format)] #[kani::stub(alloc::vec::Vec::with_capacity, stub_with_capacity)]
  fn c14_ns_reject() {
    let e = any_endianness();
    let mut r = Buf { b: kani::any(), pos: 0, end: CAP, ctx: Ctx(e) };
    let nbb = [r.b[8], r.b[9], r.b[10], r.b[11]];
    let wire_num_bits = if e == Endianness::LittleEndian { u32::from_le_bytes(nbb) } else { u32::from_be_bytes(nbb) };
    kani::assume(wire_num_bits > 256 && wire_num_bits <= 384);
    assert!(NumberSet::<SequenceNumber>::read_from(&mut r).is_err(), "c14.ns.reject");
  }

  // ---- ACKNACK / GAP / NACK_FRAG through the same back end (derive-generated impls, generic in
  // Reader/Writer): all fields symbolic, the set with W words --------------------------------------
  fn acknack_rt<const W: usize>() {
    let a = AckNack { reader_id: any_entity_id(), writer_id: any_entity_id(),
                      reader_sn_state: any_set::<SequenceNumber, W>(SequenceNumber::new(kani::any())), count: kani::any() };
    let mut w = Buf::new(any_endianness());
    match a.write_to(&mut w) { Ok(()) => (), Err(_) => { assert!(false); return } }
    let written = w.pos;
    assert!(written == a.len_serialized(), "c14.len.acknack");
    let mut r = w.rewind();
    match AckNack::read_from(&mut r) {
      Ok(b) => { assert!(r.pos == written); assert!(b == a, "c14.rt.acknack"); }
      Err(_) => assert!(false, "c14.rt.acknack: parse failed"),
    }
  }
  fn gap_rt<const W: usize>() {
    let g = Gap { reader_id: any_entity_id(), writer_id: any_entity_id(), gap_start: SequenceNumber::new(kani::any()),
                  gap_list: any_set::<SequenceNumber, W>(SequenceNumber::new(kani::any())) };
    let mut w = Buf::new(any_endianness());
    match g.write_to(&mut w) { Ok(()) => (), Err(_) => { assert!(false); return } }
    let written = w.pos;
    assert!(written == 4 + 4 + 8 + g.gap_list.len_serialized(), "c14.len.gap");
    let mut r = w.rewind();
    match Gap::read_from(&mut r) {
      Ok(b) => { assert!(r.pos == written); assert!(b == g, "c14.rt.gap"); }
      Err(_) => assert!(false, "c14.rt.gap: parse failed"),
    }
  }
  fn nackfrag_rt<const W: usize>() {
    let n = NackFrag { reader_id: any_entity_id(), writer_id: any_entity_id(), writer_sn: SequenceNumber::new(kani::any()),
                       fragment_number_state: any_set::<FragmentNumber, W>(FragmentNumber::new(kani::any())), count: kani::any() };
    let mut w = Buf::new(any_endianness());
    match n.write_to(&mut w) { Ok(()) => (), Err(_) => { assert!(false); return } }
    let written = w.pos;
    assert!(written == n.len_serialized(), "c14.len.nackfrag");
    let mut r = w.rewind();
    match NackFrag::read_from(&mut r) {
      Ok(b) => { assert!(r.pos == written); assert!(b == n, "c14.rt.nackfrag"); }
      Err(_) => assert!(false, "c14.rt.nackfrag: parse failed"),
    }
  }
  macro_rules! sub_harnesses {
    ($($w:literal $u:literal $a:ident $g:ident $n:ident;)*) => { $(
      #[kani::proof] #[kani::unwind($u)] #[kani::stub(alloc::fmt::format, stub_format)] #[kani::stub(alloc::vec::Vec::with_capacity, stub_with_capacity)] fn $a() { acknack_rt::<$w>(); }
      #[kani::proof] #[kani::unwind($u)] #[kani::stub(alloc::fmt::format, stub_format)] #[kani::stub(alloc::vec::Vec::with_capacity, stub_with_capacity)] fn $g() { gap_rt::<$w>(); }
      #[kani::proof] #[kani::unwind($u)] #[kani::stub(alloc::fmt::format, stub_format)] #[kani::stub(alloc::vec::Vec::with_capacity, stub_with_capacity)] fn $n() { nackfrag_rt::<$w>(); }
    )* }
  }
  sub_harnesses! {
    0 11 c14_rt_acknack_w0 c14_rt_gap_w0 c14_rt_nackfrag_w0;
    1 11 c14_rt_acknack_w1 c14_rt_gap_w1 c14_rt_nackfrag_w1;
    2 11 c14_rt_acknack_w2 c14_rt_gap_w2 c14_rt_nackfrag_w2;
    3 15 c14_rt_acknack_w3 c14_rt_gap_w3 c14_rt_nackfrag_w3;
    4 19 c14_rt_acknack_w4 c14_rt_gap_w4 c14_rt_nackfrag_w4;
    5 23 c14_rt_acknack_w5 c14_rt_gap_w5 c14_rt_nackfrag_w5;
    6 27 c14_rt_acknack_w6 c14_rt_gap_w6 c14_rt_nackfrag_w6;
    7 31 c14_rt_acknack_w7 c14_rt_gap_w7 c14_rt_nackfrag_w7;
    8 35 c14_rt_acknack_w8 c14_rt_gap_w8 c14_rt_nackfrag_w8;
  }
}
