//@ append: src/dds/qos.rs
//@ attr: src/dds/qos.rs :: QosPolicies::compliance_failure_wrt_impl
  #[cfg_attr(kani, kani::ensures(|r: &Option<QosPolicyId>| verif_c10::rxo_verdict_ok(self, other, r)))]
//@ end

// C10 — contract of QosPolicies::compliance_failure_wrt_impl, taken from the property statement
// (DDS 1.4 request/offered table), independent of the code under contract.
#[cfg(kani)]
pub(crate) mod verif_c10 {
  use super::{policy::*, *};
  use crate::structure::duration::Duration;

  // ---- oracle: one conjunct per policy, each guarded by "both specify" -------------------
  fn ticks(d: Duration) -> i64 { d.to_ticks() }
  fn durability_rank(d: Durability) -> u8 {
    match d { Durability::Volatile => 0, Durability::TransientLocal => 1, Durability::Transient => 2, Durability::Persistent => 3 }
  }
  fn scope_rank(s: PresentationAccessScope) -> u8 {
    match s { PresentationAccessScope::Instance => 0, PresentationAccessScope::Topic => 1, PresentationAccessScope::Group => 2 }
  }
  fn liveliness_rank(l: &Liveliness) -> u8 {
    match l { Liveliness::Automatic { .. } => 0, Liveliness::ManualByParticipant { .. } => 1, Liveliness::ManualByTopic { .. } => 2 }
  }
  fn lease(l: &Liveliness) -> Duration {
    match l { Liveliness::Automatic { lease_duration } => *lease_duration,
              Liveliness::ManualByParticipant { lease_duration } => *lease_duration,
              Liveliness::ManualByTopic { lease_duration } => *lease_duration }
  }
  fn reliability_rank(r: &Reliability) -> u8 { match r { Reliability::BestEffort => 0, Reliability::Reliable { .. } => 1 } }
  fn dest_rank(d: DestinationOrder) -> u8 { match d { DestinationOrder::ByReceptionTimestamp => 0, DestinationOrder::BySourceTimeStamp => 1 } }
  fn own_kind(o: &Ownership) -> u8 { match o { Ownership::Shared => 0, Ownership::Exclusive { .. } => 1 } }

  pub fn ok_durability(off: &QosPolicies, req: &QosPolicies) -> bool {
    match (off.durability, req.durability) { (Some(o), Some(r)) => durability_rank(o) >= durability_rank(r), _ => true }
  }
  pub fn ok_presentation(off: &QosPolicies, req: &QosPolicies) -> bool {
    match (off.presentation, req.presentation) {
      (Some(o), Some(r)) => scope_rank(o.access_scope) >= scope_rank(r.access_scope)
        && (!r.coherent_access || o.coherent_access) && (!r.ordered_access || o.ordered_access),
      _ => true }
  }
  pub fn ok_deadline(off: &QosPolicies, req: &QosPolicies) -> bool {
    match (off.deadline, req.deadline) { (Some(o), Some(r)) => ticks(o.0) <= ticks(r.0), _ => true }
  }
  pub fn ok_latency(off: &QosPolicies, req: &QosPolicies) -> bool {
    match (off.latency_budget, req.latency_budget) { (Some(o), Some(r)) => ticks(o.duration) <= ticks(r.duration), _ => true }
  }
  pub fn ok_ownership(off: &QosPolicies, req: &QosPolicies) -> bool {
    match (off.ownership, req.ownership) { (Some(o), Some(r)) => own_kind(&o) == own_kind(&r), _ => true }
  }
  pub fn ok_liveliness(off: &QosPolicies, req: &QosPolicies) -> bool {
    match (off.liveliness, req.liveliness) {
      (Some(o), Some(r)) => liveliness_rank(&o) >= liveliness_rank(&r) && ticks(lease(&o)) <= ticks(lease(&r)),
      _ => true }
  }
  pub fn ok_reliability(off: &QosPolicies, req: &QosPolicies) -> bool {
    match (off.reliability, req.reliability) { (Some(o), Some(r)) => reliability_rank(&o) >= reliability_rank(&r), _ => true }
  }
  pub fn ok_destination_order(off: &QosPolicies, req: &QosPolicies) -> bool {
    match (off.destination_order, req.destination_order) { (Some(o), Some(r)) => dest_rank(o) >= dest_rank(r), _ => true }
  }
  pub fn rxo(off: &QosPolicies, req: &QosPolicies) -> bool {
    ok_durability(off, req) && ok_presentation(off, req) && ok_deadline(off, req) && ok_latency(off, req)
      && ok_ownership(off, req) && ok_liveliness(off, req) && ok_reliability(off, req) && ok_destination_order(off, req)
  }
  // [c10.iff]   matched (None)  <=>  every request/offered rule holds
  // [c10.cause] a reported policy is one that really is incompatible
  pub fn rxo_verdict_ok(off: &QosPolicies, req: &QosPolicies, r: &Option<QosPolicyId>) -> bool {
    match r {
      None => rxo(off, req),
      Some(QosPolicyId::Durability) => !ok_durability(off, req),
      Some(QosPolicyId::Presentation) => !ok_presentation(off, req),
      Some(QosPolicyId::Deadline) => !ok_deadline(off, req),
      Some(QosPolicyId::LatencyBudget) => !ok_latency(off, req),
      Some(QosPolicyId::Ownership) => !ok_ownership(off, req),
      Some(QosPolicyId::Liveliness) => !ok_liveliness(off, req),
      Some(QosPolicyId::Reliability) => !ok_reliability(off, req),
      Some(QosPolicyId::DestinationOrder) => !ok_destination_order(off, req),
      Some(_) => false,
    }
  }

  // ---- symbolic values: every field any value (documented type invariants only) ----------
  pub fn any_duration() -> Duration { Duration::from_ticks(kani::any()) }
  fn any_opt<T>(f: impl FnOnce() -> T) -> Option<T> { if kani::any() { Some(f()) } else { None } }
  fn any_durability() -> Durability {
    match kani::any::<u8>() % 4 { 0 => Durability::Volatile, 1 => Durability::TransientLocal, 2 => Durability::Transient, _ => Durability::Persistent }
  }
  fn any_scope() -> PresentationAccessScope {
    match kani::any::<u8>() % 3 { 0 => PresentationAccessScope::Instance, 1 => PresentationAccessScope::Topic, _ => PresentationAccessScope::Group }
  }
  pub fn any_liveliness() -> Liveliness {
    let lease_duration = any_duration();
    match kani::any::<u8>() % 3 { 0 => Liveliness::Automatic { lease_duration }, 1 => Liveliness::ManualByParticipant { lease_duration }, _ => Liveliness::ManualByTopic { lease_duration } }
  }
  pub fn any_reliability() -> Reliability {
    if kani::any() { Reliability::BestEffort } else { Reliability::Reliable { max_blocking_time: any_duration() } }
  }
  fn any_history() -> History { if kani::any() { History::KeepAll } else { History::KeepLast { depth: kani::any() } } }
  pub fn any_qos() -> QosPolicies {
    QosPolicies {
      durability: any_opt(any_durability),
      presentation: any_opt(|| Presentation { access_scope: any_scope(), coherent_access: kani::any(), ordered_access: kani::any() }),
      deadline: any_opt(|| Deadline(any_duration())),
      latency_budget: any_opt(|| LatencyBudget { duration: any_duration() }),
      ownership: any_opt(|| if kani::any() { Ownership::Shared } else { Ownership::Exclusive { strength: kani::any() } }),
      liveliness: any_opt(any_liveliness),
      time_based_filter: any_opt(|| TimeBasedFilter { minimum_separation: any_duration() }),
      reliability: any_opt(any_reliability),
      destination_order: any_opt(|| if kani::any() { DestinationOrder::ByReceptionTimestamp } else { DestinationOrder::BySourceTimeStamp }),
      history: any_opt(any_history),
      resource_limits: any_opt(|| ResourceLimits { max_samples: kani::any(), max_instances: kani::any(), max_samples_per_instance: kani::any() }),
      lifespan: any_opt(|| Lifespan { duration: any_duration() }),
      #[cfg(feature = "security")]
      property: None,
    }
  }

  // complete: loop-free, all inputs symbolic
  #[kani::proof_for_contract(QosPolicies::compliance_failure_wrt_impl)]
  fn c10_contract() {
    let off = any_qos();
    let req = any_qos();
    kani::cover!(true); // vacuity guard: inputs are constructible
    let r = off.compliance_failure_wrt_impl(&req);
    // the same postcondition once more as a plain assertion, so that the concrete-playback
    // unit test (which runs without contract instrumentation) fails on a counterexample
    assert!(rxo_verdict_ok(&off, &req, &r));
  }

  // the public wrapper returns the verdict of the contracted function unchanged
  #[kani::proof]
  fn c10_wrapper() {
    let off = any_qos();
    let req = any_qos();
    let r = off.compliance_failure_wrt(&req);
    assert!(r == off.compliance_failure_wrt_impl(&req));
    assert!(rxo_verdict_ok(&off, &req, &r));
  }

  // localising contracts on the two hand-written Ord impls the check relies on
  #[kani::proof]
  fn c10_ord_reliability() {
    let a = any_reliability();
    let b = any_reliability();
    assert!((a < b) == (reliability_rank(&a) < reliability_rank(&b)));
    assert!((a >= b) == (reliability_rank(&a) >= reliability_rank(&b)));
  }
}
