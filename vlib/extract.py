"""Engine V unit builder: re-extracts real function/type text from the repository working tree,
applies the closed list of mechanical rewrites (DESIGN.md 3.2) and splices the contracts kept in
the unit template.  Output: build/<unit>.rs plus a per-line origin map and an extraction record."""
import hashlib
import json
import os
import re
import shlex

from . import rscan
from .rscan import Src

LOG_MACROS = {'trace', 'debug', 'info', 'warn', 'error',
              'security_trace', 'security_debug', 'security_info', 'security_warn', 'security_error',
              'security_log'}


class Undecided(Exception):
    """extraction could not produce the unit (lost anchor / unsupported construct)"""

    def __init__(self, reason, detail):
        super().__init__('%s: %s' % (reason, detail))
        self.reason = reason
        self.detail = detail


# ------------------------------------------------------------------------------------------
# locating items
# ------------------------------------------------------------------------------------------

_src_cache = {}


def load_src(repo, rel):
    p = os.path.join(repo, rel)
    try:
        text = open(p, encoding='utf-8').read()
    except OSError as e:
        raise Undecided('lost-anchor', 'cannot read %s: %s' % (rel, e))
    key = (p, hashlib.sha256(text.encode()).hexdigest())
    if key not in _src_cache:
        try:
            _src_cache[key] = Src(text)
        except rscan.LexError as e:
            raise Undecided('unsupported-construct', 'lexing %s: %s' % (rel, e))
    return _src_cache[key]


def cfg_ok(attrs, security):
    """R7: evaluate #[cfg(feature = "security")] / #[cfg(not(feature = "security"))] / cfg(test)"""
    for a in attrs:
        a2 = re.sub(r'\s+', '', a)
        if a2.startswith('#[cfg('):
            if a2 == '#[cfg(feature="security")]':
                if not security: return False
            elif a2 == '#[cfg(not(feature="security"))]':
                if security: return False
            elif a2 == '#[cfg(test)]':
                return False
            elif a2 == '#[cfg(kani)]':
                return False
            else:
                # unknown cfg: keep (conservative) — recorded by caller
                pass
    return True


def find_fn(src, selector, security=False, impl_re=None, nth=None):
    """selector: `Type::name`, `Trait for Type::name` or `name` (free fn). Returns rscan.Item."""
    trait = None
    if '::' in selector:
        ty, name = selector.rsplit('::', 1)
        if ' for ' in ty:
            trait, ty = [x.strip() for x in ty.split(' for ')]
    else:
        ty, name = None, selector
    cands = []
    for it in rscan.top_items(src):
        if ty is None:
            if it.kind == 'fn' and it.name == name and cfg_ok(it.attrs, security):
                cands.append(it)
        elif it.kind in ('impl', 'trait') and it.open_si is not None:
            if it.kind == 'trait':
                if it.name != ty: continue
                tr = None
            else:
                tr, sty = rscan.impl_self_type(it.header)
                if sty != ty: continue
                if trait is not None:
                    trn = re.sub(r'\s+', '', tr or '')
                    tn = re.sub(r'\s+', '', trait)
                    if not (trn == tn or trn.endswith('::' + tn) or re.sub(r'<.*$', '', trn) == tn):
                        continue
                if trait is None and tr is not None and impl_re is None:
                    # inherent selector does not match trait impls unless impl= given
                    continue
            if impl_re and not re.search(impl_re, re.sub(r'\s+', ' ', it.header)):
                continue
            if not cfg_ok(it.attrs, security):
                continue
            for sub in rscan.items_in(src, it.open_si + 1, it.end_si):
                if sub.kind == 'fn' and sub.name == name and cfg_ok(sub.attrs, security):
                    cands.append(sub)
    if nth is not None and len(cands) > nth:
        return cands[nth]
    if len(cands) != 1:
        raise Undecided('lost-anchor', 'fn %s: %d candidates' % (selector, len(cands)))
    return cands[0]


def find_type(src, kind, name, security=False, nth=None):
    cands = [it for it in rscan.top_items(src)
             if it.kind == kind and it.name == name and cfg_ok(it.attrs, security)]
    if nth is not None and len(cands) > nth:
        # `nth=k` on `@@extract struct|enum` (added for unit `sec_attrs`): the k-th (0-based, source
        # order) of several types of that name in one file (e.g. one at top level, one in `mod xml`)
        return cands[nth]
    if len(cands) != 1:
        raise Undecided('lost-anchor', '%s %s: %d candidates' % (kind, name, len(cands)))
    return cands[0]


# ------------------------------------------------------------------------------------------
# text editing helper: a list of (pos, del_len, insert_text, origin_label) applied right to left
# ------------------------------------------------------------------------------------------

class Edits:
    def __init__(self, text):
        self.text = text
        self.eds = []

    def replace(self, a, b, new):
        self.eds.append((a, b, new))

    def insert(self, a, new):
        self.eds.append((a, a, new))

    def apply(self):
        out = self.text
        last = None
        for a, b, new in sorted(self.eds, key=lambda e: (e[0], e[1]), reverse=True):
            if last is not None and b > last:
                raise Undecided('unsupported-construct', 'overlapping rewrites at %d' % a)
            out = out[:a] + new + out[b:]
            last = a
        return out


def keep_newlines(s):
    return '\n' * s.count('\n')


# ------------------------------------------------------------------------------------------
# rewrites on a function's text (each preserves the number of newlines so that line k of the
# rewritten text is line k of the original item)
# ------------------------------------------------------------------------------------------

def rw_log_macros(text, fired):
    """R1: delete log-macro statements."""
    src = Src(text)
    ed = Edits(text)
    i = 0
    while i < src.n():
        t = src.t(i)
        if t.kind == 'ident' and t.s in LOG_MACROS and src.s(i + 1) == '!' and src.s(i + 2) in rscan.OPEN \
                and src.s(i - 1) not in ('::', '.'):
            close = src.match[i + 2]
            a = t.pos
            b = src.t(close).end
            nxt = src.s(close + 1)
            if nxt == ';':
                b = src.t(close + 1).end
                ed.replace(a, b, keep_newlines(text[a:b]))
            elif src.s(i - 1) == '=>':
                # match-arm expression `pat => warn!(..),`
                ed.replace(a, b, '{}' + keep_newlines(text[a:b]))
            else:
                # tail position in a block: value is ()
                ed.replace(a, b, '()' + keep_newlines(text[a:b]))
            fired.append(('R1', src.line_of(a), t.s + '!'))
            i = close + 1
            continue
        i += 1
    return ed.apply()


def rw_format(text, fired):
    """R16: format!(..) in expression position -> verif_fmt()"""
    src = Src(text)
    ed = Edits(text)
    i = 0
    while i < src.n():
        t = src.t(i)
        if t.kind == 'ident' and t.s == 'format' and src.s(i + 1) == '!' and src.s(i + 2) in rscan.OPEN:
            close = src.match[i + 2]
            a, b = t.pos, src.t(close).end
            ed.replace(a, b, 'verif_fmt()' + keep_newlines(text[a:b]))
            fired.append(('R16', src.line_of(a), 'format!'))
            i = close + 1
            continue
        i += 1
    return ed.apply()


def rw_assert_eq(text, fired):
    """R18: assert_eq!(a, b[, msg..]) -> assert!(a == b); assert_ne likewise; debug_assert* same"""
    src = Src(text)
    ed = Edits(text)
    i = 0
    while i < src.n():
        t = src.t(i)
        if t.kind == 'ident' and t.s in ('assert_eq', 'assert_ne', 'debug_assert_eq', 'debug_assert_ne') \
                and src.s(i + 1) == '!' and src.s(i + 2) in rscan.OPEN:
            close = src.match[i + 2]
            # split args at depth-0 commas
            args, cur = [], i + 3
            j = i + 3
            while j < close:
                if src.s(j) in rscan.OPEN:
                    j = src.match[j]
                elif src.s(j) == ',':
                    args.append((cur, j)); cur = j + 1
                j += 1
            if cur < close:
                args.append((cur, close))
            if len(args) < 2:
                raise Undecided('unsupported-construct', 'assert_eq with <2 args')
            a_txt = text[src.t(args[0][0]).pos:src.t(args[0][1] - 1).end]
            b_txt = text[src.t(args[1][0]).pos:src.t(args[1][1] - 1).end]
            op = '==' if t.s.endswith('eq') else '!='
            whole = text[t.pos:src.t(close).end]
            new = 'assert!((%s) %s (%s))' % (a_txt.replace('\n', ' '), op, b_txt.replace('\n', ' '))
            ed.replace(t.pos, src.t(close).end, new + keep_newlines(whole))
            fired.append(('R18', src.line_of(t.pos), t.s + '!'))
            i = close + 1
            continue
        i += 1
    return ed.apply()


def rw_cfg_statements(text, security, fired):
    """R7 inside bodies: drop statements/items/fields/arms guarded by a cfg that is off; strip the
    attribute when it is on."""
    src = Src(text)
    ed = Edits(text)
    i = 0
    while i < src.n():
        if src.s(i) == '#' and src.s(i + 1) == '[' and src.s(i + 2) == 'cfg' and src.s(i + 3) == '(':
            close = src.match[i + 1]
            attr = re.sub(r'\s+', '', text[src.t(i).pos:src.t(close).end])
            if attr in ('#[cfg(feature="security")]', '#[cfg(not(feature="security"))]'):
                on = (attr == '#[cfg(feature="security")]') == bool(security)
                a = src.t(i).pos
                if on:
                    b = src.t(close).end
                    ed.replace(a, b, keep_newlines(text[a:b]))
                    fired.append(('R7', src.line_of(a), 'keep ' + attr))
                    i = close + 1
                    continue
                # find the end of the guarded thing: next ';' or ',' at depth 0, or a block end
                j = close + 1
                # skip further attributes
                end = None
                saw_arrow = False
                while j < src.n():
                    s = src.s(j)
                    if s in rscan.OPEN:
                        m = src.match[j]
                        if s == '{':
                            # block: statement ends here unless followed by else / method chain
                            nxt = src.s(m + 1)
                            if nxt == 'else':
                                j = m + 1; continue
                            if nxt in ('.', '?'):
                                j = m + 1; continue
                            if nxt == '=>':
                                # a match arm whose PATTERN has braces (`Kind { field } => ..`): the arm goes on
                                j = m + 1; continue
                            if nxt in (',', ';'):
                                end = m + 1; break
                            end = m; break
                        j = m + 1
                        continue
                    if s in (';', ','):
                        end = j; break
                    if s in rscan.CLOSE:
                        end = j - 1; break
                    j += 1
                if end is None:
                    raise Undecided('unsupported-construct', 'cfg-guarded item without end')
                b = src.t(end).end
                ed.replace(a, b, keep_newlines(text[a:b]))
                fired.append(('R7', src.line_of(a), 'drop ' + attr))
                i = end + 1
                continue
        i += 1
    return ed.apply()


def rw_iflet_map(text, nth, fired, fname):
    """R17: the nth statement of the form `EXPR.map(|PAT| BODY);` (value discarded) becomes
    `if let Some(PAT) = EXPR { BODY }`"""
    src = Src(text)
    cnt = 0
    for i in range(src.n()):
        if src.s(i) == '.' and src.s(i + 1) == 'map' and src.s(i + 2) == '(' and src.s(i + 3) == '|':
            close = src.match[i + 2]
            if src.s(close + 1) != ';':
                continue
            # statement start: walk back to previous ';' '{' '}' at same depth
            j = i - 1
            while j >= 0:
                sj = src.s(j)
                if sj in rscan.CLOSE:
                    j = src.match[j] - 1
                    continue
                if sj in (';', '{', '}') :
                    break
                j -= 1
            start = j + 1
            if src.s(start) in ('let', 'return') or any(src.s(k) == '=' for k in range(start, i) if True and src.t(k).kind == 'punct'):
                continue
            cnt += 1
            if cnt != nth:
                continue
            # params
            pe = i + 4
            while src.s(pe) != '|':
                if src.s(pe) in rscan.OPEN: pe = src.match[pe]
                pe += 1
            pat = text[src.t(i + 4).pos:src.t(pe - 1).end]
            body_a = src.t(pe + 1).pos
            body_b = src.t(close - 1).end
            body = text[body_a:body_b]
            if src.s(pe + 1) != '{':
                body = '{ ' + body + '; }'
            expr = text[src.t(start).pos:src.t(i - 1).end]
            whole_a, whole_b = src.t(start).pos, src.t(close + 1).end
            whole = text[whole_a:whole_b]
            # keep line structure: expression and pattern on the first line(s) flattened, body verbatim
            head = 'if let Some(%s) = %s ' % (pat.replace('\n', ' '), expr.replace('\n', ' '))
            pre_nl = text[whole_a:body_a].count('\n')
            post_nl = text[body_b:whole_b].count('\n')
            new = head + '\n' * pre_nl + body + '\n' * post_nl
            fired.append(('R17', src.line_of(whole_a), 'OPT.map(|x| ..); -> if let'))
            return text[:whole_a] + new + text[whole_b:]
    raise Undecided('lost-anchor', 'iflet_map %d: no such statement in %s' % (nth, fname))


def rw_entry_chain(text, nth, fired, fname):
    """R26 (added for unit `reader_update`, directive `@@entry_chain k`): the nth statement of the form
        MAP.entry(KEY).and_modify(|P| A).or_insert_with(|| B);          (value discarded)
    becomes the definition of that entry-API chain:
        if MAP.contains_key(&(KEY)) { let P = MAP.get_mut(&(KEY)).unwrap(); A; }
        else { let vx_new = B; MAP.insert(KEY, vx_new); }
    A and B are copied verbatim (closure bodies become plain blocks, so their captures are ordinary
    uses).  Guards (else UNDECIDED): MAP is a field path (`a.b.c`), KEY is a field path (evaluated
    up to three times: no side effects), the chain is a whole expression statement."""
    src = Src(text)
    cnt = 0
    for i in range(src.n()):
        if not (src.s(i) == '.' and src.s(i + 1) == 'entry' and src.s(i + 2) == '('):
            continue
        kc = src.match[i + 2]
        if not (src.s(kc + 1) == '.' and src.s(kc + 2) == 'and_modify' and src.s(kc + 3) == '(' and src.s(kc + 4) == '|'):
            continue
        ac = src.match[kc + 3]
        if not (src.s(ac + 1) == '.' and src.s(ac + 2) == 'or_insert_with' and src.s(ac + 3) == '(' and src.s(ac + 4) == '||'):
            continue
        bc = src.match[ac + 3]
        if src.s(bc + 1) != ';':
            continue
        j = i - 1
        while j >= 0:
            sj = src.s(j)
            if sj in rscan.CLOSE:
                j = src.match[j] - 1
                continue
            if sj in (';', '{', '}'):
                break
            j -= 1
        start = j + 1
        if src.s(start) in ('let', 'return'):
            continue
        cnt += 1
        if cnt != nth:
            continue

        def is_path(a, b):
            return all((src.t(k).kind == 'ident' and (k - a) % 2 == 0) or (src.s(k) == '.' and (k - a) % 2 == 1) for k in range(a, b + 1)) and (b - a) % 2 == 0
        if not is_path(start, i - 1) or not is_path(i + 3, kc - 1):
            raise Undecided('unsupported-construct', 'entry_chain %d of %s: MAP / KEY is not a plain field path' % (nth, fname))
        mp = ''.join(src.s(k) for k in range(start, i))
        key = ''.join(src.s(k) for k in range(i + 3, kc))
        pe = kc + 5
        while src.s(pe) != '|':
            if src.s(pe) in rscan.OPEN: pe = src.match[pe]
            pe += 1
        pat = text[src.t(kc + 5).pos:src.t(pe - 1).end].replace('\n', ' ')
        a_a, a_b = src.t(pe + 1).pos, src.t(ac - 1).end
        b_a, b_b = src.t(ac + 5).pos, src.t(bc - 1).end
        whole_a, whole_b = src.t(start).pos, src.t(bc + 1).end
        new = ('if %s.contains_key(&(%s)) { let %s = %s.get_mut(&(%s)).unwrap(); ' % (mp, key, pat, mp, key)
               + '\n' * text[whole_a:a_a].count('\n') + text[a_a:a_b] + '; } else { let vx_new = '
               + '\n' * text[a_b:b_a].count('\n') + text[b_a:b_b] + '; %s.insert(%s, vx_new); }' % (mp, key)
               + '\n' * text[b_b:whole_b].count('\n'))
        fired.append(('R26', src.line_of(whole_a), 'entry().and_modify().or_insert_with() -> contains_key / get_mut / insert'))
        return text[:whole_a] + new + text[whole_b:]
    raise Undecided('lost-anchor', 'entry_chain %d: no such statement in %s' % (nth, fname))


def rw_for_each(text, nth, fired, fname):
    """R17 (second half, added for unit `repair_decision`, directive `@@for_each k`): the nth statement
    of the form `ITER.for_each(|PAT| BODY);` (value discarded, closure used only for its effect)
    becomes `for PAT in ITER { BODY; }` — the definition of Iterator::for_each.  The resulting `for`
    is an ordinary loop for @@desugar_for / @@loop numbering."""
    src = Src(text)
    cnt = 0
    for i in range(src.n()):
        if src.s(i) == '.' and src.s(i + 1) == 'for_each' and src.s(i + 2) == '(' and src.s(i + 3) == '|':
            close = src.match[i + 2]
            if src.s(close + 1) != ';':
                continue
            j = i - 1
            while j >= 0:
                sj = src.s(j)
                if sj in rscan.CLOSE:
                    j = src.match[j] - 1
                    continue
                if sj in (';', '{', '}'):
                    break
                j -= 1
            start = j + 1
            if src.s(start) in ('let', 'return'):
                continue
            cnt += 1
            if cnt != nth:
                continue
            pe = i + 4
            while src.s(pe) != '|':
                if src.s(pe) in rscan.OPEN: pe = src.match[pe]
                pe += 1
            pat = text[src.t(i + 4).pos:src.t(pe - 1).end]
            body_a = src.t(pe + 1).pos
            body_b = src.t(close - 1).end
            body = text[body_a:body_b]
            if src.s(pe + 1) != '{':
                body = '{ ' + body + '; }'
            expr = text[src.t(start).pos:src.t(i - 1).end]
            whole_a, whole_b = src.t(start).pos, src.t(close + 1).end
            head = 'for %s in %s ' % (pat.replace('\n', ' '), expr.replace('\n', ' '))
            pre_nl = text[whole_a:body_a].count('\n')
            post_nl = text[body_b:whole_b].count('\n')
            new = head + '\n' * pre_nl + body + '\n' * post_nl
            fired.append(('R17', src.line_of(whole_a), 'ITER.for_each(|x| ..); -> for x in ITER'))
            return text[:whole_a] + new + text[whole_b:]
    raise Undecided('lost-anchor', 'for_each %d: no such statement in %s' % (nth, fname))


def rw_fold_loop(text, nth, fired, fname):
    """R29 (added for unit `qos_plcdr`, directive `@@fold_loop k`): the nth expression of the form
        ITER.fold(INIT, |mut ACC, X| { STMTS ACC })
    — a fold whose closure takes the accumulator by value as `mut ACC`, works on it and hands the
    same binding back as the tail expression — becomes the definition of Iterator::fold for such a
    closure:
        { let mut ACC = INIT; for X in ITER { STMTS } ACC }
    STMTS are the verbatim source text and stay on their lines.  Guards (else UNDECIDED): ACC and X
    are single identifiers, the closure body is a block whose tail is exactly `ACC`, ITER starts at
    the beginning of a statement / block tail (it is the whole receiver chain).  The resulting `for`
    is an ordinary loop for @@desugar_for / @@name_for / @@loop numbering."""
    src = Src(text)
    cnt = 0
    for i in range(src.n()):
        if not (src.s(i) == '.' and src.s(i + 1) == 'fold' and src.s(i + 2) == '('):
            continue
        cnt += 1
        if cnt != nth:
            continue
        op, close = i + 2, src.match[i + 2]
        # INIT: up to the top-level ',' inside the parentheses
        k = op + 1
        while k < close and src.s(k) != ',':
            if src.s(k) in rscan.OPEN: k = src.match[k]
            k += 1
        if k >= close or not (src.s(k + 1) == '|' and src.s(k + 2) == 'mut' and src.s(k + 4) == ','
                              and src.s(k + 6) == '|' and src.s(k + 7) == '{'):
            raise Undecided('unsupported-construct', 'fold %d in %s: not `fold(INIT, |mut ACC, X| { .. ACC })`' % (nth, fname))
        acc, x = src.s(k + 3), src.s(k + 5)
        bo, bc = k + 7, src.match[k + 7]
        if not (re.match(r'^\w+$', acc) and re.match(r'^\w+$', x) and src.s(bc - 1) == acc and src.s(bc - 2) in (';', '}', '{')
                and bc + 1 == close):
            raise Undecided('unsupported-construct', 'fold %d in %s: closure does not end in its accumulator `%s`' % (nth, fname, acc))
        j = i - 1
        while j >= 0:
            sj = src.s(j)
            if sj in rscan.CLOSE:
                j = src.match[j] - 1
                continue
            if sj in (';', '{', '}', '=', 'return'):
                break
            j -= 1
        start = j + 1
        it_txt = text[src.t(start).pos:src.t(i - 1).end]
        init_txt = text[src.t(op + 1).pos:src.t(k - 1).end]
        whole_a, whole_b = src.t(start).pos, src.t(close).end
        stm_a, stm_b = src.t(bo).end, src.t(bc - 1).pos        # STMTS (between `{` and the tail ACC)
        pre_nl = text[whole_a:stm_a].count('\n')
        post_nl = text[stm_b:whole_b].count('\n')
        new = ('{ let mut %s = %s; for %s in %s {' % (acc, init_txt.replace('\n', ' '), x, it_txt.replace('\n', ' '))
               + '\n' * pre_nl + text[stm_a:stm_b].rstrip(' ') + ' } %s }' % acc + '\n' * post_nl)
        # keep the line count: newlines of the head were emitted before STMTS, those after the tail after the block
        fired.append(('R29', src.line_of(whole_a), 'ITER.fold(INIT, |mut acc, x| { ..; acc }) -> { let mut acc = INIT; for x in ITER { .. } acc }'))
        return text[:whole_a] + new + text[whole_b:]
    raise Undecided('lost-anchor', 'fold %d: no such expression in %s' % (nth, fname))


def rw_sum_loop(text, nth, fired, fname):
    """R33 (added for unit `data_body`, directive `@@sum_loop k`): the nth expression of the form
        ITER.map(|X| E).sum::<T>()
    becomes the definition of Iterator::map + Iterator::sum for a primitive integer T (std:
    `iter.fold(0, #[rustc_inherit_overflow_checks] |a, b| a + b)`):
        ({ let mut vx_s_k: T = 0; for X in ITER { vx_s_k = vx_s_k + (E); } vx_s_k })
    E is the verbatim source text.  Guards (else UNDECIDED): X is a single identifier, E has no `return` /
    `?` / `break` / `continue`, the turbofish type T is spelled out, ITER starts at the beginning of a
    statement / block tail (it is the whole receiver chain).  The closure no longer counts for
    `@@closure k`; the new `for` is an ordinary loop for @@desugar_for / @@name_for / @@loop numbering."""
    src = Src(text)
    cnt = 0
    for i in range(src.n()):
        if not (src.s(i) == '.' and src.s(i + 1) == 'map' and src.s(i + 2) == '('):
            continue
        close = src.match[i + 2]
        if not (src.s(close + 1) == '.' and src.s(close + 2) == 'sum'):
            continue
        cnt += 1
        if cnt != nth:
            continue
        k = i + 3
        if not (src.s(k) == '|' and re.match(r'^\w+$', src.s(k + 1)) and src.s(k + 2) == '|'):
            raise Undecided('unsupported-construct', 'sum %d in %s: closure is not `|x| E`' % (nth, fname))
        x = src.s(k + 1)
        if not (src.s(close + 3) == '::' and src.s(close + 4) == '<' and re.match(r'^[iu](8|16|32|64|128|size)$', src.s(close + 5))
                and src.s(close + 6) == '>' and src.s(close + 7) == '(' and src.s(close + 8) == ')'):
            raise Undecided('unsupported-construct', 'sum %d in %s: not `.sum::<primitive integer>()`' % (nth, fname))
        ty = src.s(close + 5)
        if any(src.s(q) in ('return', '?', 'break', 'continue') for q in range(k + 3, close)):
            raise Undecided('unsupported-construct', 'sum %d in %s: closure body leaves the closure' % (nth, fname))
        j = i - 1
        while j >= 0:
            sj = src.s(j)
            if sj in rscan.CLOSE:
                j = src.match[j] - 1
                continue
            if sj in (';', '{', '}', '=', 'return'):
                break
            j -= 1
        start = j + 1
        it_txt = text[src.t(start).pos:src.t(i - 1).end]
        e_txt = text[src.t(k + 3).pos:src.t(close - 1).end]
        whole_a, whole_b = src.t(start).pos, src.t(close + 8).end
        nl = text[whole_a:whole_b].count('\n')
        new = ('({ let mut vx_s_%d: %s = 0; for %s in %s { vx_s_%d = vx_s_%d + (%s); } vx_s_%d })'
               % (nth, ty, x, it_txt.replace('\n', ' '), nth, nth, e_txt.replace('\n', ' '), nth) + '\n' * nl)
        fired.append(('R33', src.line_of(whole_a), 'ITER.map(|x| E).sum::<T>() -> { let mut s: T = 0; for x in ITER { s = s + (E); } s }'))
        return text[:whole_a] + new + text[whole_b:]
    raise Undecided('lost-anchor', 'sum %d: no such expression in %s' % (nth, fname))


def rw_fold_assign(text, nth, fired, fname):
    """R31 (added for unit `permissions`, directive `@@fold_assign k`; sibling of R29 for a closure whose
    body is an arbitrary expression): the nth expression of the form
        ITER.fold(INIT, |[mut] ACC, X| BODY)
    becomes the definition of Iterator::fold
        { let mut ACC = INIT; for X in ITER { ACC = BODY; } ACC }
    BODY is the verbatim source text and stays on its lines.  Guards (else UNDECIDED): ACC and X are
    single identifiers, BODY contains no `return`, `?`, `break`, `continue` (they would change meaning
    when the closure body becomes a loop body), ITER starts at the beginning of a statement / after `=`
    (it is the whole receiver chain).  The new `for` is an ordinary loop for @@name_for / @@loop /
    @@loop_body_start / @@loop_body_end numbering."""
    src = Src(text)
    cnt = 0
    for i in range(src.n()):
        if not (src.s(i) == '.' and src.s(i + 1) == 'fold' and src.s(i + 2) == '('):
            continue
        cnt += 1
        if cnt != nth:
            continue
        op, close = i + 2, src.match[i + 2]
        k = op + 1
        while k < close and src.s(k) != ',':
            if src.s(k) in rscan.OPEN: k = src.match[k]
            k += 1
        p = k + 1
        if k >= close or src.s(p) != '|':
            raise Undecided('unsupported-construct', 'fold %d in %s: not `fold(INIT, |ACC, X| BODY)`' % (nth, fname))
        p += 1
        if src.s(p) == 'mut':
            p += 1
        acc = src.s(p)
        if not (re.match(r'^[A-Za-z_]\w*$', acc) and src.s(p + 1) == ',' and re.match(r'^[A-Za-z_]\w*$', src.s(p + 2))
                and src.s(p + 3) == '|'):
            raise Undecided('unsupported-construct', 'fold %d in %s: closure parameters are not `|[mut] ACC, X|`' % (nth, fname))
        x = src.s(p + 2)
        b0 = p + 4
        b1 = close - 1
        if src.s(b1) == ',':
            b1 -= 1
        if b1 < b0:
            raise Undecided('unsupported-construct', 'fold %d in %s: empty closure body' % (nth, fname))
        for q in range(b0, b1 + 1):
            if src.s(q) in ('return', '?', 'break', 'continue') and src.t(q).kind in ('ident', 'punct'):
                raise Undecided('unsupported-construct', 'fold %d in %s: `%s` in the closure body' % (nth, fname, src.s(q)))
        j = i - 1
        while j >= 0:
            sj = src.s(j)
            if sj in rscan.CLOSE:
                j = src.match[j] - 1
                continue
            if sj in (';', '{', '}', '=', 'return'):
                break
            j -= 1
        start = j + 1
        it_txt = text[src.t(start).pos:src.t(i - 1).end]
        init_txt = text[src.t(op + 1).pos:src.t(k - 1).end]
        whole_a, whole_b = src.t(start).pos, src.t(close).end
        body_a, body_b = src.t(b0).pos, src.t(b1).end
        pre_nl = text[whole_a:body_a].count('\n')
        post_nl = text[body_b:whole_b].count('\n')
        new = ('{ let mut %s = %s; for %s in %s {' % (acc, init_txt.replace('\n', ' '), x, it_txt.replace('\n', ' '))
               + '\n' * pre_nl + ' %s = ' % acc + text[body_a:body_b] + '; } %s }' % acc + '\n' * post_nl)
        fired.append(('R31', src.line_of(whole_a), 'ITER.fold(INIT, |acc, x| BODY) -> { let mut acc = INIT; for x in ITER { acc = BODY; } acc }'))
        return text[:whole_a] + new + text[whole_b:]
    raise Undecided('lost-anchor', 'fold %d: no such expression in %s' % (nth, fname))


INLINED_BAR = '\ue000'   # see rw_inline_helpers (R32)


def _simple_binders(src, lo, hi):
    """names bound by `let` patterns, closure parameter lists and `ident:` parameters in [lo,hi) — a
    deliberately generous approximation used by the name-capture guard of R32"""
    out = set()
    i = lo
    while i < hi:
        s = src.s(i)
        if s == 'let':
            j = i + 1
            depth = 0
            while j < hi and not (depth == 0 and src.s(j) in ('=', ':', ';')):
                if src.s(j) in rscan.OPEN: depth += 1
                elif src.s(j) in rscan.CLOSE: depth -= 1
                elif src.t(j).kind == 'ident' and re.match(r'^[a-z_]\w*$', src.s(j)) and src.s(j) not in ('mut', 'ref') \
                        and src.s(j + 1) not in ('::', '(', '{'):
                    out.add(src.s(j))
                j += 1
        i += 1
    for ci in closure_starts(src, lo, hi):
        if src.s(ci) == '||':
            continue
        j = ci + 1
        while j < hi and src.s(j) != '|':
            if src.t(j).kind == 'ident' and re.match(r'^[a-z_]\w*$', src.s(j)) and src.s(j) not in ('mut', 'ref') \
                    and src.s(j + 1) not in ('::', '(', '{') and src.s(j - 1) != ':':
                out.add(src.s(j))
            if src.s(j) in rscan.OPEN: j = src.match[j]
            j += 1
    for i in range(lo, hi - 1):
        if src.t(i).kind == 'ident' and src.s(i + 1) == ':' and src.s(i + 2) != ':' and src.s(i - 1) in ('(', ',', 'mut'):
            out.add(src.s(i))
    return out


def rw_inline_helpers(text, ft, security, fired):
    """R32 (added for unit `permissions`, directive `@@inline_helpers`): a call `NAME(ARGS)` of a free
    function NAME that is defined at the TOP LEVEL OF THE SAME SOURCE FILE as the extracted function (and
    is not a method call, path call or macro) is replaced by the function's meaning
        { let vx_a1 = ARG1; ..; let P1: T1 = vx_a1; ..; <body block of NAME> }
    (arguments evaluated left to right, then bound to the parameters under their declared types, then
    the body).  Purpose: a change that moves part of a function under contract into a NEW helper (one
    the unit cannot name, because it did not exist when the unit was written) is still judged by the
    function's contract instead of becoming UNDECIDED.  The helper's text is taken from the working
    tree on every run; it is put on ONE line (comments dropped) so that the line numbers of the
    function are kept.  Inside the inlined text a closure parameter written `_` becomes a fresh unused
    variable `_vx_ign_n` (Verus closures take variables only; an unused binding means the same).
    Guards (else UNDECIDED): NAME is not generic and has no `self`; every parameter is `[mut] ident: Type`
    without a named lifetime; the body has no `return`, `?`, `await` (inlining would change where they
    lead) and does not mention NAME; no identifier of the body that is not bound by the helper itself
    coincides with a binding of the calling function (no name capture); at most 8 inlinings."""
    repo, rel = getattr(ft, 'repo', None), getattr(ft, 'rel', None)
    if repo is None or rel is None:
        raise Undecided('unsupported-construct', 'inline_helpers: no source file for %s' % ft.name)
    fsrc = load_src(repo, rel)
    helpers = {}
    for it in rscan.items_in(fsrc, 0, fsrc.n()):
        if it.kind == 'fn' and it.open_si is not None and cfg_ok(it.attrs, security):
            helpers.setdefault(it.name, []).append(it)
    own = ft.selector.rsplit('::', 1)[-1] if '::' not in ft.selector else None
    count = 0
    while True:
        src = Src(text)
        hit = None
        for i in range(src.n() - 1):
            t = src.t(i)
            if t.kind == 'ident' and t.s in helpers and t.s != own and src.s(i + 1) == '(' \
                    and src.s(i - 1) not in ('.', '::', 'fn', '!'):
                hit = i
                break
        if hit is None:
            return text
        count += 1
        if count > 8:
            raise Undecided('unsupported-construct', 'inline_helpers: more than 8 inlinings in %s' % ft.name)
        name = src.s(hit)
        if len(helpers[name]) != 1:
            raise Undecided('unsupported-construct', 'inline_helpers: %d free functions named %s' % (len(helpers[name]), name))
        it = helpers[name][0]
        fn_si = next(k for k in range(it.start_si, it.open_si) if fsrc.s(k) == 'fn')
        po = fn_si + 2
        if fsrc.s(po) != '(':
            raise Undecided('unsupported-construct', 'inline_helpers: helper %s is generic' % name)
        pc = fsrc.match[po]
        params = []
        cur = []
        q = po + 1
        while q < pc:
            s_ = fsrc.s(q)
            if s_ in rscan.OPEN:
                cur.extend(range(q, fsrc.match[q] + 1)); q = fsrc.match[q] + 1; continue
            if s_ == ',':
                params.append(cur); cur = []
            else:
                cur.append(q)
            q += 1
        if cur: params.append(cur)
        pdecl = []
        for pr in params:
            toks = [fsrc.s(x) for x in pr]
            mut = toks and toks[0] == 'mut'
            if mut: toks, pr = toks[1:], pr[1:]
            if len(toks) < 3 or toks[1] != ':' or not re.match(r'^[A-Za-z_]\w*$', toks[0]) or toks[0] == 'self':
                raise Undecided('unsupported-construct', 'inline_helpers: parameter of %s is not `ident: Type`' % name)
            if any(fsrc.t(x).kind == 'lifetime' and fsrc.s(x) != "'static" for x in pr[2:]):
                raise Undecided('unsupported-construct', 'inline_helpers: named lifetime in a parameter of %s' % name)
            pdecl.append((toks[0], ' '.join(toks[2:]), mut))
        body_toks = list(range(it.open_si, it.end_si + 1))
        for x in body_toks:
            if fsrc.t(x).kind in ('ident', 'punct') and fsrc.s(x) in ('return', '?', 'await', name):
                raise Undecided('unsupported-construct', 'inline_helpers: `%s` in the body of helper %s' % (fsrc.s(x), name))
        # name capture guard
        own_b = _simple_binders(fsrc, it.open_si, it.end_si + 1) | {p_[0] for p_ in pdecl}
        caller_b = _simple_binders(src, 0, src.n())
        for x in body_toks:
            tx = fsrc.t(x)
            if tx.kind == 'ident' and tx.s in caller_b and tx.s not in own_b and fsrc.s(x - 1) != '.':
                raise Undecided('unsupported-construct', 'inline_helpers: `%s` of helper %s would be captured by a binding of %s' % (tx.s, name, ft.name))
        # `_` closure parameters -> fresh variables
        # The bars of the helper's closures are written with the private-use character U+E000 until the
        # function is assembled (splice_function restores them): the closures of inlined text must not
        # shift the ordinals of the `@@closure k` annotations, which count the closures of the function itself.
        ign = {}
        for ci in closure_starts(fsrc, it.open_si + 1, it.end_si):
            if fsrc.s(ci) == '||':
                ign[ci] = INLINED_BAR + INLINED_BAR
                continue
            ign[ci] = INLINED_BAR
            j = ci + 1
            while j < it.end_si and fsrc.s(j) != '|':
                if fsrc.s(j) == '_' and fsrc.s(j - 1) in ('|', ',') and fsrc.s(j + 1) in ('|', ',', ':'):
                    ign[j] = '_vx_ign_%d' % (len(ign) + 1 + 100 * count)
                if fsrc.s(j) in rscan.OPEN: j = fsrc.match[j]
                j += 1
            ign[j] = INLINED_BAR
        body_txt = ' '.join(ign.get(x, fsrc.s(x)) for x in body_toks)
        # arguments
        ao, ac = hit + 1, src.match[hit + 1]
        args, cur = [], None
        q = ao + 1
        a_start = q
        while q < ac:
            if src.s(q) in rscan.OPEN:
                q = src.match[q] + 1; continue
            if src.s(q) == ',':
                args.append((a_start, q - 1)); a_start = q + 1
            q += 1
        if a_start < ac:
            args.append((a_start, ac - 1))
        if len(args) != len(pdecl):
            raise Undecided('unsupported-construct', 'inline_helpers: %s called with %d arguments, declared with %d' % (name, len(args), len(pdecl)))
        pre = ''
        for n_, (a0, a1) in enumerate(args):
            pre += 'let vx_a%d_%d = %s; ' % (count, n_ + 1, text[src.t(a0).pos:src.t(a1).end].replace('\n', ' '))
        for n_, (pn, pty, mut) in enumerate(pdecl):
            pre += 'let %s%s: %s = vx_a%d_%d; ' % ('mut ' if mut else '', pn, pty, count, n_ + 1)
        a, b = src.t(hit).pos, src.t(ac).end
        new = '{ ' + pre + body_txt + ' }' + keep_newlines(text[a:b])
        fired.append(('R32', src.line_of(a), 'call of same-file helper %s(..) inlined (helper text sha256 %s)'
                      % (name, hashlib.sha256(fsrc.text[fsrc.t(it.start_si).pos:fsrc.t(it.end_si).end].encode()).hexdigest()[:16])))
        text = text[:a] + new + text[b:]


def rw_chain_loop(text, nth, ctype, add_method, fired, fname):
    """R25 (added for unit `acknack`, directive `@@chain_loop k <CollectionType> <insert|push>`): the
    k-th iterator-adapter chain of the shape
        SRC.iter().copied() { .take_while(|P| E) | .filter(|P| B) }* .collect()
    — needed when one of the closures captures `&mut` state, which Verus closures cannot — becomes
    the block expression
        { let mut vx_c_k = <CollectionType>::new();      // written `<T>::new()`
          for vx_e_k in SRC.iter() { let vx_x_k = *vx_e_k;            // iter().copied()
            if !({ let P = &vx_x_k; E }) { break; }                     // take_while(|P| E)
            if ({ let P = &vx_x_k; B }) {                               // filter(|P| B)
              vx_c_k.<insert|push>(vx_x_k);                             // collect()
            } }
          vx_c_k }
    i.e. the definitions of the lazy adapters: each element is copied, handed by reference to the
    predicates in chain order (take_while stops the iteration at the first rejected element,
    filter skips a rejected element) and, if it passes, added to the collection.  The closure
    bodies E / B are the verbatim source text and stay on their lines; the closure parameters
    must be single identifiers.  SRC must be a place expression (identifier path).  The new `for`
    counts as an ordinary loop for @@loop / @@name_for numbering."""
    src = Src(text)
    cnt = 0
    for i in range(src.n()):
        if not (src.s(i) == '.' and src.s(i + 1) == 'collect' and src.s(i + 2) == '(' and src.s(i + 3) == ')'):
            continue
        # walk back over the adapters
        adapters = []   # (name, open_paren_si, close_paren_si) in reverse order
        j = i - 1
        ok = True
        while True:
            if src.s(j) != ')':
                ok = False; break
            op = src.match[j]
            nm = src.s(op - 1)
            if src.s(op - 2) != '.':
                ok = False; break
            if nm in ('take_while', 'filter'):
                adapters.append((nm, op, j)); j = op - 3; continue
            if nm == 'copied' and op + 1 == j:
                j = op - 3
                if not (src.s(j) == ')' and src.s(j - 1) == '(' and src.s(j - 2) == 'iter' and src.s(j - 3) == '.'):
                    ok = False
                j = j - 4
                break
            ok = False; break
        if not ok or not adapters:
            continue
        cnt += 1
        if cnt != nth:
            continue
        adapters.reverse()
        # SRC: identifier path ending at j
        s_end = j
        while j >= 0 and (src.t(j).kind == 'ident' or src.s(j) == '.'):
            j -= 1
        s_start = j + 1
        srctxt = text[src.t(s_start).pos:src.t(s_end).end]
        if not re.fullmatch(r'[A-Za-z_][A-Za-z0-9_]*(\s*\.\s*[A-Za-z_][A-Za-z0-9_]*)*', srctxt):
            raise Undecided('unsupported-construct', 'chain_loop %d of %s: source %r is not a place expression' % (nth, fname, srctxt))
        srctxt = re.sub(r'\s+', '', srctxt)
        k = nth
        ed = Edits(text)
        prev_end = src.t(s_start).pos          # text position where the pending replacement starts
        pending = ('{ let mut vx_c_%d = <%s>::new(); for vx_e_%d in %s.iter() { let vx_x_%d = *vx_e_%d; '
                   % (k, ctype, k, srctxt, k, k))
        closers = ''
        for (nm, op, cp) in adapters:
            if not (src.s(op + 1) == '|' and src.t(op + 2).kind == 'ident' and src.s(op + 3) == '|'):
                raise Undecided('unsupported-construct', 'chain_loop %d of %s: %s closure parameter is not a single identifier' % (nth, fname, nm))
            p = src.s(op + 2)
            body_a = src.t(op + 4).pos
            body_b = src.t(cp - 1).end
            if nm == 'take_while':
                head = pending + 'if !({ let %s = &vx_x_%d; ' % (p, k)
                pending = ' }) { break; } '
            else:
                head = pending + 'if ({ let %s = &vx_x_%d; ' % (p, k)
                pending = ' }) { '
                closers += '} '
            ed.replace(prev_end, body_a, head + keep_newlines(text[prev_end:body_a]))
            prev_end = body_b
        tail_b = src.t(i + 3).end
        ed.replace(prev_end, tail_b, pending + 'vx_c_%d.%s(vx_x_%d); %s} vx_c_%d }' % (k, add_method, k, closers, k)
                   + keep_newlines(text[prev_end:tail_b]))
        fired.append(('R25', src.line_of(src.t(s_start).pos),
                      'adapter chain %s.iter().copied().%s.collect() -> explicit loop into %s (vx_c_%d)'
                      % (srctxt, '.'.join(a[0] + '(..)' for a in adapters), ctype, k)))
        return ed.apply()
    raise Undecided('lost-anchor', 'chain_loop %d: no such adapter chain in %s' % (nth, fname))


def rw_filter_map_loop(text, nth, fired, fname, ctype=''):
    """R26 (added for unit `sample_cache`, directive `@@filter_map_loop k [VecType]`; the optional
    VecType is a type ascription `let mut vx_c_k: VecType` for the annotations): the k-th iterator-adapter
    chain of the shape
        SRC.iter().filter_map(|PAT| BODY).collect()
    becomes the block expression
        { let mut vx_c_k = Vec::new();
          for PAT in SRC.iter() { match BODY { Some(vx_x_k) => { vx_c_k.push(vx_x_k); } None => {} } }
          vx_c_k }
    i.e. the definitions of Iterator::filter_map ("yields only the values for which the supplied
    closure returns Some(value)", each element handed to the closure once, in iteration order) and
    of collect::<Vec<_>>() (the yielded values in order).  PAT and BODY are the verbatim source text
    and stay on their lines (a closure parameter pattern is a valid `for` pattern for the same item
    type).  Guards (else UNDECIDED): SRC is a place expression (identifier path); the closure has
    exactly one parameter; BODY is a block that contains no `return` and no `?` (they would leave
    the closure, not the loop); `.collect()` has no turbofish.  The new `for` counts as an ordinary
    loop for @@desugar_for / @@loop numbering."""
    src = Src(text)
    cnt = 0
    for i in range(src.n()):
        if not (src.s(i) == '.' and src.s(i + 1) == 'collect' and src.s(i + 2) == '(' and src.s(i + 3) == ')'):
            continue
        j = i - 1
        if src.s(j) != ')':
            continue
        op = src.match[j]
        if not (src.s(op - 1) == 'filter_map' and src.s(op - 2) == '.'):
            continue
        k0 = op - 3
        if not (src.s(k0) == ')' and src.s(k0 - 1) == '(' and src.s(k0 - 2) == 'iter' and src.s(k0 - 3) == '.'):
            continue
        cnt += 1
        if cnt != nth:
            continue
        s_end = k0 - 4
        q = s_end
        while q >= 0 and (src.t(q).kind == 'ident' or src.s(q) == '.'):
            q -= 1
        s_start = q + 1
        srctxt = text[src.t(s_start).pos:src.t(s_end).end]
        if not re.fullmatch(r'[A-Za-z_][A-Za-z0-9_]*(\s*\.\s*[A-Za-z_][A-Za-z0-9_]*)*', srctxt):
            raise Undecided('unsupported-construct', 'filter_map_loop %d of %s: source %r is not a place expression' % (nth, fname, srctxt))
        srctxt = re.sub(r'\s+', '', srctxt)
        if src.s(op + 1) != '|':
            raise Undecided('unsupported-construct', 'filter_map_loop %d of %s: argument is not a closure' % (nth, fname))
        pe = op + 2
        depth_commas = 0
        while src.s(pe) != '|':
            if src.s(pe) in rscan.OPEN:
                pe = src.match[pe]
            elif src.s(pe) == ',':
                depth_commas += 1
            pe += 1
        if depth_commas or pe == op + 2:
            raise Undecided('unsupported-construct', 'filter_map_loop %d of %s: closure must have exactly one parameter' % (nth, fname))
        pat = text[src.t(op + 2).pos:src.t(pe - 1).end]
        if src.s(pe + 1) != '{' or src.match[pe + 1] != j - 1:
            raise Undecided('unsupported-construct', 'filter_map_loop %d of %s: closure body is not a block' % (nth, fname))
        for x in range(pe + 1, j):
            if src.s(x) in ('return', '?'):
                raise Undecided('unsupported-construct', 'filter_map_loop %d of %s: `%s` inside the closure body' % (nth, fname, src.s(x)))
        k = nth
        ed = Edits(text)
        a0 = src.t(s_start).pos
        body_a = src.t(pe + 1).pos
        body_b = src.t(j - 1).end
        tail_b = src.t(i + 3).end
        ed.replace(a0, body_a, '{ let mut vx_c_%d%s = Vec::new(); for %s in %s.iter() { match ' % (k, (': ' + ctype) if ctype else '', pat.replace('\n', ' '), srctxt)
                   + keep_newlines(text[a0:body_a]))
        ed.replace(body_b, tail_b, ' { Some(vx_x_%d) => { vx_c_%d.push(vx_x_%d); } None => {} } } vx_c_%d }' % (k, k, k, k)
                   + keep_newlines(text[body_b:tail_b]))
        fired.append(('R26', src.line_of(a0),
                      'adapter chain %s.iter().filter_map(|%s| ..).collect() -> explicit loop into Vec (vx_c_%d)' % (srctxt, ' '.join(pat.split()), k)))
        return ed.apply()
    raise Undecided('lost-anchor', 'filter_map_loop %d: no such adapter chain in %s' % (nth, fname))


def rw_boxed_chain(text, fired, fname):
    """R36 (added for unit `fragments` / C03, directive `@@boxed_chain`; sibling of R25): a function whose
    result is a boxed iterator — `-> Box<dyn Iterator<Item = T>>`, built as `Box::new(CHAIN)` /
    `Box::new(iter::empty())` — is verified as the function that returns the `Vec<T>` of the items
    the iterator yields, in order.  LAZINESS IS DROPPED: what is proved is the sequence of items, not
    when they are computed (the stages must be free of side effects for that to be the same thing).
      * every type `Box<dyn [lifetime +] Iterator<Item = T>>` in the text  ->  `Vec<T>`
      * `Box::new(X)` -> `(X)`,   `iter::empty()` -> `Vec::new()`
      * every CHAIN = `(A..B)` followed by adapters `.take(N)` / `.take_while(|p| E)` /
        `.filter([move] |p| E)` / `.map([move] |p| E)` becomes the block expression
          { let mut vx_b_k: Vec<T> = Vec::new(); let mut vx_t_k_j: usize = 0; ..   // one counter per take
            for vx_x_k_0 in A..B {
              if vx_t_k_j >= (N) { break; } vx_t_k_j = vx_t_k_j + 1;    // take(N): at most N items of ITS input
              if !({ let p = &vx_x_k_i; E }) { break; }                   // take_while
              if ({ let p = &vx_x_k_i; E }) {                             // filter (closed after the push)
              let vx_x_k_i+1 = { let p = vx_x_k_i; E };                   // map
              vx_b_k.push(vx_x_k_last); } } vx_b_k }
        — each adapter by its definition, applied to every item in chain order.  Closure bodies are
        the verbatim source text on their lines; closure parameters must be single identifiers.
    The new `for` loops count as ordinary loops for @@loop / @@name_for numbering."""
    src = Src(text)
    ed = Edits(text)
    # ---- types
    elem = None
    i = 0
    ntypes = 0
    while i < src.n():
        if src.s(i) == 'Box' and src.s(i + 1) == '<' and src.s(i + 2) == 'dyn':
            e = src.skip_generics(i + 1)          # index after the closing '>' / '>>'
            toks = [src.s(x) for x in range(i, e)]
            if 'Iterator' not in toks or 'Item' not in toks:
                raise Undecided('unsupported-construct', 'boxed_chain: %s: boxed dyn type is not an Iterator' % fname)
            it = toks.index('Item')
            if toks[it + 1] != '=':
                raise Undecided('unsupported-construct', 'boxed_chain: %s: cannot read the item type' % fname)
            ty = ''.join(toks[it + 2:]).rstrip('>')
            if elem is not None and ty != elem:
                raise Undecided('unsupported-construct', 'boxed_chain: %s: two different item types' % fname)
            elem = ty
            a, b = src.t(i).pos, src.t(e - 1).end
            if i > 0 and src.s(i - 1) == 'as':
                # `X as Box<dyn Iterator<..>>` is the unsizing coercion to the trait object: identity on the
                # Vec view (and Verus rejects a `Vec as Vec` cast) -> the cast is dropped
                a = src.t(i - 1).pos
                ed.replace(a, b, keep_newlines(text[a:b]))
            else:
                ed.replace(a, b, 'Vec<%s>' % ty + keep_newlines(text[a:b]))
            ntypes += 1
            i = e
            continue
        i += 1
    if elem is None:
        raise Undecided('lost-anchor', 'boxed_chain: %s does not mention Box<dyn Iterator<Item = ..>>' % fname)
    fired.append(('R36', 1, 'Box<dyn Iterator<Item = %s>> -> Vec<%s> (%d places): the function is verified as returning the items its iterator yields, in order; laziness dropped' % (elem, elem, ntypes)))
    # ---- Box::new(X) -> (X), iter::empty() -> Vec::new()
    for i in range(src.n()):
        if src.s(i) == 'Box' and src.s(i + 1) == '::' and src.s(i + 2) == 'new' and src.s(i + 3) == '(':
            a, b = src.t(i).pos, src.t(i + 2).end
            ed.replace(a, b, keep_newlines(text[a:b]))
            fired.append(('R36', src.line_of(a), 'Box::new(X) -> (X)'))
        if src.s(i) == 'iter' and src.s(i + 1) == '::' and src.s(i + 2) == 'empty' and src.s(i + 3) == '(' and src.s(i + 4) == ')':
            if i >= 2 and src.s(i - 1) == '::' and src.s(i - 2) in ('std', 'core'):
                continue
            a, b = src.t(i).pos, src.t(i + 4).end
            ed.replace(a, b, 'Vec::new()' + keep_newlines(text[a:b]))
            fired.append(('R36', src.line_of(a), 'iter::empty() -> Vec::new()'))
    # ---- chains over a range
    ADAPT = ('take', 'take_while', 'filter', 'map')
    k = 0
    i = 0
    while i < src.n():
        if src.s(i) == '(' and src.s(src.match[i] + 1) == '.' and src.s(src.match[i] + 2) in ADAPT \
                and src.s(src.match[i] + 3) == '(':
            cl = src.match[i]
            # a range at depth 0 inside the parentheses?
            j = i + 1
            has_range = False
            while j < cl:
                if src.s(j) in rscan.OPEN:
                    j = src.match[j] + 1; continue
                if src.s(j) in ('..', '..='):
                    has_range = True
                j += 1
            if not has_range:
                i += 1; continue
            k += 1
            rng = text[src.t(i + 1).pos:src.t(cl - 1).end].replace('\n', ' ')
            stages = []
            j = cl + 1
            while src.s(j) == '.' and src.s(j + 1) in ADAPT and src.s(j + 2) == '(':
                stages.append((src.s(j + 1), j + 2, src.match[j + 2]))
                j = src.match[j + 2] + 1
            if src.s(j) == '.':
                raise Undecided('unsupported-construct', 'boxed_chain: %s: adapter `.%s` is not one of take/take_while/filter/map' % (fname, src.s(j + 1)))
            ntake = sum(1 for st in stages if st[0] == 'take')
            pending = '{ let mut vx_b_%d: Vec<%s> = Vec::new(); ' % (k, elem)
            for tj in range(ntake):
                pending += 'let mut vx_t_%d_%d: usize = 0; ' % (k, tj)
            pending += 'for vx_x_%d_0 in %s { ' % (k, rng)
            prev_end = src.t(i).pos
            closers = ''
            cur = 0
            tj = 0
            for (nm, op, cp) in stages:
                if nm == 'take':
                    n_txt = text[src.t(op + 1).pos:src.t(cp - 1).end].replace('\n', ' ')
                    pending += 'if vx_t_%d_%d >= (%s) { break; } vx_t_%d_%d = vx_t_%d_%d + 1; ' % (k, tj, n_txt, k, tj, k, tj)
                    tj += 1
                    # nothing verbatim is kept of `.take(N)` (N is copied above): flush right here
                    ed.replace(prev_end, src.t(cp).end, pending + keep_newlines(text[prev_end:src.t(cp).end]))
                    pending = ''
                    prev_end = src.t(cp).end
                    continue
                q = op + 1
                if src.s(q) == 'move':
                    q += 1
                if not (src.s(q) == '|' and src.t(q + 1).kind == 'ident' and src.s(q + 2) == '|'):
                    raise Undecided('unsupported-construct', 'boxed_chain: %s: %s closure parameter is not a single identifier' % (fname, nm))
                p = src.s(q + 1)
                body_a = src.t(q + 3).pos
                body_b = src.t(cp - 1).end
                if nm == 'take_while':
                    head = pending + 'if !({ let %s = &vx_x_%d_%d; ' % (p, k, cur)
                    pending = ' }) { break; } '
                elif nm == 'filter':
                    head = pending + 'if ({ let %s = &vx_x_%d_%d; ' % (p, k, cur)
                    pending = ' }) { '
                    closers += '} '
                else:   # map
                    head = pending + 'let vx_x_%d_%d = { let %s = vx_x_%d_%d; ' % (k, cur + 1, p, k, cur)
                    pending = ' }; '
                    cur += 1
                ed.replace(prev_end, body_a, head + keep_newlines(text[prev_end:body_a]))
                prev_end = body_b
            last_b = src.t(stages[-1][2]).end
            ed.replace(prev_end, last_b, pending + 'vx_b_%d.push(vx_x_%d_%d); %s} vx_b_%d }' % (k, k, cur, closers, k)
                       + keep_newlines(text[prev_end:last_b]))
            fired.append(('R36', src.line_of(src.t(i).pos), 'iterator chain (%s).%s -> loop collecting the yielded items into vx_b_%d'
                          % (rng, '.'.join(st[0] + '(..)' for st in stages), k)))
            i = stages[-1][2] + 1
            continue
        i += 1
    return ed.apply()


def rw_match_map(text, nth, fired, fname):
    """R17b: the nth expression `EXPR.map(|PAT| BODY)` whose closure captures `&mut` state (value
    used) becomes `match EXPR { Some(PAT) => Some(BODY), None => None }` — the definition of
    Option::map.  EXPR starts at the statement/expression start (after `;`, `{`, `}`, `=`, `return`
    or `else`)."""
    src = Src(text)
    cnt = 0
    for i in range(src.n()):
        if src.s(i) == '.' and src.s(i + 1) == 'map' and src.s(i + 2) == '(' and src.s(i + 3) == '|':
            cnt += 1
            if cnt != nth:
                continue
            close = src.match[i + 2]
            j = i - 1
            while j >= 0:
                sj = src.s(j)
                if sj in rscan.CLOSE:
                    j = src.match[j] - 1
                    continue
                if sj in (';', '{', '}', '=', 'return', 'else', '=>', '(', ','):
                    break
                j -= 1
            start = j + 1
            pe = i + 4
            while src.s(pe) != '|':
                if src.s(pe) in rscan.OPEN: pe = src.match[pe]
                pe += 1
            pat = text[src.t(i + 4).pos:src.t(pe - 1).end]
            body_a = src.t(pe + 1).pos
            body_b = src.t(close - 1).end
            body = text[body_a:body_b]
            expr = text[src.t(start).pos:src.t(i - 1).end]
            whole_a, whole_b = src.t(start).pos, src.t(close).end
            head = 'match %s { Some(%s) => Some(' % (expr.replace('\n', ' '), pat.replace('\n', ' '))
            pre_nl = text[whole_a:body_a].count('\n')
            post_nl = text[body_b:whole_b].count('\n')
            new = head + '\n' * pre_nl + body + '), None => None }' + '\n' * post_nl
            fired.append(('R17', src.line_of(whole_a), 'OPT.map(|x| ..) -> match (definition of Option::map)'))
            return text[:whole_a] + new + text[whole_b:]
    raise Undecided('lost-anchor', 'match_map %d: no such expression in %s' % (nth, fname))


def closure_starts(src, lo, hi):
    """indices (sig) of the opening '|' or '||' of closures in [lo,hi)"""
    out = []
    i = lo
    while i < hi:
        s = src.s(i)
        if s in ('|', '||') and src.t(i).kind == 'punct':
            prev = src.s(i - 1)
            pk = src.t(i - 1).kind if i > 0 else 'punct'
            starts = (pk == 'punct' and prev in ('(', ',', '=', '{', ';', '=>', '[', ':', '&&', '!')) or prev in ('move', 'return', 'else')
            if starts:
                out.append(i)
                if s == '|':
                    # skip to the closing '|'
                    j = i + 1
                    while j < hi and src.s(j) != '|':
                        if src.s(j) in rscan.OPEN: j = src.match[j]
                        j += 1
                    i = j + 1
                    continue
        i += 1
    return out


def expr_end(src, si, hi):
    """end (exclusive sig index) of the expression starting at si: up to ',' ';' or a closing
    bracket at depth 0"""
    j = si
    while j < hi:
        s = src.s(j)
        if s in rscan.OPEN:
            j = src.match[j] + 1; continue
        if s in (',', ';') or s in rscan.CLOSE:
            return j
        j += 1
    return hi


class FnText:
    """one extracted function: original text, rewritten text, splice points"""

    def __init__(self, repo, rel, selector, security=False, impl_re=None, nth=None):
        self.rel, self.selector = rel, selector
        src = load_src(repo, rel)
        it = find_fn(src, selector, security, impl_re, nth)
        if it.open_si is None:
            raise Undecided('unsupported-construct', 'fn %s has no body' % selector)
        a = src.t(it.start_si).pos
        b = src.t(it.end_si).end
        self.orig = src.text[a:b]
        self.first_line = src.line_of(a)
        self.last_line = src.line_of(b)
        self.sha = hashlib.sha256(self.orig.encode()).hexdigest()
        self.fired = []
        self.attrs = it.attrs
        self.name = selector
        self.repo, self.impl_re, self.nth = repo, impl_re, nth    # (R30 re-runs the R11 guards on the same fn)


def _binders(src, lo, hi):
    """identifiers bound by the pattern tokens [lo,hi): lower-case identifiers that are not path
    segments, constructor / struct names or struct-pattern field names"""
    out = []
    for i in range(lo, hi):
        t = src.t(i)
        if t.kind != 'ident' or t.s in ('mut', 'ref', 'box', '_', 'let', 'for', 'while', 'if', 'in', 'self', 'true', 'false'):
            continue
        if not (t.s[0].islower() or t.s[0] == '_'):
            continue
        if src.s(i + 1) in ('::', '(', '{', '!') or src.s(i - 1) in ('::', '.'):
            continue
        if src.s(i + 1) == ':' and src.s(i + 2) != ':':
            # `field: pat` inside a struct pattern is a field name; `x: T` in a let is a binder
            inside_braces = False
            d = 0
            for k in range(i - 1, lo - 1, -1):
                if src.s(k) == '}': d += 1
                elif src.s(k) == '{':
                    if d == 0:
                        inside_braces = True; break
                    d -= 1
            if inside_braces:
                continue
        out.append(t.s)
    return out


def arm_level_tail_continues(src, fn_ob, fn_cb, p0, ob, cb, what):
    """R11c (added for seed C20e; used by R11 and R30): the `continue` tokens at ARM level of the arm
    block (ob, cb) whose pattern starts at p0 — those not inside a loop nested in the arm.  Such a
    `continue` means "this arm is finished, next round of the dispatch loop" PROVIDED the `match` is the
    last statement of the body of the innermost enclosing loop: then it is what falling out of the arm
    does.  Checked (else UNDECIDED): no label; the innermost block around the arm is the block of a
    `match` that starts a statement; the innermost block around that statement is the body of a loop;
    nothing but an optional `;` follows the match there.  Returns the sorted token indices."""
    inner = loops_in(src, ob + 1, cb)
    conts = [q for q in range(ob + 1, cb) if src.t(q).kind == 'ident' and src.s(q) == 'continue'
             and not any(lp[2] < q < lp[3] for lp in inner)]
    if not conts:
        return []
    for q in conts:
        if src.s(q + 1) not in (';', '}', ','):
            raise Undecided('unsupported-construct', 'R11c: labelled `continue` in %s' % what)

    def enclosing_open(k):
        while k > fn_ob:
            s = src.s(k)
            if s in rscan.CLOSE:
                k = src.match[k] - 1
                continue
            if s in rscan.OPEN:
                return k
            k -= 1
        return fn_ob
    mo = enclosing_open(p0 - 1)
    mk = None
    k = mo - 1
    while k > fn_ob:
        s = src.s(k)
        if s in rscan.CLOSE:
            k = src.match[k] - 1
            continue
        if s in rscan.OPEN or s == ';':
            break
        if s == 'match' and src.t(k).kind == 'ident':
            mk = k
            break
        k -= 1
    if src.s(mo) != '{' or mk is None or src.s(mk - 1) not in ('{', ';', '}'):
        raise Undecided('unsupported-construct', 'R11c: `continue` in %s: the arm does not belong to a `match` statement' % what)
    eo = enclosing_open(mk - 1)
    lp = [l for l in loops_in(src, fn_ob + 1, fn_cb) if l[2] == eo]
    t = src.match[mo] + 1
    if src.s(t) == ';':
        t += 1
    if src.s(eo) != '{' or not lp or t != src.match[eo]:
        raise Undecided('unsupported-construct', 'R11c: `continue` in %s: the `match` is not the last statement of the enclosing loop body' % what)
    return conts


class ArmText:
    """R11 arm-to-function: one `match` arm of a function, located by its pattern token sequence,
    cut into a generated `fn <name>(<params>) <arm block>`.  The arm block is the verbatim text;
    the object has the interface of FnText so that splice_function treats it like a function.
    Checked (else UNDECIDED): the pattern is unique in the function and starts an arm; the arm body
    is a block; every parameter other than `self` is a binding of the arm pattern and every
    binding of the pattern is a parameter; no other local of the enclosing function (parameters,
    `let` / `while let` / `if let` / `for` bindings of the enclosing blocks) occurs in the arm."""

    def __init__(self, repo, rel, selector, pattern, name, params, security=False, impl_re=None, nth=None,
                 ret=None, outer_ok=None, selfalias=None):
        # `ret="<type>"` / `outer="p1,p2"` (added for unit `sec_attrs`): see the two R11x comments below
        # `selfalias=<name>` (added for unit `discovery_glue`): see the R11y comment below
        self.rel, self.selector = rel, selector
        src = load_src(repo, rel)
        it = find_fn(src, selector, security, impl_re, nth)
        if it.open_si is None:
            raise Undecided('unsupported-construct', 'fn %s has no body' % selector)
        outer_ok = [x.strip() for x in (outer_ok or '').split(',') if x.strip()]
        ptoks = norm_tokens(pattern)
        if ptoks and ptoks[-1] == '=>':
            ptoks = ptoks[:-1]
        needle = ' '.join(ptoks + ['=>'])
        hit = find_token_seq(src, it.open_si + 1, it.end_si, needle, 1)
        if hit is None:
            raise Undecided('lost-anchor', 'arm %r not found in %s' % (pattern, selector))
        if find_token_seq(src, it.open_si + 1, it.end_si, needle, 2) is not None:
            raise Undecided('lost-anchor', 'arm %r is not unique in %s' % (pattern, selector))
        p0, arrow = hit
        if src.s(p0 - 1) not in ('{', ',', '}'):
            raise Undecided('lost-anchor', 'arm %r of %s: pattern does not start a match arm' % (pattern, selector))
        ob = arrow + 1
        expr_arm = False
        if src.s(ob) != '{' and ret is not None:
            # R11x (unit sec_attrs): with `ret="<type>"` the arm may be an expression `PAT => EXPR,`; the
            # generated function is `fn <name>(<params>) -> <type> { EXPR }` (EXPR verbatim, up to the
            # depth-0 ',' that ends the arm or the '}' that ends the match)
            expr_arm = True
            e_end = expr_end(src, ob, it.end_si)
            if e_end <= ob:
                raise Undecided('unsupported-construct', 'arm %r of %s: empty body' % (pattern, selector))
            cb = e_end          # exclusive end of the scanned tokens; first token is ob
            a, b = src.t(ob).pos, src.t(e_end - 1).end
            ob = ob - 1         # so that range(ob + 1, cb) below covers the whole expression
        elif src.s(ob) != '{':
            raise Undecided('unsupported-construct', 'arm %r of %s: body is not a block' % (pattern, selector))
        else:
            cb = src.match[ob]
            a, b = src.t(ob).pos, src.t(cb).end
        # ---- the inputs of the generated function are exactly `self` + the bindings of the pattern
        psrc = Src(params)
        pnames = []
        depth_start = True
        j = 0
        while j < psrc.n():
            s = psrc.s(j)
            if s in rscan.OPEN:
                j = psrc.match[j] + 1; continue
            if s == '<':
                j = psrc.skip_generics(j); continue
            if s == ',':
                depth_start = True
            elif depth_start and psrc.t(j).kind == 'ident' and s not in ('mut',):
                pnames.append(s); depth_start = False
            j += 1
        self.pnames = list(pnames)      # (R30 builds the call `self.<name>(<pnames>)` from it)
        binders = _binders(src, p0, arrow)
        for pn in pnames:
            if pn != 'self' and pn not in binders and pn not in outer_ok:
                raise Undecided('unsupported-construct', 'R11: parameter %s of %s is not a binding of the arm pattern' % (pn, name))
        for bn in binders:
            if bn not in pnames:
                raise Undecided('unsupported-construct', 'R11: binding %s of the arm pattern is not a parameter of %s' % (bn, name))
        outer = set()
        # parameters of the enclosing function
        fn_si = next(i for i in range(it.start_si, it.open_si) if src.s(i) == 'fn')
        po = fn_si + 2
        if src.s(po) == '<':
            po = src.skip_generics(po)
        if src.s(po) == '(':
            outer.update(_binders(src, po + 1, src.match[po]))
        # bindings of the enclosing blocks that are in scope at the arm
        for o in range(it.open_si, p0):
            if src.s(o) != '{' or src.match[o] < cb:
                continue
            # block header (while let / if let / for PAT in)
            h = o - 1
            while h > it.open_si and src.s(h) not in (';', '{', '}'):
                if src.s(h) in rscan.CLOSE and src.s(h) != '}':
                    h = src.match[h]
                h -= 1
            k = h + 1
            while k < o:
                if src.s(k) == 'let':
                    e = k + 1
                    while e < o and src.s(e) != '=':
                        e += 1
                    outer.update(_binders(src, k + 1, e)); k = e
                elif src.s(k) == 'for' and src.s(k + 1) != '<':
                    e = k + 1
                    while e < o and src.s(e) != 'in':
                        e += 1
                    outer.update(_binders(src, k + 1, e)); k = e
                k += 1
            # `let` statements directly inside the block, before the arm
            k = o + 1
            while k < p0:
                s = src.s(k)
                if s in rscan.OPEN:
                    if src.match[k] > p0:
                        break   # the next enclosing block: handled by the outer loop
                    k = src.match[k] + 1; continue
                if s == 'let':
                    e = k + 1
                    dd = 0
                    while e < p0 and not (dd == 0 and src.s(e) in ('=', ';')):
                        if src.s(e) in rscan.OPEN: dd += 1
                        elif src.s(e) in rscan.CLOSE: dd -= 1
                        elif dd == 0 and src.s(e) == ':' :
                            break
                        e += 1
                    outer.update(_binders(src, k + 1, e)); k = e
                k += 1
        outer.discard('self')
        if outer_ok:
            # R11x (unit sec_attrs): `outer="p1,p2"` — parameters of the ENCLOSING function that the arm
            # uses are handed to the generated function under the same name.  Checked: each is a
            # parameter of the enclosing function, is declared there with token-identical text
            # (`name: Type`) as in params=, and is not re-bound by a `let`/`for` of the enclosing blocks
            # (the generated function is then verified for EVERY value of that type, which covers
            # whatever value the parameter has when the arm runs)
            def _split_params(ps, lo, hi):
                out_, cur_ = [], []
                q = lo
                while q < hi:
                    s_ = ps.s(q)
                    if s_ in rscan.OPEN:
                        cur_.extend(ps.s(x) for x in range(q, ps.match[q] + 1)); q = ps.match[q] + 1; continue
                    if s_ == ',':
                        out_.append(cur_); cur_ = []
                    else:
                        cur_.append(s_)
                    q += 1
                if cur_: out_.append(cur_)
                return out_
            enc_params = _split_params(src, po + 1, src.match[po]) if src.s(po) == '(' else []
            gen_params = _split_params(psrc, 0, psrc.n())
            enc_names = set(_binders(src, po + 1, src.match[po])) if src.s(po) == '(' else set()
            rebound = set()
            for o in range(it.open_si, p0):
                if src.s(o) == 'let' or (src.s(o) == 'for' and src.s(o + 1) != '<'):
                    e = o + 1
                    while e < p0 and src.s(e) not in ('=', ';', 'in'):
                        e += 1
                    rebound.update(_binders(src, o + 1, e))
            for on in outer_ok:
                if on not in enc_names or on in rebound or on in binders:
                    raise Undecided('unsupported-construct', 'R11: outer=%s is not a plain parameter of %s in scope at the arm' % (on, selector))
                decl = [p_ for p_ in enc_params if p_ and (p_[0] == on or (p_[0] == 'mut' and len(p_) > 1 and p_[1] == on))]
                gen = [p_ for p_ in gen_params if p_ and p_[0] == on]
                if len(decl) != 1 or len(gen) != 1 or [x for x in decl[0] if x != 'mut'] != gen[0]:
                    raise Undecided('unsupported-construct', 'R11: outer=%s: params= must repeat the declaration of %s in %s' % (on, on, selector))
        # R11z (unit writer_push): a name of the enclosing function that the arm RE-BINDS itself
        # (`if let Some(cc) = .. { .. cc .. }` under `while let Ok(cc) = ..`) is the arm's own local
        # inside the scope of that binding: `if let` / `while let` PAT = E BLOCK -> PAT and BLOCK (not E);
        # `let PAT [: T] = E;` -> PAT and the rest of the enclosing block after the `;`.  Occurrences
        # there are not uses of the outer local; everything else is still refused.
        inner = {}
        for q in range(ob + 1, cb):
            if src.s(q) != 'let':
                continue
            e = q + 1
            dd = 0
            while e < cb and not (dd == 0 and src.s(e) in ('=', ';', ':')):
                if src.s(e) in rscan.OPEN: dd += 1
                elif src.s(e) in rscan.CLOSE: dd -= 1
                e += 1
            names = [n_ for n_ in _binders(src, q + 1, e) if n_ in outer]
            if not names:
                continue
            scope = None
            if src.s(q - 1) in ('if', 'while'):
                z = e
                while z < cb and src.s(z) != '{':
                    z = src.match[z] + 1 if src.s(z) in rscan.OPEN else z + 1
                if z < cb:
                    scope = (z, src.match[z])
            else:
                z = e
                while z < cb and src.s(z) != ';':
                    z = src.match[z] + 1 if src.s(z) in rscan.OPEN else z + 1
                o = q - 1
                while o > ob and src.s(o) != '{':
                    o = src.match[o] - 1 if src.s(o) in rscan.CLOSE else o - 1
                if z < cb and src.s(o) == '{':
                    scope = (z, src.match[o])
            if scope is not None:
                for n_ in names:
                    inner.setdefault(n_, []).extend([(q + 1, e), scope])
        if selfalias:
            # R11y (unit discovery_glue): `selfalias=<name>` — a local of the enclosing function that is
            # nothing but another name for `self` (`let [mut] <name> = self;`, DPEventLoop::event_loop:
            # `let mut ev_wrapper = self;`).  The generated function starts with `let <name> = self;`.
            # Checked (else UNDECIDED): exactly one such `let` in the enclosing function, before the arm;
            # <name> is never assigned again (`<name> =`), never re-bound, and not a binding of the arm.
            lets = [q for q in range(it.open_si + 1, it.end_si - 4)
                    if src.s(q) == 'let' and (
                        (src.s(q + 1) == selfalias and src.s(q + 2) == '=' and src.s(q + 3) == 'self' and src.s(q + 4) == ';')
                        or (src.s(q + 1) == 'mut' and src.s(q + 2) == selfalias and src.s(q + 3) == '=' and src.s(q + 4) == 'self' and src.s(q + 5) == ';'))]
            if len(lets) != 1 or lets[0] > p0 or selfalias in binders:
                raise Undecided('unsupported-construct', 'R11: selfalias=%s is not a unique `let [mut] %s = self;` before the arm in %s' % (selfalias, selfalias, selector))
            for q in range(it.open_si + 1, it.end_si):
                if src.t(q).kind == 'ident' and src.s(q) == selfalias and q not in (lets[0] + 1, lets[0] + 2):
                    if src.s(q + 1) == '=' or src.s(q - 1) in ('let', 'mut', 'ref'):
                        raise Undecided('unsupported-construct', 'R11: selfalias=%s is assigned or re-bound in %s' % (selfalias, selector))
        for i in range(ob + 1, cb):
            t = src.t(i)
            if t.kind == 'ident' and t.s in outer_ok and t.s not in binders:
                continue
            if selfalias and t.kind == 'ident' and t.s == selfalias:
                continue
            if t.kind == 'ident' and any(lo_ <= i < hi_ for (lo_, hi_) in inner.get(t.s, ())):
                continue
            if t.kind == 'ident' and t.s in outer and t.s not in binders \
                    and src.s(i - 1) not in ('.', '::') and src.s(i + 1) != '::':
                raise Undecided('unsupported-construct', 'R11: arm %r of %s uses `%s`, a local of the enclosing function'
                                % (pattern, selector, t.s))
        hdr = 'fn %s(%s) ' % (name, ' '.join(params.split()))
        if ret is not None:
            hdr = 'fn %s(%s) -> %s ' % (name, ' '.join(params.split()), ' '.join(ret.split()))
        # R11c: a `continue` at arm level of a match that ends the body of the dispatch loop means "this
        # arm is finished": in the generated function it is `return` (guards: arm_level_tail_continues)
        arm_txt = src.text[a:b]
        r11c = [] if (expr_arm or ret is not None) else arm_level_tail_continues(
            src, it.open_si, src.match[it.open_si], p0, ob, cb, 'arm %r of %s' % (pattern, selector))
        for q in sorted(r11c, reverse=True):
            arm_txt = arm_txt[:src.t(q).pos - a] + 'return' + arm_txt[src.t(q).end - a:]
        if expr_arm:
            self.orig = hdr + '{ ' + arm_txt + ' }'
        elif selfalias:
            self.orig = hdr + '{ let ' + selfalias + ' = self; ' + arm_txt + ' }'   # R11y
        else:
            self.orig = hdr + arm_txt
        self.orig_plain = hdr + src.text[a:b]
        self.first_line = src.line_of(a)
        self.last_line = src.line_of(b)
        self.arm_first_line = src.line_of(src.t(p0).pos)
        self.sha = hashlib.sha256(src.text[src.t(p0).pos:b].encode()).hexdigest()
        self.fired = [('R11', self.arm_first_line, 'match arm `%s` of %s cut into `%s`' % (' '.join(ptoks), selector, hdr.strip()))]
        if selfalias:
            self.fired.append(('R11y', self.arm_first_line, 'local `%s` of %s is an alias of self: `let %s = self;` prepended' % (selfalias, selector, selfalias)))
        for q in r11c:
            self.fired.append(('R11c', src.line_of(src.t(q).pos), '`continue` at arm level (the match ends the loop body) -> `return`'))
        self.attrs = it.attrs
        owner = selector.rsplit('::', 1)[0] if '::' in selector else ''
        self.name = (owner.split(' for ')[-1].strip() + '::' if owner else '') + name


class StmtText:
    """R34 statement-to-function (added for unit `access_sites`; generalisation of R11, directive
        @@extract stmt <file> <Type::fn> "<leading tokens>" as=<name> params="<param list>" [ret="<type>" cont="<expr>"]
    ): ONE statement of a (long / generic) function, located by its leading token sequence, is cut into
    the generated function `fn <name>(<params>) [-> <ret>] { <statement verbatim> [<cont>] }`; the object has
    the interface of FnText/ArmText.  A `return EXPR;` (or `?`) inside the statement returns from the
    generated function; the statement's NORMAL completion is modelled as returning `cont=` (over-
    approximation of "the enclosing function goes on": what it does afterwards is not in the unit); for a
    `let PAT = ..;` statement cont may mention the bindings of PAT.
    Checked (else UNDECIDED):
      * exactly one occurrence of the token sequence STARTS a statement that is a direct child of the
        function body (an occurrence after `=`, inside a nested block, .. does not count); attributes in
        front of it are evaluated (R7): a statement that is cfg'd out in this build is a lost anchor;
      * the inputs of the generated function are the names the statement uses that are bound OUTSIDE it —
        parameters of the enclosing function and `let`s of the function body before it (+ self): each must
        be a parameter in params=, and every parameter in params= must be such an outside name (it may be
        one the statement does not use at present); a parameter of the enclosing function (and a
        `let` with a type annotation) must be repeated token-identically (`mut` apart); for a `let` without
        annotation the type is the unit author's (recorded in the rewrite note; Verus type-checks the
        statement against it); none of them may be declared `mut` (an effect on it would escape);
      * no `break` / `continue` / label that leaves the statement.
    If ret= is not token-identical to the enclosing function's return type this is recorded too (then a
    `return` of a value that fits only the real type is a front-end error, i.e. UNDECIDED)."""

    BLOCK_KW = ('if', 'match', 'while', 'for', 'loop', 'unsafe')

    def __init__(self, repo, rel, selector, lead, name, params, security=False, impl_re=None, nth=None,
                 ret=None, cont=None):
        self.rel, self.selector = rel, selector
        src = load_src(repo, rel)
        it = find_fn(src, selector, security, impl_re, nth)
        if it.open_si is None:
            raise Undecided('unsupported-construct', 'fn %s has no body' % selector)
        fob, fcb = it.open_si, src.match[it.open_si]
        ltoks = norm_tokens(lead)
        if not ltoks:
            raise Undecided('unsupported-construct', 'R34: empty leading token sequence')
        # ---- statements that are direct children of the function body: (attr_start, start, end_exclusive)
        stmts = []
        i = fob + 1
        while i < fcb:
            a0 = i
            attrs = []
            while src.s(i) == '#' and src.s(i + 1) == '[':
                e = src.match[i + 1]
                attrs.append(src.text[src.t(i).pos:src.t(e).end])
                i = e + 1
            s0 = i
            if s0 >= fcb:
                break
            kw = src.s(s0)
            j = s0
            if kw in self.BLOCK_KW or kw == '{':
                # block-like expression statement: ends with its (else-chained) block, optional ';'
                while True:
                    ob_ = j if src.s(j) == '{' else rscan.find_block_open(src, j + 1)
                    if ob_ is None or ob_ >= fcb:
                        raise Undecided('unsupported-construct', 'R34: cannot delimit the statements of %s' % selector)
                    j = src.match[ob_] + 1
                    if src.s(j) == 'else':
                        j += 1
                        continue
                    if src.s(j) == '{' and kw in ('if', 'while', 'match') and src.s(ob_ - 1) == '=':
                        continue    # `if let P = { block } { .. }`: that was the scrutinee
                    break
                if src.s(j) in ('.', '?'):
                    # `if .. {} .method()` / `match .. {}?` : an expression that goes on; take it up to ';'
                    while j < fcb and src.s(j) != ';':
                        if src.s(j) in rscan.OPEN: j = src.match[j]
                        j += 1
                    j += 1
                elif src.s(j) == ';':
                    j += 1
            else:
                while j < fcb and src.s(j) != ';':
                    if src.s(j) in rscan.OPEN: j = src.match[j]
                    j += 1
                j += 1      # past ';' (or past the tail expression: j == fcb + 1 is clipped below)
            j = min(j, fcb)
            stmts.append((a0, attrs, s0, j))
            i = j
        hits = [st for st in stmts if [src.s(st[2] + k) for k in range(len(ltoks))] == ltoks and st[2] + len(ltoks) <= st[3]]
        if len(hits) != 1:
            raise Undecided('lost-anchor', 'R34: %d statements of the body of %s start with %r (need exactly 1)' % (len(hits), selector, lead))
        a0, attrs, s0, s_end = hits[0]
        if not cfg_ok(attrs, security):
            raise Undecided('lost-anchor', 'R34: the statement %r of %s is cfg\'d out in this build' % (lead, selector))
        for at in attrs:
            if not re.sub(r'\s+', '', at).startswith(('#[cfg(', '#[allow(')):
                raise Undecided('unsupported-construct', 'R34: attribute %s on the statement' % at)
        a, b = src.t(s0).pos, src.t(s_end - 1).end
        # ---- no control flow that leaves the statement other than return / ?
        inner_loops = loops_in(src, s0, s_end)
        for q in range(s0, s_end):
            if src.t(q).kind == 'ident' and src.s(q) in ('break', 'continue'):
                if not any(lp[2] < q < lp[3] for lp in inner_loops):
                    raise Undecided('unsupported-construct', 'R34: `%s` leaves the statement %r of %s' % (src.s(q), lead, selector))
            if src.t(q).kind == 'lifetime' and src.s(q + 1) != ':' and src.s(q - 1) in ('break', 'continue'):
                raise Undecided('unsupported-construct', 'R34: labelled break/continue in the statement %r of %s' % (lead, selector))
        # ---- names bound outside the statement: parameters of the enclosing fn, top-level lets before it
        fn_si = next(q for q in range(it.start_si, it.open_si) if src.s(q) == 'fn')
        po = fn_si + 2
        if src.s(po) == '<':
            po = src.skip_generics(po)
        if src.s(po) != '(':
            raise Undecided('unsupported-construct', 'R34: cannot find the parameter list of %s' % selector)
        pc = src.match[po]

        def split_params(ps, lo, hi):
            out_, cur_ = [], []
            q = lo
            while q < hi:
                s_ = ps.s(q)
                if s_ == '#' and ps.s(q + 1) == '[':
                    q = ps.match[q + 1] + 1; continue
                if s_ in rscan.OPEN:
                    cur_.extend(ps.s(x) for x in range(q, ps.match[q] + 1)); q = ps.match[q] + 1; continue
                if s_ == '<':       # generic arguments of a type: their commas do not separate parameters
                    e_ = ps.skip_generics(q)
                    cur_.extend(ps.s(x) for x in range(q, e_)); q = e_; continue
                if s_ == ',':
                    out_.append(cur_); cur_ = []
                else:
                    cur_.append(s_)
                q += 1
            if cur_: out_.append(cur_)
            return out_

        def pname_of(p_):
            p2 = [x for x in p_ if x not in ('&', 'mut') and not x.startswith("'")]
            return p2[0] if p2 else None

        outer = {}      # name -> ('param'|'let', declaration tokens without `mut` or None, is_mut)
        for p_ in split_params(src, po + 1, pc):
            nm = pname_of(p_)
            if nm is None: continue
            if nm == 'self':
                outer['self'] = ('param', p_, False)
            else:
                colon = p_.index(':') if ':' in p_ else None
                if colon is None or [x for x in p_[:colon] if x != 'mut'] != [nm]:
                    raise Undecided('unsupported-construct', 'R34: pattern parameter in %s' % selector)
                outer[nm] = ('param', [x for x in p_ if x != 'mut'], 'mut' in p_[:colon])
        for (_, at2, t0, t1) in stmts:
            if t0 >= s0:
                break
            if src.s(t0) != 'let' or not cfg_ok(at2, security):
                continue
            e = t0 + 1
            dd = 0
            colon = None
            while e < t1 and not (dd == 0 and src.s(e) in ('=', ';')):
                if src.s(e) in rscan.OPEN: dd += 1
                elif src.s(e) in rscan.CLOSE: dd -= 1
                elif dd == 0 and src.s(e) == ':' and colon is None: colon = e
                e += 1
            pat_end = colon if colon is not None else e
            bs = _binders(src, t0 + 1, pat_end)
            is_mut = any(src.s(q) == 'mut' for q in range(t0 + 1, pat_end))
            for bn in bs:
                decl = None
                if colon is not None and len(bs) == 1 and [src.s(q) for q in range(t0 + 1, colon) if src.s(q) != 'mut'] == [bn]:
                    decl = [bn, ':'] + [src.s(q) for q in range(colon + 1, e)]
                outer[bn] = ('let', decl, is_mut)     # a later `let` shadows an earlier binding / a parameter
        # ---- names the statement uses
        used = []
        for q in range(s0, s_end):
            t = src.t(q)
            if t.kind != 'ident' or t.s not in outer:
                continue
            if src.s(q - 1) in ('.', '::') or src.s(q + 1) == '::':
                continue
            if src.s(q + 1) == ':' and src.s(q - 1) in ('{', ','):
                continue        # field name of a struct literal / pattern
            if t.s not in used:
                used.append(t.s)
        psrc = Src(params)
        gen = {}
        for p_ in split_params(psrc, 0, psrc.n()):
            nm = pname_of(p_)
            if nm is not None:
                gen[nm] = p_
        for nm in used:
            if nm not in gen:
                raise Undecided('unsupported-construct', 'R34: the statement %r of %s uses `%s`, bound outside it: must be a parameter of %s'
                                % (lead, selector, nm, name))
        notes = []
        for nm, p_ in gen.items():
            if nm not in outer:
                raise Undecided('unsupported-construct', 'R34: parameter %s of %s is not a name bound outside the statement in %s' % (nm, name, selector))
            # (a parameter the statement does not use is allowed: one more universally quantified input -
            #  so that a changed statement that reads another local of the function is still checked)
            kind_, decl, is_mut = outer[nm]
            if is_mut:
                raise Undecided('unsupported-construct', 'R34: `%s` is declared mut in %s (an effect of the statement on it would escape)' % (nm, selector))
            if decl is not None:
                if [x for x in p_ if x != 'mut'] != [x for x in decl if x != 'mut']:
                    raise Undecided('unsupported-construct', 'R34: params= must repeat the declaration `%s` of %s' % (' '.join(decl), selector))
            else:
                notes.append('%s' % ' '.join(p_))
        self.pnames = list(gen.keys())
        # ---- the generated function
        hdr = 'fn %s(%s) ' % (name, ' '.join(params.split()))
        if ret is not None:
            hdr = 'fn %s(%s) -> %s ' % (name, ' '.join(params.split()), ' '.join(ret.split()))
            enc_ret = []
            if src.s(pc + 1) == '->':
                q = pc + 2
                while q < fob and src.s(q) != 'where':
                    enc_ret.append(src.s(q)); q += 1
            if norm_tokens(ret) != enc_ret:
                notes.append('return type %s stands for %s' % (' '.join(ret.split()), ' '.join(enc_ret) or '()'))
        if (ret is None) != (cont is None):
            raise Undecided('unsupported-construct', 'R34: ret= and cont= go together')
        self.orig = hdr + '{ ' + src.text[a:b] + ((' ' + ' '.join(cont.split())) if cont is not None else '') + ' }'
        self.first_line = src.line_of(a)
        self.last_line = src.line_of(b)
        self.arm_first_line = self.first_line
        self.sha = hashlib.sha256(src.text[a:b].encode()).hexdigest()
        self.fired = [('R34', self.first_line, 'statement `%s ..` of %s cut into `%s`; normal completion = `%s`%s'
                       % (' '.join(ltoks), selector, hdr.strip(), cont if cont is not None else '()',
                          ('; given by the unit, not checked against the source: ' + '; '.join(notes)) if notes else ''))]
        self.attrs = it.attrs
        owner = selector.rsplit('::', 1)[0] if '::' in selector else ''
        self.name = (owner.split(' for ')[-1].strip() + '::' if owner else '') + name


class ClosureText:
    """R35 closure-to-function (added for unit `cache_window`; sibling of R11 / R34, directive
        @@extract closure <file> <Type::fn> <k> as=<name> params="<param list>" ret="<type>" [generics="<'a>"]
    ): the BODY of the k-th closure of the function (source order, counted as `@@closure k` counts them)
    becomes the body of the generated `fn <name><generics>(<params>) -> <ret> { [let PAT = p;] BODY }` — for
    closures inside adapter chains / boxed iterators that cannot go through Verus as a whole.  A `return`
    inside a closure returns from the closure, i.e. from the generated function.
    params= lists (a) every name the body uses that is bound OUTSIDE the closure (parameters of the enclosing
    function, `let` / `for` bindings before the closure, self): guard as R34 — each such name must be a
    parameter, parameters of the enclosing function / annotated lets repeated token-identically (lifetimes
    and `mut` apart), none of them declared `mut`; and (b), in order, the closure's own parameters: a plain
    parameter `x` under its own name; a pattern parameter either as ONE fresh name p (then `let PAT = p;`
    is prepended, R5 applied to `&x` sub-patterns, as R19 does) or, for a flat tuple pattern `(a, b)`, as
    the separate parameters `a: TA, b: TB` (a closure taking the tuple (a, b)).  The types of the closure's
    parameters and of un-annotated lets are the unit's (recorded in the rewrite note)."""

    def __init__(self, repo, rel, selector, k, name, params, security=False, impl_re=None, nth=None,
                 ret=None, generics=None):
        self.rel, self.selector = rel, selector
        src = load_src(repo, rel)
        it = find_fn(src, selector, security, impl_re, nth)
        if it.open_si is None:
            raise Undecided('unsupported-construct', 'fn %s has no body' % selector)
        fob, fcb = it.open_si, src.match[it.open_si]
        cls = closure_starts(src, fob + 1, fcb)
        if not (1 <= k <= len(cls)):
            raise Undecided('lost-anchor', 'R35: closure %d not found in %s (has %d)' % (k, selector, len(cls)))
        ci = cls[k - 1]
        if src.s(ci) == '||':
            pend = ci
            cpar = []
        else:
            j = ci + 1
            while src.s(j) != '|':
                if src.s(j) in rscan.OPEN: j = src.match[j]
                j += 1
            pend = j
            # split the closure's parameters at depth-0 commas: (pattern token range, has type)
            cpar = []
            q = ci + 1
            st = q
            colon = None
            while q <= pend:
                s_ = src.s(q)
                if q == pend or s_ == ',':
                    if st < q:
                        cpar.append((st, colon if colon is not None else q, colon is not None, q))
                    st = q + 1; colon = None
                    q += 1; continue
                if s_ in rscan.OPEN:
                    q = src.match[q] + 1; continue
                if s_ == '<':
                    q = src.skip_generics(q); continue
                if s_ == ':' and colon is None:
                    colon = q
                q += 1
        b0 = pend + 1
        if src.s(b0) == '->':
            b0 = rscan.find_block_open(src, b0)
            if b0 is None:
                raise Undecided('unsupported-construct', 'R35: closure %d of %s: cannot find its body' % (k, selector))
        if src.s(b0) == '{':
            b_end = src.match[b0] + 1
            block = True
        else:
            b_end = expr_end(src, b0, fcb)
            block = False
        a, b = src.t(b0).pos, src.t(b_end - 1).end
        # ---- names bound outside the closure (superset of what is in scope): fn parameters, every
        # let / for binding before the closure
        fn_si = next(q for q in range(it.start_si, it.open_si) if src.s(q) == 'fn')
        po = fn_si + 2
        if src.s(po) == '<':
            po = src.skip_generics(po)
        if src.s(po) != '(':
            raise Undecided('unsupported-construct', 'R35: cannot find the parameter list of %s' % selector)
        pc = src.match[po]

        def split_params(ps, lo, hi):
            out_, cur_ = [], []
            q = lo
            while q < hi:
                s_ = ps.s(q)
                if s_ == '#' and ps.s(q + 1) == '[':
                    q = ps.match[q + 1] + 1; continue
                if s_ in rscan.OPEN:
                    cur_.extend(ps.s(x) for x in range(q, ps.match[q] + 1)); q = ps.match[q] + 1; continue
                if s_ == '<':       # generic arguments of a type: their commas do not separate parameters
                    e_ = ps.skip_generics(q)
                    cur_.extend(ps.s(x) for x in range(q, e_)); q = e_; continue
                if s_ == ',':
                    out_.append(cur_); cur_ = []
                else:
                    cur_.append(s_)
                q += 1
            if cur_: out_.append(cur_)
            return out_

        def plain(p_):      # without `mut` and lifetimes
            return [x for x in p_ if x != 'mut' and not x.startswith("'")]

        def pname_of(p_):
            p2 = [x for x in plain(p_) if x != '&']
            return p2[0] if p2 else None

        outer = {}
        for p_ in split_params(src, po + 1, pc):
            nm = pname_of(p_)
            if nm is None: continue
            if nm == 'self':
                outer['self'] = (plain(p_), False)
            else:
                colon = p_.index(':') if ':' in p_ else None
                if colon is None or [x for x in p_[:colon] if x != 'mut'] != [nm]:
                    raise Undecided('unsupported-construct', 'R35: pattern parameter in %s' % selector)
                outer[nm] = (plain(p_), 'mut' in p_[:colon])
        q = fob + 1
        while q < ci:
            if src.s(q) == 'let' or (src.s(q) == 'for' and src.s(q + 1) != '<'):
                e = q + 1
                dd = 0
                colon = None
                while e < ci and not (dd == 0 and src.s(e) in ('=', ';', 'in')):
                    if src.s(e) in rscan.OPEN: dd += 1
                    elif src.s(e) in rscan.CLOSE: dd -= 1
                    elif dd == 0 and src.s(e) == ':' and colon is None: colon = e
                    e += 1
                pat_end = colon if colon is not None else e
                bs = _binders(src, q + 1, pat_end)
                is_mut = any(src.s(x) == 'mut' for x in range(q + 1, pat_end))
                for bn in bs:
                    decl = None
                    if colon is not None and len(bs) == 1 and [src.s(x) for x in range(q + 1, colon) if src.s(x) != 'mut'] == [bn]:
                        decl = plain([bn, ':'] + [src.s(x) for x in range(colon + 1, e)])
                    outer[bn] = (decl, is_mut)
                q = e
            q += 1
        # names bound by the closure itself (its parameters, lets / closure parameters / patterns inside its body)
        inner = set()
        for (p_lo, p_hi, _, _) in cpar:
            inner.update(_binders(src, p_lo, p_hi))
        q = b0
        while q < b_end:
            if src.s(q) == 'let':
                e = q + 1
                dd = 0
                while e < b_end and not (dd == 0 and src.s(e) in ('=', ';', ':')):
                    if src.s(e) in rscan.OPEN: dd += 1
                    elif src.s(e) in rscan.CLOSE: dd -= 1
                    e += 1
                inner.update(_binders(src, q + 1, e))
            q += 1
        for c2 in closure_starts(src, b0, b_end):
            if src.s(c2) == '|':
                e = c2 + 1
                while src.s(e) != '|':
                    if src.s(e) in rscan.OPEN: e = src.match[e]
                    e += 1
                inner.update(_binders(src, c2 + 1, e))
        used = []
        for q in range(b0, b_end):
            t = src.t(q)
            if t.kind != 'ident' or t.s not in outer or t.s in inner:
                continue
            if src.s(q - 1) in ('.', '::') or src.s(q + 1) == '::':
                continue
            if src.s(q + 1) == ':' and src.s(q - 1) in ('{', ','):
                continue
            if t.s not in used:
                used.append(t.s)
        psrc = Src(params)
        gen = []
        for p_ in split_params(psrc, 0, psrc.n()):
            nm = pname_of(p_)
            if nm is not None:
                gen.append((nm, p_))
        gnames = [g_[0] for g_ in gen]
        for nm in used:
            if nm not in gnames:
                raise Undecided('unsupported-construct', 'R35: closure %d of %s uses `%s`, bound outside it: must be a parameter of %s'
                                % (k, selector, nm, name))
        notes = []
        own = []        # generated parameters that stand for the closure's own parameters, in order
        for nm, p_ in gen:
            if nm in outer and nm not in inner:
                decl, is_mut = outer[nm]
                if is_mut:
                    raise Undecided('unsupported-construct', 'R35: `%s` is declared mut in %s (an effect of the closure on it would escape)' % (nm, selector))
                if decl is not None:
                    if plain(p_) != decl:
                        raise Undecided('unsupported-construct', 'R35: params= must repeat the declaration `%s` of %s' % (' '.join(decl), selector))
                else:
                    notes.append(' '.join(p_))
            else:
                own.append((nm, p_))
        prelude = ''
        fired_r5 = []
        oi = 0
        for (p_lo, p_hi, typed, p_stop) in cpar:
            ptoks = [src.s(x) for x in range(p_lo, p_hi)]
            ptoks_nm = [x for x in ptoks if x != 'mut']
            if len(ptoks_nm) == 1 and src.t(p_hi - 1).kind == 'ident':
                # plain parameter: same name
                if oi >= len(own) or own[oi][0] != ptoks_nm[0]:
                    raise Undecided('unsupported-construct', 'R35: params= must name the closure parameter `%s` (in order, after/among the outside names)' % ptoks_nm[0])
                if typed and plain(own[oi][1]) != plain([ptoks_nm[0], ':'] + [src.s(x) for x in range(p_hi + 1, p_stop)]):
                    raise Undecided('unsupported-construct', 'R35: params= must repeat the type of the closure parameter `%s`' % ptoks_nm[0])
                if not typed:
                    notes.append(' '.join(own[oi][1]))
                oi += 1
                continue
            bs = _binders(src, p_lo, p_hi)
            flat_tuple = (ptoks[0] == '(' and ptoks[-1] == ')' and
                          [x for x in ptoks[1:-1] if x != ','] == bs and len(bs) >= 1)
            if flat_tuple and [o_[0] for o_ in own[oi:oi + len(bs)]] == bs:
                for o_ in own[oi:oi + len(bs)]:
                    notes.append(' '.join(o_[1]))
                oi += len(bs)
                continue
            if oi >= len(own):
                raise Undecided('unsupported-construct', 'R35: params= has no parameter for the closure parameter `%s`' % ' '.join(ptoks))
            pn = own[oi][0]
            if any(src.t(x).kind == 'ident' and src.s(x) == pn for x in range(fob, fcb)):
                raise Undecided('unsupported-construct', 'R35: the name %s (for the closure parameter `%s`) occurs in %s' % (pn, ' '.join(ptoks), selector))
            pat_txt = src.text[src.t(p_lo).pos:src.t(p_hi - 1).end]
            pat2, pre = rw_ref_pattern(pat_txt, fired_r5, src.line_of(src.t(p_lo).pos))
            prelude += 'let %s = %s; %s' % (' '.join(pat2.split()), pn, pre)
            notes.append(' '.join(own[oi][1]))
            oi += 1
        if oi != len(own):
            raise Undecided('unsupported-construct', 'R35: parameter %s of %s is neither a name bound outside closure %d of %s nor one of its parameters'
                            % (own[oi][0], name, k, selector))
        if ret is None:
            raise Undecided('unsupported-construct', 'R35: ret= is required')
        hdr = 'fn %s%s(%s) -> %s ' % (name, ' '.join((generics or '').split()), ' '.join(params.split()), ' '.join(ret.split()))
        body_txt = src.text[a:b]
        if block and not prelude:
            self.orig = hdr + body_txt
        else:
            self.orig = hdr + '{ ' + prelude + body_txt + ' }'
        self.first_line = src.line_of(a)
        self.last_line = src.line_of(b)
        self.arm_first_line = src.line_of(src.t(ci).pos)
        self.sha = hashlib.sha256(src.text[src.t(ci).pos:b].encode()).hexdigest()
        self.fired = [('R35', self.arm_first_line, 'body of closure %d of %s cut into `%s`%s'
                       % (k, selector, hdr.strip(), ('; given by the unit, not checked against the source: ' + '; '.join(notes)) if notes else ''))] + \
                     [tuple(f) for f in fired_r5]
        self.attrs = it.attrs
        self.pnames = gnames
        owner = selector.rsplit('::', 1)[0] if '::' in selector else ''
        self.name = (owner.split(' for ')[-1].strip() + '::' if owner else '') + name


def rw_arm_call(text, arg, fired, ft, security):
    """R30 (added for unit `writer_push`; sub-directive
        @@arm_call "<arm pattern tokens>" <callee> params="<param list text>" [nondet=<fn>]
    of `@@extract fn`), the inverse of R11: in the function being extracted the block of the match arm
    with that pattern is replaced by a call of the function R11 cuts from exactly that arm,
        PAT => { self.<callee>(<the parameters other than self, in params= order>); }
    so that the loop / dispatch AROUND the arms can be put under contract using the arms' contracts.
    Guards (else UNDECIDED): every guard of R11 for this arm with these params, re-run on the file (the
    arm body is a block that uses nothing of the enclosing function but `self` and the bindings of the
    pattern, each binding is a parameter and vice versa) - under them executing the block IS calling
    the generated function with the bindings; `self` is a parameter; no `break` / `continue` / `?` /
    `await` / `yield` in the arm.  A `return` in the arm must be a plain `return;` of a function without
    return type and needs `nondet=<fn>`: the call is then followed by `if <fn>() { return; }` (<fn>: a
    stub returning an unconstrained bool).  That OVER-approximates the original: a run in which the arm
    executes `return;` is the run in which the generated function returns at that statement (same
    state) and <fn>() yields true; in every other run the arm ran to its end and <fn>() yields false.
    The additional runs (early return although the arm ran to its end) only make contracts harder to
    prove."""
    try:
        parts = shlex.split(arg)
    except ValueError:
        raise Undecided('lost-anchor', 'bad arm_call syntax %r' % arg)
    if len(parts) < 3 or any('=' not in p for p in parts[2:]):
        raise Undecided('unsupported-construct', 'arm_call needs: "<pattern>" <callee> params="..." [nondet=<fn>]')
    pattern, callee = parts[0], parts[1]
    kv = dict(p.split('=', 1) for p in parts[2:])
    if 'params' not in kv or not re.fullmatch(r'[A-Za-z_][A-Za-z0-9_]*', callee) \
            or not re.fullmatch(r'[A-Za-z_][A-Za-z0-9_]*', kv.get('nondet', 'x')):
        raise Undecided('unsupported-construct', 'arm_call needs: "<pattern>" <callee> params="..." [nondet=<fn>]')
    arm = ArmText(ft.repo, ft.rel, ft.selector, pattern, callee, kv['params'], security, ft.impl_re, ft.nth)   # the R11 guards
    if 'self' not in arm.pnames:
        raise Undecided('unsupported-construct', 'R30: params= of %s has no self' % callee)
    src = Src(text)
    fn_si = next(i for i in range(src.n()) if src.s(i) == 'fn')
    fob = rscan.find_block_open(src, fn_si)
    fcb = src.match[fob]
    ptoks = norm_tokens(pattern)
    if ptoks and ptoks[-1] == '=>':
        ptoks = ptoks[:-1]
    needle = ' '.join(ptoks + ['=>'])
    hit = find_token_seq(src, fob + 1, fcb, needle, 1)
    if hit is None or find_token_seq(src, fob + 1, fcb, needle, 2) is not None:
        raise Undecided('lost-anchor', 'R30: arm %r not found / not unique in %s' % (pattern, ft.name))
    ob = hit[1] + 1
    if src.s(ob) != '{' or src.s(hit[0] - 1) not in ('{', ',', '}'):
        raise Undecided('unsupported-construct', 'R30: arm %r of %s: body is not a block' % (pattern, ft.name))
    cb = src.match[ob]
    has_return = False
    # R11c: a `continue` at arm level of the match that ends the loop body is "this arm is finished" —
    # `return` in the generated function, after whose call the dispatch falls out of the arm: the same
    r11c = arm_level_tail_continues(src, fob, fcb, hit[0], ob, cb, 'arm %r of %s' % (pattern, ft.name))
    for q in range(ob + 1, cb):
        s = src.s(q)
        if q in r11c:
            continue
        if s in ('break', 'continue', '?', 'await', 'yield'):
            raise Undecided('unsupported-construct', 'R30: `%s` inside arm %r of %s' % (s, pattern, ft.name))
        if s == 'return':
            if src.s(q + 1) != ';':
                raise Undecided('unsupported-construct', 'R30: `return <value>` inside arm %r of %s' % (pattern, ft.name))
            has_return = True
    if has_return:
        p_open = fn_si + 2
        if src.s(p_open) == '<':
            p_open = src.skip_generics(p_open)
        if src.s(p_open) != '(' or src.s(src.match[p_open] + 1) == '->' or 'nondet' not in kv:
            raise Undecided('unsupported-construct', 'R30: arm %r of %s has a `return;`: needs nondet=<fn> and a function without return type'
                            % (pattern, ft.name))
    args = ', '.join(n for n in arm.pnames if n != 'self')
    call = '{ self.%s(%s); %s}' % (callee, args, ('if %s() { return; } ' % kv['nondet']) if has_return else '')
    a, b = src.t(ob).pos, src.t(cb).end
    fired.append(('R30', src.line_of(src.t(hit[0]).pos), 'match arm `%s` -> call of the function R11 cuts from it: `self.%s(%s)`%s'
                  % (' '.join(ptoks), callee, args, ' + nondeterministic `return;`' if has_return else '')))
    return text[:a] + call + keep_newlines(text[a:b]) + text[b:]


def loops_in(src, lo, hi):
    """(kw_si, label_si or None, open_si, close_si, kind) for each loop keyword in [lo,hi), source order"""
    out = []
    for i in range(lo, hi):
        t = src.t(i)
        if t.kind == 'ident' and t.s in ('for', 'while', 'loop'):
            if t.s == 'for' and src.s(i + 1) == '<':
                continue  # HRTB
            ob = rscan.find_block_open(src, i + 1, stop=(';',))
            if ob is None:
                continue
            lab = None
            if i >= 2 and src.s(i - 1) == ':' and src.t(i - 2).kind == 'lifetime':
                lab = i - 2
            out.append((i, lab, ob, src.match[ob], t.s))
    return out


def tail_expr_start(src, ob, cb):
    """sig index where the tail expression of block (ob,cb) starts, or None if the block ends
    with a statement"""
    # find last depth-0 ';'
    j = ob + 1
    last_semi = ob
    while j < cb:
        s = src.s(j)
        if s in rscan.OPEN:
            j = src.match[j] + 1; continue
        if s == ';':
            last_semi = j
        j += 1
    j = last_semi + 1
    if j >= cb:
        return None
    # skip block-like statements
    while j < cb:
        s = src.s(j)
        lab = src.t(j).kind == 'lifetime' and src.s(j + 1) == ':'
        k = j + 2 if lab else j
        s = src.s(k)
        if s in ('if', 'match', 'loop', 'while', 'for', 'unsafe') or s == '{':
            b = rscan.find_block_open(src, k, stop=(';',)) if s != '{' else k
            if b is None: return j
            e = src.match[b]
            while src.s(e + 1) == 'else':
                b2 = rscan.find_block_open(src, e + 2, stop=(';',))
                e = src.match[b2]
            nxt = src.s(e + 1)
            if e + 1 >= cb:
                return j      # block-like expression is itself the tail
            if nxt in ('.', '?', 'as') or (src.t(e + 1).kind == 'punct' and nxt in ('+', '-', '*', '/', '==', '!=', '<', '>', '<=', '>=', '&&', '||')):
                return j
            j = e + 1
            continue
        if s == 'let':
            return None
        return j
    return None


def norm_tokens(s):
    return [t.s for t in rscan.tokenize(s) if t.kind not in ('ws', 'comment')]


def find_token_seq(src, lo, hi, needle, nth=1):
    toks = norm_tokens(needle)
    if not toks:
        raise Undecided('lost-anchor', 'empty anchor')
    cnt = 0
    for i in range(lo, hi - len(toks) + 1):
        if all(src.s(i + k) == toks[k] for k in range(len(toks))):
            cnt += 1
            if cnt == nth:
                return i, i + len(toks) - 1
    return None


def closure_edits(src, text, d, ob, cb, ft):
    """R6/R19 for one @@closure directive: returns (sig index of the closure start, [(a, b, new)])"""
    cls = closure_starts(src, ob + 1, cb)
    k = int(d.arg.split()[0])
    if not (1 <= k <= len(cls)):
        raise Undecided('lost-anchor', 'closure %d not found in %s (has %d)' % (k, ft.name, len(cls)))
    ci = cls[k - 1]
    if src.s(ci) == '||':
        pend = ci
        orig_params = []
    else:
        j = ci + 1
        while src.s(j) != '|':
            if src.s(j) in rscan.OPEN: j = src.match[j]
            j += 1
        pend = j
        orig_params = [src.s(x) for x in range(ci + 1, pend) if src.t(x).kind == 'ident' and src.s(x) not in ('mut', 'ref')]
    newhdr = d.payload.strip()
    # annotation-only check: every identifier bound by the original parameter patterns
    # must also occur in the replacement header
    new_ids = set(t.s for t in rscan.tokenize(newhdr) if t.kind == 'ident')
    for p in orig_params:
        if p[0].islower() or p[0] == '_':
            if p not in new_ids and p != '_':
                raise Undecided('lost-anchor', 'closure %d of %s: parameter %s not in annotation' % (k, ft.name, p))
    body_si = pend + 1
    a = src.t(ci).pos
    b = src.t(pend).end
    if src.s(body_si) == '->':
        raise Undecided('unsupported-construct', 'closure already has return type')
    if src.s(body_si) == '{':
        return ci, k, [(a, b, newhdr.replace('\n', ' ') + keep_newlines(text[a:b]))]
    e = expr_end(src, body_si, cb)
    return ci, k, [(a, b, newhdr.replace('\n', ' ') + ' {' + keep_newlines(text[a:b])),
                   (src.t(e - 1).end, src.t(e - 1).end, ' }')]


def rw_mut_self(text, fired, fname):
    """R20 (added for unit `fragments`, directive `@@mut_self`): a by-value `mut self` receiver
    (unsupported by Verus) becomes `self`; the body starts with `let mut self_m = self;` and every
    `self` token of the body is renamed `self_m` — the meaning of a `mut` binding of a by-value
    parameter.  In contracts `self` is the value passed in."""
    src = Src(text)
    fn_si = next(i for i in range(src.n()) if src.s(i) == 'fn')
    p_open = fn_si + 2
    if src.s(p_open) == '<':
        p_open = src.skip_generics(p_open)
    if not (src.s(p_open) == '(' and src.s(p_open + 1) == 'mut' and src.s(p_open + 2) == 'self'
            and src.s(p_open + 3) in (',', ')')):
        if src.s(p_open) == '(' and src.s(p_open + 1) == 'self' and src.s(p_open + 2) in (',', ')'):
            # a plain by-value `self` receiver needs no rewrite (the `mut` was dropped by a change):
            # the function is judged on its text
            fired.append(('note', 0, 'mut_self: receiver is already a plain `self`, nothing to rewrite'))
            return text
        raise Undecided('lost-anchor', 'mut_self: %s has no `mut self` receiver' % fname)
    ob = rscan.find_block_open(src, fn_si)
    cb = src.match[ob]
    ed = Edits(text)
    a, b = src.t(p_open + 1).pos, src.t(p_open + 2).pos
    ed.replace(a, b, keep_newlines(text[a:b]))
    ed.insert(src.t(ob).end, ' let mut self_m = self;')
    for i in range(ob + 1, cb):
        if src.t(i).kind == 'ident' and src.s(i) == 'self':
            if src.s(i - 1) in ('&', 'mut') and src.s(i + 1) in (',', ')') and src.s(i - 2) in ('(', '&'):
                raise Undecided('unsupported-construct', 'mut_self: nested fn with a self receiver in %s' % fname)
            ed.replace(src.t(i).pos, src.t(i).end, 'self_m')
    fired.append(('R20', src.line_of(a), 'mut self -> self + let mut self_m = self; self -> self_m in body'))
    return ed.apply()


def rw_param_pat(text, pname, fired, fname):
    """R27 (added for unit `sec_attrs`, directive `@@param_pat <name>`): the ONE parameter of the
    function that is written as a destructuring pattern (`fn from(S { a, b }: S) -> ..`, which Verus
    rejects: "function parameters must be a plain identifier pattern") becomes the plain parameter
    `<name>: S`, and the body starts with `let S { a, b } = <name>;` (PAT verbatim) — the meaning of a
    pattern parameter.  UNDECIDED unless exactly one parameter is a pattern and <name> does not occur
    in the function.  In contracts the parameter is called <name>."""
    src = Src(text)
    fn_si = next(i for i in range(src.n()) if src.s(i) == 'fn')
    p_open = fn_si + 2
    if src.s(p_open) == '<':
        p_open = src.skip_generics(p_open)
    if src.s(p_open) != '(':
        raise Undecided('unsupported-construct', 'param_pat: cannot find parameter list of %s' % fname)
    p_close = src.match[p_open]
    ob = rscan.find_block_open(src, fn_si)
    if any(src.t(i).kind == 'ident' and src.s(i) == pname for i in range(src.n())):
        raise Undecided('unsupported-construct', 'param_pat: name %s already occurs in %s' % (pname, fname))
    # split the parameter list at depth-0 commas; the pattern of a parameter ends at its depth-0 ':'
    hits = []
    j = p_open + 1
    start = j
    colon = None
    while j <= p_close:
        s = src.s(j)
        if j == p_close or s == ',':
            if colon is not None and start < colon:
                pat = [src.s(x) for x in range(start, colon)]
                plain = (len(pat) == 1 and src.t(start).kind == 'ident') or (len(pat) == 2 and pat[0] == 'mut')
                if not plain:
                    hits.append((start, colon))
            start = j + 1
            colon = None
            j += 1
            continue
        if s in rscan.OPEN:
            j = src.match[j] + 1; continue
        if s == '<':
            j = src.skip_generics(j); continue
        if s == ':' and colon is None:
            colon = j
        j += 1
    if len(hits) != 1:
        raise Undecided('lost-anchor', 'param_pat: %s has %d pattern parameters (need exactly 1)' % (fname, len(hits)))
    a, b = src.t(hits[0][0]).pos, src.t(hits[0][1] - 1).end
    pat_txt = text[a:b]
    ed = Edits(text)
    ed.replace(a, b, pname + keep_newlines(pat_txt))
    ed.insert(src.t(ob).end, ' let %s = %s;' % (' '.join(pat_txt.split()), pname))
    fired.append(('R27', src.line_of(a), 'pattern parameter `%s` -> %s + let at body start' % (' '.join(pat_txt.split()), pname)))
    return ed.apply()


SIG_DIRECTIVES = ('ret', 'nopub', 'requires', 'ensures', 'subst', 'drop_where', 'rename', 'mut_self', 'param_pat')


def degrade_function(ft, directives, security=False):
    """Graceful degradation (DESIGN 11.2): the body of ONE function that cannot be brought through
    extraction or the Verus front end is dropped (newlines kept); its signature and contract stay
    in the unit as an ASSUMED contract (`external_body`), so that every other function of the unit
    is still checked against it.  The function itself is reported UNDECIDED by `check` — never as
    discharged, never as a violation."""
    import copy
    src = Src(ft.orig)
    fn_si = next(i for i in range(src.n()) if src.s(i) == 'fn')
    ob = rscan.find_block_open(src, fn_si)
    cb = src.match[ob]
    a, b = src.t(ob).end, src.t(cb).pos
    ft2 = copy.copy(ft)
    ft2.fired = []
    ft2.orig = ft.orig[:a] + ' unimplemented!() ' + keep_newlines(ft.orig[a:b]) + ft.orig[b:]
    ds2 = [d for d in directives if d.kind in SIG_DIRECTIVES]
    lines = splice_function(ft2, ds2, security)
    ft.fired = ft2.fired + [('degraded', ft.first_line, 'body dropped, contract kept as assumed (external_body)')]
    tx0, o0 = lines[0]
    lines[0] = ('#[verifier::external_body] ' + tx0, o0)
    return lines


def splice_function(ft, directives, security=False):
    """returns list of (text_line, origin) for the function with contracts spliced"""
    fired = ft.fired
    text = ft.orig
    if any(d.kind == 'inline_helpers' for d in directives):
        text = rw_inline_helpers(text, ft, security, fired)   # R32 (unit permissions); before R7/R1/R16 so that they apply to the inlined text too
    text = rw_cfg_statements(text, security, fired)
    text = rw_log_macros(text, fired)
    text = rw_format(text, fired)
    text = rw_assert_eq(text, fired)
    # token substitutions (R8) — ident-for-text
    subst = {}
    for d in directives:
        if d.kind == 'subst':
            # `@@subst A :=> Text` (additive form, for keys that contain '=') or `@@subst A=Text`
            k, v = d.arg.split(' :=> ', 1) if ' :=> ' in d.arg else d.arg.split('=', 1)
            subst[k.strip()] = v.strip()
    for key, val in subst.items():
        src = Src(text)
        ed = Edits(text)
        kt = norm_tokens(key)
        si = 0
        while si < src.n():
            if all(src.s(si + j) == kt[j] for j in range(len(kt))):
                a, b = src.t(si).pos, src.t(si + len(kt) - 1).end
                ed.replace(a, b, val + keep_newlines(text[a:b]))
                fired.append(('R8', src.line_of(a), '%s -> %s' % (key, val)))
                si += len(kt)
                continue
            si += 1
        text = ed.apply()
    for d in directives:
        if d.kind == 'match_map':
            text = rw_match_map(text, int(d.arg.split()[0]) if d.arg.strip() else 1, fired, ft.name)
    for d in directives:
        if d.kind == 'iflet_map':
            text = rw_iflet_map(text, int(d.arg.split()[0]) if d.arg.strip() else 1, fired, ft.name)
    for d in directives:
        if d.kind == 'entry_chain':
            text = rw_entry_chain(text, int(d.arg.split()[0]) if d.arg.strip() else 1, fired, ft.name)
    for d in directives:
        if d.kind == 'for_each':
            text = rw_for_each(text, int(d.arg.split()[0]) if d.arg.strip() else 1, fired, ft.name)
    for d in directives:
        if d.kind == 'fold_loop':
            text = rw_fold_loop(text, int(d.arg.split()[0]) if d.arg.strip() else 1, fired, ft.name)   # R29 (unit qos_plcdr)
    for d in directives:
        if d.kind == 'sum_loop':
            text = rw_sum_loop(text, int(d.arg.split()[0]) if d.arg.strip() else 1, fired, ft.name)   # R33 (unit data_body)
    for d in directives:
        if d.kind == 'fold_assign':
            text = rw_fold_assign(text, int(d.arg.split()[0]) if d.arg.strip() else 1, fired, ft.name)   # R31 (unit permissions)
    if any(d.kind == 'boxed_chain' for d in directives):
        text = rw_boxed_chain(text, fired, ft.name)      # R36
    for d in directives:
        if d.kind == 'chain_loop':
            # R25: `@@chain_loop k <CollectionType> <insert|push>`
            ca = d.arg.split()
            if len(ca) != 3 or ca[2] not in ('insert', 'push'):
                raise Undecided('unsupported-construct', 'chain_loop needs: k <CollectionType> <insert|push>')
            text = rw_chain_loop(text, int(ca[0]), ca[1], ca[2], fired, ft.name)
    for d in directives:
        if d.kind == 'filter_map_loop':
            # R26: `@@filter_map_loop k`
            text = rw_filter_map_loop(text, int(d.arg.split()[0]) if d.arg.strip() else 1, fired, ft.name,
                                      d.arg.split(None, 1)[1].strip() if len(d.arg.split(None, 1)) > 1 else '')
    for d in directives:
        if d.kind == 'arm_call':
            text = rw_arm_call(text, d.arg, fired, ft, security)   # R30 (unit writer_push)
    if any(d.kind == 'mut_self' for d in directives):
        text = rw_mut_self(text, fired, ft.name)
    for d in directives:
        if d.kind == 'param_pat':
            text = rw_param_pat(text, d.arg.strip(), fired, ft.name)   # R27 (unit sec_attrs)
    if text.count('\n') != ft.orig.count('\n'):
        raise Undecided('unsupported-construct', 'internal: rewrite changed line count')

    src = Src(text)
    ed = Edits(text)
    ins = {}   # pos -> list of (order, text, origin)

    def add(pos, txt, origin, order=0):
        ins.setdefault(pos, []).append((order, txt, origin))

    # ---- signature
    fn_si = next(i for i in range(src.n()) if src.s(i) == 'fn')
    ob = rscan.find_block_open(src, fn_si)
    cb = src.match[ob]
    # visibility R10
    opts = {d.kind for d in directives}
    vis_end = fn_si
    for k in range(fn_si):
        if src.s(k) in ('const', 'unsafe', 'async'):
            vis_end = k; break
    head_txt = text[:src.t(vis_end).pos]
    if 'nopub' in opts:
        ed.replace(0, src.t(vis_end).pos, keep_newlines(head_txt))
    else:
        ed.replace(0, src.t(vis_end).pos, 'pub ' + keep_newlines(head_txt))
        if head_txt.strip() != 'pub':
            fired.append(('R10', 1, 'visibility %r -> pub' % head_txt.strip()))
    # rename
    for d in directives:
        if d.kind == 'rename':
            nt = src.t(fn_si + 1)
            ed.replace(nt.pos, nt.end, d.arg.strip())
    # params end
    p_open = fn_si + 2
    if src.s(p_open) == '<':
        p_open = src.skip_generics(p_open)
    if src.s(p_open) != '(':
        raise Undecided('unsupported-construct', 'cannot find parameter list of %s' % ft.name)
    p_close = src.match[p_open]
    ret = [d for d in directives if d.kind == 'ret']
    where_si = None
    for k in range(p_close + 1, ob):
        if src.s(k) == 'where':
            where_si = k; break
    for d in directives:
        if d.kind == 'param_type':
            # R13 for parameters: not allowed — parameters are already typed
            raise Undecided('unsupported-construct', 'param_type not supported')
    if ret:
        rname = ret[0].arg.strip()
        if src.s(p_close + 1) == '->':
            a = src.t(p_close + 2).pos
            endtok = (where_si if where_si is not None else ob) - 1
            b = src.t(endtok).end
            rt = text[a:b]
            ed.replace(a, b, '(%s: %s)' % (rname, rt.replace('\n', ' ')) + keep_newlines(rt))
        # no '->': unit; nothing to name
    if any(d.kind == 'drop_where' for d in directives) and where_si is not None:
        a = src.t(where_si).pos
        b = src.t(ob).pos
        ed.replace(a, b, keep_newlines(text[a:b]))
        fired.append(('R8', src.line_of(a), 'where clause dropped'))
    # header clauses
    hdr = []
    for kind in ('requires', 'ensures', 'decreases', 'opens_invariants', 'no_unwind'):
        ds = [d for d in directives if d.kind == kind]
        if not ds: continue
        if kind in ('no_unwind',):
            hdr.append(('    no_unwind', {'o': 'clause', 'label': 'aux.%s.no_unwind' % ft.name}))
            continue
        hdr.append(('    ' + kind, {'o': 'clause-kw'}))
        for d in ds:
            lab = d.arg.strip() or ('aux.%s.%s' % (ft.name, kind))
            body = d.payload.rstrip()
            if not body.rstrip().endswith(','):
                body = body + ','
            for ln in body.split('\n'):
                hdr.append((ln, {'o': 'clause', 'label': lab, 'ckind': kind}))
    if hdr:
        add(src.t(ob).pos, hdr, 'hdr')

    # ---- loops
    lps = loops_in(src, ob + 1, cb)

    def loop_k(d):
        try:
            k = int(d.arg.split()[0])
        except Exception:
            raise Undecided('lost-anchor', 'bad loop ordinal in %s' % d.kind)
        if not (1 <= k <= len(lps)):
            raise Undecided('lost-anchor', '%s: loop %d not found in %s (has %d)' % (d.kind, k, ft.name, len(lps)))
        return k, lps[k - 1]

    desugared = {}
    closures_in_header = set()
    for d in directives:
        if d.kind in ('desugar_for', 'desugar_for_opt'):
            if d.kind == 'desugar_for_opt':
                # `@@desugar_for_opt k ..` (unit `matching`): as `@@desugar_for`, but skipped when the function has no
                # k-th loop any more (or it is no `for`) - use together with `@@loop_opt` / `@@after_opt`, so that a
                # refactoring which REMOVES the loop is judged on its text against the contract instead of degrading
                try:
                    k0 = int(d.arg.split()[0])
                except Exception:
                    raise Undecided('lost-anchor', 'bad loop ordinal in %s' % d.kind)
                if not (1 <= k0 <= len(lps)) or lps[k0 - 1][4] != 'for':
                    continue
            k, (kw, lab, lob, lcb, kind) = loop_k(d)
            if kind != 'for':
                raise Undecided('lost-anchor', 'loop %d of %s is not a for loop' % (k, ft.name))
            # for PAT in EXPR {   -> let mut it_k = EXPR; <before> loop <clauses> { match it_k.next() { None => { break; } Some(PAT) => {
            in_si = None
            j = kw + 1
            while j < lob:
                if src.s(j) in rscan.OPEN:
                    j = src.match[j] + 1; continue
                if src.s(j) == 'in':
                    in_si = j; break
                j += 1
            if in_si is None:
                raise Undecided('unsupported-construct', 'for without in')
            pat = text[src.t(kw + 1).pos:src.t(in_si - 1).end]
            expr_a = src.t(in_si + 1).pos
            expr = text[expr_a:src.t(lob - 1).end]
            # a @@closure that sits inside the for-header expression (e.g. `.filter(|s| ..)`) is
            # annotated in the copied expression text (the header is replaced wholesale below)
            for d2 in directives:
                if d2.kind == 'closure' and 'pat' not in d2.arg.split()[1:]:   # (`@@closure k pat` = R19, handled below)
                    if 'opt' in d2.arg.split()[1:] and int(d2.arg.split()[0]) > len(closure_starts(src, ob + 1, cb)):
                        continue   # `@@closure k opt`: annotation of a closure that is not there (see below)
                    ci2, k2, eds2 = closure_edits(src, text, d2, ob, cb, ft)
                    if in_si < ci2 < lob:
                        for (ea, eb, enew) in sorted(eds2, reverse=True):
                            expr = expr[:ea - expr_a] + enew + expr[eb - expr_a:]
                        closures_in_header.add(id(d2))
                        fired.append(('R6', src.line_of(src.t(ci2).pos), 'closure %d annotated' % k2))
            pat2, pre = rw_ref_pattern(pat, fired, src.line_of(src.t(kw).pos))
            start = src.t(lab).pos if lab is not None else src.t(kw).pos
            labtxt = text[src.t(lab).pos:src.t(kw).pos] if lab is not None else ''
            whole = text[start:src.t(lob).end]
            itn = 'it_%d' % k
            into = d.arg.split()[1] if len(d.arg.split()) > 1 else ''
            call = '' if into == 'noiter' else ''
            if into == 'into_iter':
                # (unit `matching`) `@@desugar_for k into_iter`: EXPR is not itself an iterator
                # (e.g. a Vec) -> spell out the language's `IntoIterator::into_iter(EXPR)`
                expr = '(' + expr + ')'
                call = '.into_iter()'
            if into == 'values_mut':
                # R22 (unit `fanout`): `for PAT in PLACE.values_mut() { BODY }` ->
                #   let vk_k = PLACE.vx_keys(); let mut vi_k = 0;
                #   while vi_k < vk_k.len() { let PAT = PLACE.get_mut(&vk_k[vi_k]).unwrap(); BODY; vi_k = vi_k + 1; }
                # values_mut() visits every entry exactly once and the key set cannot change while
                # the map is borrowed; vx_keys() (shim) returns each key exactly once, in no
                # particular order.  Guards: PLACE is a field path, BODY has no `continue`.
                # (unit writer_push) `for PAT in &mut PLACE.values_mut()`: `&mut I` is an Iterator that
                # forwards `next()` to I (core: `impl<I: Iterator + ?Sized> Iterator for &mut I`), so the
                # loop visits exactly the same items; the borrow of the temporary is dropped first
                ex = re.sub(r'\s+', '', re.sub(r'^\s*&\s*mut\s+', '', expr))
                if not ex.endswith('.values_mut()'):
                    raise Undecided('lost-anchor', 'loop %d of %s does not iterate over .values_mut()' % (k, ft.name))
                place = ex[:-len('.values_mut()')]
                if not re.fullmatch(r'[A-Za-z_][A-Za-z0-9_]*(\.[A-Za-z_][A-Za-z0-9_]*)*', place):
                    raise Undecided('unsupported-construct', 'values_mut() on a non-place expression in %s' % ft.name)
                if any(src.s(x) == 'continue' for x in range(lob, lcb)):
                    raise Undecided('unsupported-construct', '`continue` inside a values_mut loop in %s' % ft.name)
                new1 = 'let vk_%d = %s.vx_keys(); let mut vi_%d: usize = 0; ' % (k, place, k)
                new2 = 'while vi_%d < vk_%d.len() ' % (k, k)
                new3 = '{ '
                new4 = 'let %s = %s.get_mut(&vk_%d[vi_%d]).unwrap(); ' % (pat.replace('\n', ' '), place, k, k)
                desugared[k] = (start, src.t(lob).end, new1, new2, new3, keep_newlines(whole), new4)
                ed.replace(src.t(lcb).pos, src.t(lcb).end, '; vi_%d = vi_%d + 1; }' % (k, k))
                fired.append(('R22', src.line_of(start), 'for over values_mut() -> keys snapshot + get_mut (vk_%d, vi_%d)' % (k, k)))
                continue
            if into == 'iter_mut_filter':
                # R23 (unit `acknack`, sibling of R22):
                #   `for (KP, VP) in PLACE.iter_mut().filter(|(FK, FV)| FBODY) { BODY }`  ->
                #   let vk_k = PLACE.vx_keys(); let mut vi_k: usize = 0;
                #   while vi_k < vk_k.len() { <loop_body_start text>
                #     let vx_k_k = &vk_k[vi_k]; let vx_v_k = PLACE.get_mut(vx_k_k).unwrap();
                #     if ({ let (FK, FV) = (&vx_k_k, &vx_v_k); FBODY }) { let (KP, VP) = (vx_k_k, vx_v_k); BODY }
                #     ; vi_k = vi_k + 1; }
                # iter_mut() visits every entry exactly once (the key set cannot change while the map
                # is borrowed); Iterator::filter hands the predicate `&Item` = `&(&K, &mut V)` — the
                # tuple pattern (FK, FV) then binds `&&K` / `&&mut V` (default binding modes), which is
                # what `(&vx_k_k, &vx_v_k)` provides — and skips the items the predicate rejects
                # (`if !FILTER { continue }`, written as `if FILTER { BODY }`).  vx_keys() (shim) returns
                # each key exactly once, in no particular order.  Guards: PLACE is a field path / local,
                # both patterns are parenthesised 2-tuples, BODY has no `continue`.
                # `@@loop_body_end k` text lands at the end of BODY (inside the `if`).
                j = in_si + 1
                pl = []
                while j < lob and (src.t(j).kind == 'ident' or src.s(j) == '.') and not (src.s(j) == '.' and src.s(j + 1) == 'iter_mut'):
                    pl.append(src.s(j)); j += 1
                place = ''.join(pl)
                if not re.fullmatch(r'[A-Za-z_][A-Za-z0-9_]*(\.[A-Za-z_][A-Za-z0-9_]*)*', place):
                    raise Undecided('unsupported-construct', 'iter_mut() on a non-place expression in %s' % ft.name)
                want = ['.', 'iter_mut', '(', ')', '.', 'filter', '(', '|', '(']
                if [src.s(j + x) for x in range(len(want))] != want:
                    raise Undecided('lost-anchor', 'loop %d of %s does not iterate over PLACE.iter_mut().filter(|(..)| ..)' % (k, ft.name))
                f_open = j + 6                      # '(' of filter(
                f_close = src.match[f_open]
                if f_close != lob - 1:
                    raise Undecided('unsupported-construct', 'iter_mut().filter(..) followed by further adapters in %s' % ft.name)
                fp_open = j + 8                     # '(' of the closure's tuple pattern
                fp_close = src.match[fp_open]
                if src.s(fp_close + 1) != '|':
                    raise Undecided('unsupported-construct', 'filter closure of loop %d in %s: parameter is not one tuple pattern' % (k, ft.name))
                fpat = text[src.t(fp_open).pos:src.t(fp_close).end]
                fbody = text[src.t(fp_close + 2).pos:src.t(f_close - 1).end]
                if not (pat.strip().startswith('(') and pat.strip().endswith(')')):
                    raise Undecided('unsupported-construct', 'loop %d of %s: pattern is not a tuple pattern' % (k, ft.name))
                if any(src.s(x) == 'continue' for x in range(lob, lcb)):
                    raise Undecided('unsupported-construct', '`continue` inside an iter_mut().filter() loop in %s' % ft.name)
                new1 = 'let vk_%d = %s.vx_keys(); let mut vi_%d: usize = 0; ' % (k, place, k)
                new2 = 'while vi_%d < vk_%d.len() ' % (k, k)
                new3 = '{ '
                new4 = ('let vx_k_%d = &vk_%d[vi_%d]; let vx_v_%d = %s.get_mut(vx_k_%d).unwrap(); '
                        'if ({ let %s = (&vx_k_%d, &vx_v_%d); %s }) { let %s = (vx_k_%d, vx_v_%d); '
                        % (k, k, k, k, place, k, fpat.replace('\n', ' '), k, k, fbody.replace('\n', ' '), pat.replace('\n', ' '), k, k))
                desugared[k] = (start, src.t(lob).end, new1, new2, new3, keep_newlines(whole), new4)
                ed.replace(src.t(lcb).pos, src.t(lcb).end, '} ; vi_%d = vi_%d + 1; }' % (k, k))
                fired.append(('R23', src.line_of(start), 'for over iter_mut().filter(..) -> keys snapshot + get_mut + if FILTER (vk_%d, vi_%d)' % (k, k)))
                continue
            new1 = 'let mut %s = %s%s; ' % (itn, expr.replace('\n', ' '), call)
            new2 = '%sloop ' % labtxt
            new3 = '{ match %s.next() { None => { break; } Some(%s) => { %s' % (itn, pat2.replace('\n', ' '), pre)
            desugared[k] = (start, src.t(lob).end, new1, new2, new3, keep_newlines(whole))
            ed.replace(src.t(lcb).pos, src.t(lcb).end, '} } }')
            fired.append(('R3', src.line_of(start), 'for -> loop/next (it_%d)' % k))

    # `@@name_for k <name>` (added for unit `repair_decision`; annotation only): names Verus' ghost
    # iterator of the k-th loop, a native `for`:  `for PAT in EXPR` -> `for PAT in <name>: EXPR`
    for d in directives:
        if d.kind == 'name_for':
            k, (kw, lab, lob, lcb, kind) = loop_k(d)
            if kind != 'for' or len(d.arg.split()) < 2:
                raise Undecided('lost-anchor', 'name_for: loop %d of %s is not a for loop / no name given' % (k, ft.name))
            j = kw + 1
            in_si = None
            while j < lob:
                if src.s(j) in rscan.OPEN:
                    j = src.match[j] + 1; continue
                if src.s(j) == 'in':
                    in_si = j; break
                j += 1
            if in_si is None:
                raise Undecided('unsupported-construct', 'for without in')
            ed.insert(src.t(in_si + 1).pos, d.arg.split()[1] + ': ')
            fired.append(('note', src.line_of(src.t(kw).pos), 'ghost iterator of for-loop %d named %s' % (k, d.arg.split()[1])))

    per_loop = {}
    loop_labels = {}
    for d in directives:
        if d.kind in ('loop', 'before_loop', 'after_loop', 'loop_body_start', 'loop_body_end'):
            k, lp = loop_k(d)
            per_loop.setdefault(k, {}).setdefault(d.kind, []).append(d)
        elif d.kind in ('loop_opt', 'before_loop_opt', 'after_loop_opt', 'loop_body_start_opt', 'loop_body_end_opt'):
            # (added for unit `datareader_api`) `@@loop_opt k` etc.: as `@@loop k` .., but skipped (not
            # UNDECIDED) when the function has fewer than k loops — like the *_opt hint anchors and
            # `@@closure k opt`: the clauses concerned a loop that is not there; the function's
            # contract is unaffected and is then checked on the loop-free text
            try:
                k_o = int(d.arg.split()[0])
            except Exception:
                raise Undecided('lost-anchor', 'bad loop ordinal in %s' % d.kind)
            if not (1 <= k_o <= len(lps)):
                fired.append(('note', 0, 'optional loop annotation %d: loop absent, skipped' % k_o))
                continue
            per_loop.setdefault(k_o, {}).setdefault(d.kind[:-4], []).append(d)
    for k in set(list(per_loop.keys()) + list(desugared.keys())):
        kw, lab, lob, lcb, kind = lps[k - 1]
        dd = per_loop.get(k, {})
        start = src.t(lab).pos if lab is not None else src.t(kw).pos

        def lines_of(ds, origin_label, ckind=None):
            out = []
            for d in ds:
                for ln in d.payload.rstrip().split('\n'):
                    o = {'o': 'clause', 'label': origin_label}
                    if ckind: o['ckind'] = ckind
                    out.append((ln, o))
            return out
        auxl = 'aux.%s.loop%d' % (ft.name, k)
        # `@@loop k <label>` (additive): <label> names the loop's termination obligation; it is put
        # on the origin of the loop-head source line as 'loop_label' and used by verus.interpret
        # for `decreases not satisfied` diagnostics only (their span is the loop keyword)
        for d in dd.get('loop', []):
            if len(d.arg.split()) > 1:
                loop_labels[ft.first_line + src.line_of(src.t(kw).pos) - 1] = d.arg.split()[1]
        before = lines_of(dd.get('before_loop', []), auxl)
        clauses = lines_of(dd.get('loop', []), auxl, 'loop')
        bstart = lines_of(dd.get('loop_body_start', []), auxl)
        bend = lines_of(dd.get('loop_body_end', []), auxl)
        after = lines_of(dd.get('after_loop', []), auxl)
        if k in desugared:
            a, b, new1, new2, new3, nl = desugared[k][:6]
            seq = [(new1, {'o': 'src'})] + before + [(new2, {'o': 'src'})] + clauses + [(new3 + nl.replace('\n', ''), {'o': 'src'})] + bstart
            if len(desugared[k]) > 6:
                # R22: the `let PAT = PLACE.get_mut(..).unwrap();` comes AFTER the loop_body_start
                # text (ghost snapshots must be taken before the mutable borrow starts)
                seq = seq + [(desugared[k][6], {'o': 'src'})]
            ed.replace(a, b, '')
            add(a, seq + [('', {'o': 'nl', 'n': nl.count('\n')})], 'loop')
        else:
            if before:
                add(start, before, 'before')
            if clauses:
                add(src.t(lob).pos, clauses, 'loopclauses')
            if bstart:
                add(src.t(lob).end, bstart, 'bstart')
        if bend:
            add(src.t(lcb).pos, bend, 'bend', order=-1)
        if after:
            add(src.t(lcb).end, after, 'after', order=1)

    # ---- body anchors
    for d in directives:
        if d.kind == 'body_start':
            add(src.t(ob).end, [(ln, {'o': 'clause', 'label': 'aux.%s.proof' % ft.name}) for ln in d.payload.rstrip().split('\n')], 'bs')
        elif d.kind == 'body_end':
            add(src.t(cb).pos, [(ln, {'o': 'clause', 'label': 'aux.%s.proof' % ft.name}) for ln in d.payload.rstrip().split('\n')], 'be', order=-2)
        elif d.kind == 'before_tail':
            ts = tail_expr_start(src, ob, cb)
            if ts is None:
                raise Undecided('lost-anchor', 'no tail expression in %s' % ft.name)
            add(src.t(ts).pos, [(ln, {'o': 'clause', 'label': 'aux.%s.proof' % ft.name}) for ln in d.payload.rstrip().split('\n')], 'bt')
        elif d.kind == 'name_tail':
            # R21: `{ stmts; TAIL }` -> `{ stmts; let v = TAIL; <proof text> v }`
            ts = tail_expr_start(src, ob, cb)
            if ts is None:
                raise Undecided('lost-anchor', 'no tail expression in %s' % ft.name)
            v = d.arg.strip() or 'tail_v'
            ed.insert(src.t(ts).pos, 'let %s = ' % v)
            add(src.t(cb).pos, [(';', {'o': 'src'})] + [(ln, {'o': 'clause', 'label': 'aux.%s.proof' % ft.name}) for ln in d.payload.rstrip().split('\n')] + [(v, {'o': 'src'})], 'nt', order=-2)
            fired.append(('R21', src.line_of(src.t(ts).pos), 'tail expression bound to `%s`' % v))
        elif d.kind in ('after', 'before', 'after_stmt', 'before_stmt', 'after_opt', 'before_opt', 'after_stmt_opt', 'before_stmt_opt'):
            # token-sequence anchors.  *_stmt: the payload goes after/before the whole enclosing
            # statement.  *_opt: if the tokens are absent the hint is skipped (it concerned code that
            # is not there); the obligations themselves are unaffected.
            optional = d.kind.endswith('_opt')
            kind = d.kind[:-4] if optional else d.kind
            try:
                parts = shlex.split(d.arg)
            except ValueError as e:
                raise Undecided('lost-anchor', 'bad anchor syntax %r' % d.arg)
            needle = parts[0]
            nth = int(parts[1]) if len(parts) > 1 else 1
            hit = find_token_seq(src, ob + 1, cb, needle, nth)
            if hit is None:
                if optional:
                    fired.append(('note', 0, 'optional hint anchor %r absent: hint skipped' % needle))
                    continue
                raise Undecided('lost-anchor', 'anchor %r #%d not found in %s' % (needle, nth, ft.name))
            lines = [(ln, {'o': 'clause', 'label': 'aux.%s.proof' % ft.name}) for ln in d.payload.rstrip().split('\n')]
            if kind == 'after':
                add(src.t(hit[1]).end, lines, 'aft', order=2)
            elif kind == 'before':
                add(src.t(hit[0]).pos, lines, 'bef', order=-3)
            elif kind == 'after_stmt':
                j = hit[1]
                # forward to the ';' that ends the enclosing statement (same bracket depth as hit start)
                k = hit[0]
                while k < cb:
                    sk = src.s(k)
                    if sk in rscan.OPEN:
                        k = src.match[k] + 1
                        continue
                    if sk == ';':
                        break
                    if sk in rscan.CLOSE:
                        k -= 1
                        break
                    k += 1
                add(src.t(k).end, lines, 'afts', order=2)
            else:
                k = hit[0] - 1
                while k > ob:
                    sk = src.s(k)
                    if sk in rscan.CLOSE:
                        if sk == '}':
                            break
                        k = src.match[k] - 1
                        continue
                    if sk in (';', '{'):
                        break
                    k -= 1
                add(src.t(k + 1).pos, lines, 'befs', order=-3)
        elif d.kind == 'before_arm':
            # R24 (added for unit `reader_glue`): `@@before_arm "<tokens>" [n]` — the tokens start the
            # body expression of a match arm (`PAT => EXPR,`); the arm body becomes the block
            # `PAT => { <payload> EXPR },` so that a proof assertion about the values handed to
            # EXPR can be stated.  Guard: the token before the anchor is `=>` (else lost-anchor).
            try:
                parts = shlex.split(d.arg)
            except ValueError as e:
                raise Undecided('lost-anchor', 'bad anchor syntax %r' % d.arg)
            needle = parts[0]
            nth = int(parts[1]) if len(parts) > 1 else 1
            hit = find_token_seq(src, ob + 1, cb, needle, nth)
            if hit is None or src.s(hit[0] - 1) != '=>':
                raise Undecided('lost-anchor', 'arm-body anchor %r #%d not found after `=>` in %s' % (needle, nth, ft.name))
            k = hit[0]
            while k < cb:
                sk = src.s(k)
                if sk in rscan.OPEN:
                    k = src.match[k] + 1
                    continue
                if sk == ',' or sk in rscan.CLOSE:
                    break
                k += 1
            lines = [('{', {'o': 'src'})] + [(ln, {'o': 'clause', 'label': 'aux.%s.proof' % ft.name}) for ln in d.payload.rstrip().split('\n')]
            add(src.t(hit[0]).pos, lines, 'barm', order=-3)
            ed.insert(src.t(k - 1).end, ' }')
            fired.append(('R24', src.line_of(src.t(hit[0]).pos), 'match-arm body wrapped in a block for a proof annotation'))
        elif d.kind == 'type_local':
            # R13  `x: T`
            nm, ty = d.arg.split(':', 1)
            nm = nm.strip()
            found = False
            for i in range(ob + 1, cb):
                if src.s(i) == 'let':
                    j = i + 1
                    if src.s(j) == 'mut': j += 1
                    if src.s(j) == nm and src.s(j + 1) == '=':
                        ed.insert(src.t(j).end, ': ' + ty.strip())
                        fired.append(('R13', src.line_of(src.t(j).pos), 'let %s: %s' % (nm, ty.strip())))
                        found = True
                        break
            if not found:
                raise Undecided('lost-anchor', 'local %s not found in %s' % (nm, ft.name))
        elif d.kind == 'closure' and id(d) in closures_in_header:
            pass
        elif d.kind == 'closure':
            cls = closure_starts(src, ob + 1, cb)
            k = int(d.arg.split()[0])
            if k > len(cls) and 'opt' in d.arg.split()[1:]:
                # `@@closure k opt` (added for unit `repair_decision`): the annotation concerns a closure
                # that is not there (the code around it was removed) — it is skipped, like the *_opt
                # hint anchors; the obligations themselves are unaffected
                fired.append(('note', 0, 'optional closure annotation %d: closure absent, skipped' % k))
                continue
            if not (1 <= k <= len(cls)):
                raise Undecided('lost-anchor', 'closure %d not found in %s (has %d)' % (k, ft.name, len(cls)))
            ci = cls[k - 1]
            for w_ in d.arg.split()[1:]:
                if w_.startswith('label='):
                    # `@@closure k [pat] label=<label>` (added for unit `sec_attrs`): the annotation (its
                    # `ensures`) is an obligation of its own; a diagnostic whose span lies on the source
                    # line of the closure header is reported under <label> (cf. loop_label)
                    loop_labels[ft.first_line + src.line_of(src.t(ci).pos) - 1] = ('closure', w_[len('label='):])
            if src.s(ci) == '||':
                pend = ci
                orig_params = []
            else:
                j = ci + 1
                while src.s(j) != '|':
                    if src.s(j) in rscan.OPEN: j = src.match[j]
                    j += 1
                pend = j
                orig_params = [src.s(x) for x in range(ci + 1, pend) if src.t(x).kind == 'ident' and src.s(x) not in ('mut', 'ref')]
            newhdr = d.payload.strip()
            if len(d.arg.split()) > 1 and d.arg.split()[1] == 'pat':
                # R19 (added for unit `matching`): `@@closure k pat` — the closure has ONE pattern
                # parameter: `|PAT| BODY` -> `<header naming one typed parameter p> { let PAT = p; BODY }`
                # (PAT verbatim, R5 applied to its `&x` sub-patterns)
                if src.s(ci) == '||' or src.s(pend + 1) == '->':
                    raise Undecided('unsupported-construct', 'closure %d of %s: not a pattern-parameter closure' % (k, ft.name))
                mm = re.match(r'\|\s*(\w+)\s*:', newhdr)
                if not mm:
                    raise Undecided('unsupported-construct', 'closure %d of %s: header must start with |name: T|' % (k, ft.name))
                pat_txt = text[src.t(ci + 1).pos:src.t(pend - 1).end]
                pat2, pre = rw_ref_pattern(pat_txt, fired, src.line_of(src.t(ci).pos))
                a, b = src.t(ci).pos, src.t(pend).end
                e = expr_end(src, pend + 1, cb)
                ed.replace(a, b, '%s { let %s = %s; %s' % (newhdr.replace('\n', ' '), pat2.replace('\n', ' '), mm.group(1), pre)
                           + keep_newlines(text[a:b]))
                ed.insert(src.t(e - 1).end, ' }')
                fired.append(('R19', src.line_of(a), 'closure %d: pattern parameter -> let' % k))
                continue
            # annotation-only check: every identifier bound by the original parameter patterns
            # must also occur in the replacement header
            new_ids = set(t.s for t in rscan.tokenize(newhdr) if t.kind == 'ident')
            # the original may already carry types; only binder names (lowercase start) are compared
            for p in orig_params:
                if p[0].islower() or p[0] == '_':
                    if p not in new_ids and p != '_':
                        raise Undecided('lost-anchor', 'closure %d of %s: parameter %s not in annotation' % (k, ft.name, p))
            body_si = pend + 1
            a = src.t(ci).pos
            b = src.t(pend).end
            if src.s(body_si) == '->':
                raise Undecided('unsupported-construct', 'closure already has return type')
            if src.s(body_si) == '{':
                ed.replace(a, b, newhdr.replace('\n', ' ') + keep_newlines(text[a:b]))
            else:
                e = expr_end(src, body_si, cb)
                ed.replace(a, b, newhdr.replace('\n', ' ') + ' {' + keep_newlines(text[a:b]))
                ed.insert(src.t(e - 1).end, ' }')
            fired.append(('R6', src.line_of(a), 'closure %d annotated' % k))
        elif d.kind == 'line_label':
            # `@@line_label "<code tokens>" <label> [n]` (added for unit `cache_window`; cf. `@@closure k label=`):
            # annotation only — a diagnostic whose span covers the source line where the n-th occurrence of
            # the token sequence starts (e.g. the failed precondition of a shim call: `.range(`) is reported
            # under <label> instead of aux.<fn>.pre@..
            parts = shlex.split(d.arg)
            if len(parts) < 2:
                raise Undecided('unsupported-construct', 'line_label needs "<code tokens>" <label> [n]')
            hit = find_token_seq(src, ob + 1, cb, parts[0], int(parts[2]) if len(parts) > 2 else 1)
            if hit is None:
                raise Undecided('lost-anchor', 'line_label %r not found in %s' % (parts[0], ft.name))
            loop_labels[ft.first_line + src.line_of(src.t(hit[0]).pos) - 1] = ('closure', parts[1])
        elif d.kind == 'refpat':
            # R5 on `let`/match-arm patterns:   refpat "<pattern tokens>" -> "<new pattern>" ; "<prelude>"
            parts = shlex.split(d.arg)
            needle, newpat, prelude = parts[0], parts[1], parts[2] if len(parts) > 2 else ''
            hit = find_token_seq(src, ob + 1, cb, needle, 1)
            if hit is None:
                raise Undecided('lost-anchor', 'refpat %r not found in %s' % (needle, ft.name))
            chk, _ = rw_ref_pattern(needle, [], 0)
            if norm_tokens(chk) != norm_tokens(newpat):
                raise Undecided('unsupported-construct', 'refpat: %r is not the R5 image of %r' % (newpat, needle))
            a, b = src.t(hit[0]).pos, src.t(hit[1]).end
            ed.replace(a, b, newpat + keep_newlines(text[a:b]))
            fired.append(('R5', src.line_of(a), '%s -> %s' % (needle, newpat)))

    # ---- assemble with origin map
    base = ed  # edits that keep line structure
    # We need to interleave `ins` with edits: turn inserts into sentinel markers first
    markers = {}
    for n, (pos, lst) in enumerate(sorted(ins.items())):
        mk = '\x00%d\x00' % n
        markers[mk] = [x for _, chunk, _ in sorted(lst, key=lambda e: e[0]) for x in chunk] \
            if False else _flatten(lst)
        base.insert(pos, mk)
    # sentinel inserts may share a position with a replace → Edits.apply handles equal starts in
    # reverse order; keep deterministic by sorting (pos, end)
    out_text = base.apply()
    lines = []
    cur_line = ft.first_line
    for raw in out_text.split('\n'):
        parts = re.split(r'(\x00\d+\x00)', raw)
        emitted_src = False
        for p in parts:
            if p in markers:
                for ln, o in markers[p]:
                    if o.get('o') == 'nl':
                        cur_line += o['n']
                        continue
                    o2 = dict(o)
                    o2.setdefault('fn', ft.name)
                    ml = re.search(r'//\s*\[([\w.\-]+)\]\s*$', ln)
                    if ml and o2.get('o') == 'clause':
                        o2['label'] = ml.group(1)
                    if o2.get('o') == 'src':
                        o2.update(file=ft.rel, line=cur_line)
                        if isinstance(loop_labels.get(cur_line), tuple):
                            o2['label'] = loop_labels[cur_line][1]      # `@@closure k label=..`
                        elif cur_line in loop_labels:
                            o2['loop_label'] = loop_labels[cur_line]
                    lines.append((ln, o2))
            elif p != '':
                o3 = {'o': 'src', 'file': ft.rel, 'line': cur_line, 'fn': ft.name}
                if isinstance(loop_labels.get(cur_line), tuple):
                    o3['label'] = loop_labels[cur_line][1]              # `@@closure k label=..`
                elif cur_line in loop_labels:
                    o3['loop_label'] = loop_labels[cur_line]
                lines.append((p, o3))
        cur_line += 1
    if any(INLINED_BAR in tx for tx, _ in lines):
        lines = [(tx.replace(INLINED_BAR, '|'), o) for tx, o in lines]   # R32: closure bars of inlined helper text
    return lines


def _flatten(lst):
    out = []
    for _, chunk, _ in sorted(lst, key=lambda e: e[0]):
        out.extend(chunk)
    return out


def rw_ref_pattern(pat, fired, line):
    """R5: `&x` -> `x_r` with prelude `let x = *x_r;`  (only `&ident` sub-patterns)"""
    toks = [t for t in rscan.tokenize(pat)]
    out, pre = [], []
    i = 0
    sig = [t for t in toks if t.kind not in ('ws', 'comment')]
    res = []
    k = 0
    while k < len(sig):
        t = sig[k]
        if t.s == '&' and k + 1 < len(sig) and sig[k + 1].kind == 'ident' and sig[k + 1].s not in ('mut',):
            nm = sig[k + 1].s
            if nm == '_':
                res.append('_')
            else:
                res.append(nm + '_r')
                pre.append('let %s = *%s_r; ' % (nm, nm))
                if fired is not None:
                    fired.append(('R5', line, '&%s -> %s_r' % (nm, nm)))
            k += 2
            continue
        res.append(t.s)
        k += 1
    # re-join with minimal spacing
    s = ''
    for r in res:
        if s and (s[-1].isalnum() or s[-1] == '_') and (r[0].isalnum() or r[0] == '_'):
            s += ' '
        s += r
        if r == ',':
            s += ' '
    return s, ''.join(pre)


# ------------------------------------------------------------------------------------------
# types
# ------------------------------------------------------------------------------------------

def extract_type(repo, rel, kind, name, opts, security, rec):
    src = load_src(repo, rel)
    it = find_type(src, kind, name, security, int(opts['nth']) if opts.get('nth') not in (None, True, '') else None)
    a = src.t(it.start_si).pos
    b = src.t(it.end_si).end
    orig = src.text[a:b]
    first_line = src.line_of(a)
    sha = hashlib.sha256(orig.encode()).hexdigest()
    fired = []
    # guard G-drop (DESIGN 11.2): `impl Drop for T` is code that runs IMPLICITLY wherever a T is discarded or
    # overwritten - the extracted function text does not show it.  A unit may only extract such a type when it
    # says `drop=ack` (the unit handles T behind references only, or models the drop); otherwise UNDECIDED, so
    # that a NEW Drop impl on a verified type (seed C20g) is never silently ignored.
    if opts.get('drop') != 'ack':
        for oit in rscan.top_items(src):
            if oit.kind == 'impl' and cfg_ok(oit.attrs, security):
                tr, sty = rscan.impl_self_type(oit.header)
                if tr is not None and re.sub(r'<.*', '', tr).strip().split('::')[-1] == 'Drop' and sty == name:
                    raise Undecided('unsupported-construct', '%s has an `impl Drop` in %s (line %d): drop glue runs implicitly and is not '
                                    'part of the extracted text (add drop=ack to the @@extract line only if the unit never discards a %s)'
                                    % (name, rel, src.line_of(src.t(oit.start_si).pos), name))
    text = rw_cfg_statements(orig, security, fired)
    s2 = Src(text)
    ed = Edits(text)
    # visibility of the item
    kw = next(i for i in range(s2.n()) if s2.s(i) == kind)
    ed.replace(0, s2.t(kw).pos, 'pub ' + keep_newlines(text[:s2.t(kw).pos]))
    keep = opts.get('keep')
    keep = set(keep.split(',')) if keep else None
    opaque = {}
    for o in (opts.get('opaque') or '').split(';'):
        if o.strip():
            f, ty = o.split(':', 1)
            opaque[f.strip()] = ty.strip()
    ob = rscan.find_block_open(s2, kw + 1)
    if opts.get('drop_where') and ob is not None:
        # R8 on a generic type: drop the where clause (bounds name traits outside the unit)
        for k in range(kw + 1, ob):
            if s2.s(k) == 'where':
                wa, wb = s2.t(k).pos, s2.t(ob).pos
                ed.replace(wa, wb, keep_newlines(text[wa:wb]))
                fired.append(('R8', s2.line_of(wa) + first_line - 1, 'where clause dropped'))
                break
    if kind == 'struct' and ob is not None:
        cb = s2.match[ob]
        # fields: split at depth-0 commas
        j = ob + 1
        fstart = j
        fields = []
        while j < cb:
            s = s2.s(j)
            if s in rscan.OPEN:
                j = s2.match[j] + 1; continue
            if s == '<':
                j = s2.skip_generics(j); continue
            if s == ',':
                fields.append((fstart, j)); fstart = j + 1
            j += 1
        if fstart < cb:
            fields.append((fstart, cb - 1))
        seen = set()
        for (fa, fb) in fields:
            # skip attributes
            k = fa
            while s2.s(k) == '#':
                k = s2.match[k + 1] + 1
            fa_attr_end = k
            # visibility
            v0 = k
            if s2.s(k) == 'pub':
                k += 1
                if s2.s(k) == '(':
                    k = s2.match[k] + 1
            fname = s2.s(k)
            seen.add(fname)
            colon = k + 1
            a0 = s2.t(fa).pos
            b0 = s2.t(fb).end if s2.s(fb) == ',' else s2.t(fb).end
            if keep is not None and fname not in keep:
                ed.replace(a0, b0, keep_newlines(text[a0:b0]))
                fired.append(('R9', s2.line_of(a0) + first_line - 1, 'field %s dropped' % fname))
                continue
            # strip attrs + widen visibility
            ed.replace(a0, s2.t(k).pos, 'pub ' + keep_newlines(text[a0:s2.t(k).pos]))
            if fname in opaque:
                ta = s2.t(colon + 1).pos
                tb = s2.t(fb - 1).end if s2.s(fb) == ',' else s2.t(fb).end
                ed.replace(ta, tb, opaque[fname] + keep_newlines(text[ta:tb]))
                fired.append(('R9', s2.line_of(ta) + first_line - 1, 'field %s: type -> %s' % (fname, opaque[fname])))
        if keep is not None:
            miss = keep - seen
            if miss:
                raise Undecided('lost-anchor', 'struct %s: fields %s not found' % (name, sorted(miss)))
    elif kind == 'struct':
        # tuple struct: make fields pub
        p = kw + 2
        if s2.s(p) == '<':
            p = s2.skip_generics(p)
        if s2.s(p) == '(':
            pc = s2.match[p]
            j = p + 1
            start = True
            while j < pc:
                s = s2.s(j)
                if start:
                    k = j
                    while s2.s(k) == '#':
                        k = s2.match[k + 1] + 1
                    if s2.s(k) == 'pub':
                        k2 = k + 1
                        if s2.s(k2) == '(':
                            k2 = s2.match[k2] + 1
                        ed.replace(s2.t(j).pos, s2.t(k2).pos, 'pub ')
                    else:
                        ed.replace(s2.t(j).pos, s2.t(k).pos, 'pub ')
                    start = False
                    j = k
                    continue
                if s in rscan.OPEN:
                    j = s2.match[j] + 1; continue
                if s == '<':
                    j = s2.skip_generics(j); continue
                if s == ',':
                    start = True
                j += 1
    # strip attributes inside enum variants (serde etc.)
    if kind == 'enum' and ob is not None:
        cb = s2.match[ob]
        j = ob + 1
        while j < cb:
            if s2.s(j) == '#' and s2.s(j + 1) == '[':
                e = s2.match[j + 1]
                a0, b0 = s2.t(j).pos, s2.t(e).end
                ed.replace(a0, b0, keep_newlines(text[a0:b0]))
                j = e + 1; continue
            j += 1
    body = ed.apply()
    # doc comments are attributes: one left dangling after a dropped field (R9) is a syntax error
    # -> turn `///` lines into plain comments (added for unit `fragments`; no semantic content)
    body = re.sub(r'(?m)^(\s*)///', r'\1// ', body)
    derive = opts.get('derive')
    lines = []
    if derive:
        lines.append(('#[derive(%s)]' % derive.replace(',', ', '), {'o': 'tmpl'}))
    if opts.get('repr') == 'keep':
        # `repr=keep` (added for unit `sec_attrs`): the item's own `#[repr(..)]` attribute is semantic
        # (it fixes the integer type of explicit discriminants, `E::V as u32`) and is copied verbatim
        # instead of being dropped with the other attributes (R2)
        reprs = [a_ for a_ in it.attrs if re.sub(r'\s+', '', a_).startswith('#[repr(')]
        if len(reprs) != 1:
            raise Undecided('lost-anchor', '%s %s: %d #[repr] attributes (repr=keep)' % (kind, name, len(reprs)))
        lines.append((' '.join(reprs[0].split()), {'o': 'tmpl'}))
    ln = first_line
    for raw in body.split('\n'):
        lines.append((raw, {'o': 'src', 'file': rel, 'line': ln, 'fn': kind + ' ' + name}))
        ln += 1
    derives = [a for a in it.attrs if a.replace(' ', '').startswith('#[derive(')]
    fired.append(('R2', first_line, 'attributes dropped: %s' % '; '.join(it.attrs)))
    rec.append({'item': '%s %s' % (kind, name), 'file': rel, 'lines': [first_line, src.line_of(b)],
                'sha256': sha, 'rewrites': [list(f) for f in fired]})
    return lines


def extract_const(repo, rel, selector, security, rec):
    """`@@extract const <file> <NAME | Type::NAME>` (added for unit `fragments`): copies a `const`
    item (top-level, or associated const of an inherent impl) verbatim; only the visibility is
    widened to `pub` (R10)."""
    src = load_src(repo, rel)
    if '::' in selector:
        ty, name = selector.rsplit('::', 1)
    else:
        ty, name = None, selector
    cands = []
    for it in rscan.top_items(src):
        if ty is None:
            if it.kind == 'const' and it.name == name and cfg_ok(it.attrs, security):
                cands.append(it)
        elif it.kind == 'impl' and it.open_si is not None:
            tr, sty = rscan.impl_self_type(it.header)
            if sty != ty or tr is not None or not cfg_ok(it.attrs, security):
                continue
            for sub in rscan.items_in(src, it.open_si + 1, it.end_si):
                if sub.kind == 'const' and sub.name == name and cfg_ok(sub.attrs, security):
                    cands.append(sub)
    if len(cands) != 1:
        raise Undecided('lost-anchor', 'const %s: %d candidates' % (selector, len(cands)))
    it = cands[0]
    end = it.end_si
    if src.s(end) != ';':
        if src.s(end + 1) != ';':
            raise Undecided('unsupported-construct', 'const %s: cannot find terminating ;' % selector)
        end += 1
    kw = next(i for i in range(it.start_si, end) if src.s(i) == 'const')
    a, k, b = src.t(it.start_si).pos, src.t(kw).pos, src.t(end).end
    orig = src.text[a:b]
    first_line = src.line_of(a)
    fired = []
    head = src.text[a:k]
    if head.strip() != 'pub':
        fired.append(('R10', first_line, 'visibility %r -> pub' % head.strip()))
    body = 'pub ' + keep_newlines(head) + src.text[k:b]
    lines = []
    ln = first_line
    for raw in body.split('\n'):
        lines.append((raw, {'o': 'src', 'file': rel, 'line': ln, 'fn': 'const ' + selector}))
        ln += 1
    rec.append({'item': 'const %s' % selector, 'file': rel, 'lines': [first_line, src.line_of(b)],
                'sha256': hashlib.sha256(orig.encode()).hexdigest(), 'rewrites': [list(f) for f in fired]})
    return lines


def extract_const_str(repo, rel, selector, security, rec):
    """R28 (added for unit `permissions`): `@@extract const_str <file> <mod>::<NAME>` copies the string
    constant `const NAME: &str = "<literal>";` of the inline module `mod <mod> { .. }` verbatim, except
    that (a) the visibility is widened to `pub` (R10) and (b) the elided lifetime of the reference in
    the const's type is spelled out, `&str` -> `&'static str`.  (b) is the language rule (the elided
    lifetime in the type of a `const` item is `'static`); Verus needs it written because it turns a
    const into a function.  Guards (else UNDECIDED): exactly one inline module of that name holds exactly
    one const of that name, its type is literally `&str`, its initialiser is one string literal."""
    src = load_src(repo, rel)
    if '::' not in selector:
        raise Undecided('unsupported-construct', 'const_str needs <mod>::<NAME>')
    modname, name = selector.rsplit('::', 1)
    cands = []
    for it in rscan.top_items(src):
        if it.kind == 'mod' and it.name == modname and it.open_si is not None and cfg_ok(it.attrs, security):
            for sub in rscan.items_in(src, it.open_si + 1, it.end_si):
                if sub.kind == 'const' and sub.name == name and cfg_ok(sub.attrs, security):
                    cands.append(sub)
    if len(cands) != 1:
        raise Undecided('lost-anchor', 'const_str %s: %d candidates' % (selector, len(cands)))
    it = cands[0]
    kw = next(i for i in range(it.start_si, it.end_si + 1) if src.s(i) == 'const')
    want = [name, ':', '&', 'str', '=']
    if [src.s(kw + 1 + x) for x in range(len(want))] != want or src.t(kw + 6).kind != 'str' or src.s(kw + 7) != ';':
        raise Undecided('unsupported-construct', 'const_str %s: not of the form `const NAME: &str = "literal";`' % selector)
    a, b = src.t(it.start_si).pos, src.t(kw + 7).end
    orig = src.text[a:b]
    first_line = src.line_of(a)
    head = src.text[a:src.t(kw).pos]
    amp = src.t(kw + 3)
    body = ('pub ' + keep_newlines(head) + src.text[src.t(kw).pos:amp.end] + "'static " + src.text[amp.end:b].lstrip(' '))
    lines = []
    ln = first_line
    for raw in body.split('\n'):
        lines.append((raw, {'o': 'src', 'file': rel, 'line': ln, 'fn': 'const ' + selector}))
        ln += 1
    rec.append({'item': 'const %s' % selector, 'file': rel, 'lines': [first_line, src.line_of(b)],
                'sha256': hashlib.sha256(orig.encode()).hexdigest(),
                'rewrites': [['R10', first_line, 'visibility %r -> pub' % head.strip()],
                             ['R28', first_line, "const NAME: &str -> const NAME: &'static str (elided lifetime of a const's type spelled out)"]]})
    return lines


def extract_const_exec(repo, rel, selector, opts, security, rec):
    """`@@extract const_exec <file> <Type::NAME | NAME> [ensures="<clauses>"]` (added for unit
    `matching`, self-contained): copies a `const` item whose initialiser Verus only accepts in
    exec mode (e.g. `[0x00; 3]`) as
        `pub exec const NAME: T ensures <clauses> { EXPR }`
    — NAME, T and EXPR are the verbatim source tokens; `= EXPR;` becomes the block form because
    Verus has no other syntax for a const with a postcondition."""
    src = load_src(repo, rel)
    ty, name = selector.rsplit('::', 1) if '::' in selector else (None, selector)
    cands = []
    for it in rscan.top_items(src):
        if ty is None:
            if it.kind == 'const' and it.name == name and cfg_ok(it.attrs, security):
                cands.append(it)
        elif it.kind == 'impl' and it.open_si is not None:
            tr, sty = rscan.impl_self_type(it.header)
            if sty != ty or tr is not None or not cfg_ok(it.attrs, security):
                continue
            for sub in rscan.items_in(src, it.open_si + 1, it.end_si):
                if sub.kind == 'const' and sub.name == name and cfg_ok(sub.attrs, security):
                    cands.append(sub)
    if len(cands) != 1:
        raise Undecided('lost-anchor', 'const %s: %d candidates' % (selector, len(cands)))
    it = cands[0]
    end = it.end_si
    if src.s(end) != ';':
        if src.s(end + 1) != ';':
            raise Undecided('unsupported-construct', 'const %s: cannot find terminating ;' % selector)
        end += 1
    kw = next(i for i in range(it.start_si, end) if src.s(i) == 'const')
    eq = None
    j = kw + 1
    while j < end:
        s = src.s(j)
        if s in rscan.OPEN:
            j = src.match[j] + 1; continue
        if s == '<':
            j = src.skip_generics(j); continue
        if s == '=':
            eq = j; break
        j += 1
    if eq is None:
        raise Undecided('unsupported-construct', 'const %s: no initialiser' % selector)
    a, b = src.t(it.start_si).pos, src.t(end).end
    orig = src.text[a:b]
    first_line = src.line_of(a)
    head = src.text[a:src.t(kw).pos]
    ens = (opts.get('ensures') or '').strip()
    body = ('pub exec ' + keep_newlines(head) + src.text[src.t(kw).pos:src.t(eq).pos]
            + ((' ensures ' + ens + ' ') if ens else ' ') + '{'
            + src.text[src.t(eq).end:src.t(end).pos] + '}')
    lines = []
    ln = first_line
    for raw in body.split('\n'):
        lines.append((raw, {'o': 'src', 'file': rel, 'line': ln, 'fn': 'const ' + selector}))
        ln += 1
    rec.append({'item': 'const %s' % selector, 'file': rel, 'lines': [first_line, src.line_of(b)],
                'sha256': hashlib.sha256(orig.encode()).hexdigest(),
                'rewrites': [['R10', first_line, 'visibility %r -> pub' % head.strip()],
                             ['R20', first_line, 'const NAME: T = E; -> exec const NAME: T ensures .. { E }']]})
    return lines


# ------------------------------------------------------------------------------------------
# unit templates
# ------------------------------------------------------------------------------------------

class Directive:
    def __init__(self, kind, arg, line):
        self.kind, self.arg, self.line = kind, arg, line
        self.payload = ''


def parse_kv(s):
    out = {}
    pos = []
    for part in shlex.split(s):
        if '=' in part and re.match(r'^\w+=', part):
            k, v = part.split('=', 1)
            out[k] = v
        else:
            pos.append(part)
    return pos, out


def build_unit(verif_root, repo, unit, security=None, force_degrade=None):
    """returns dict(path=..., map=[origin per line], record=[extraction records], labels={label: [lines]})"""
    tpath = os.path.join(verif_root, 'vx', 'units', unit + '.rs.tmpl')
    out_lines = []
    record = []
    unit_security = [bool(security)]
    keep_extra = {}
    extra_for = {}
    degraded = {}          # fn name -> reason (graceful degradation, see degrade_function)
    force_degrade = dict(force_degrade or {})

    def process(path, depth=0):
        if depth > 8:
            raise Undecided('unsupported-construct', 'include depth')
        try:
            raw = open(path, encoding='utf-8').read().split('\n')
        except OSError as e:
            raise Undecided('lost-anchor', 'template %s: %s' % (path, e))
        i = 0
        relpath = os.path.relpath(path, verif_root)
        while i < len(raw):
            ln = raw[i]
            st = ln.strip()
            if st.startswith('@@include '):
                inc = st.split(None, 1)[1].strip()
                process(os.path.join(verif_root, 'vx', inc), depth + 1)
                i += 1
                continue
            if st.startswith('@@security'):
                unit_security[0] = st.split()[1] in ('on', 'true', '1')
                i += 1
                continue
            if st.startswith('@@keep_extra '):
                # (added for unit `acknack`) `@@keep_extra <Struct> keep=f1,f2 [opaque=f:T;g:U]`: a later
                # `@@extract struct .. <Struct> keep=..` (e.g. inside a shared part) keeps these fields
                # too — R9 unchanged, only the unit-specific choice of kept fields is widened
                pos_k, kv_k = parse_kv(st[len('@@keep_extra '):])
                keep_extra[pos_k[0]] = kv_k
                i += 1
                continue
            if st.startswith('@@extra_for '):
                # (added for unit `acknack`) `@@extra_for <Selector>` .. sub-directives .. `@@end`: the
                # sub-directives (additional @@ensures / proof hints) are appended to those of a later
                # `@@extract fn <file> <Selector>` — e.g. one inside a shared part, whose own contract
                # stays as it is; the extra clauses are proved on the real text in THIS unit only
                sel_x = st[len('@@extra_for '):].strip()
                i += 1
                cur_x = None
                while i < len(raw) and raw[i].strip() != '@@end':
                    s2x = raw[i].strip()
                    if s2x.startswith('@@'):
                        mx = re.match(r'@@(\w+)\s*(.*)$', s2x)
                        cur_x = Directive(mx.group(1), mx.group(2), i + 1)
                        extra_for.setdefault(sel_x, []).append(cur_x)
                    elif cur_x is not None:
                        cur_x.payload += raw[i] + '\n'
                    i += 1
                i += 1
                continue
            if st.startswith('@@extract '):
                pos, kv = parse_kv(st[len('@@extract '):])
                kind = pos[0]
                if kind in ('fn', 'arm', 'stmt', 'closure'):
                    rel, sel = pos[1], pos[2]
                    if kind == 'fn' and len(pos) > 3:
                        sel = ' '.join(pos[2:])
                    # collect sub-directives until @@end
                    ds = []
                    i += 1
                    cur = None
                    while i < len(raw) and raw[i].strip() != '@@end':
                        s2 = raw[i].strip()
                        if s2.startswith('@@'):
                            m = re.match(r'@@(\w+)\s*(.*)$', s2)
                            cur = Directive(m.group(1), m.group(2), i + 1)
                            ds.append(cur)
                        elif cur is not None:
                            cur.payload += raw[i] + '\n'
                        elif s2:
                            raise Undecided('unsupported-construct', '%s:%d text outside directive' % (relpath, i + 1))
                        i += 1
                    if i >= len(raw):
                        raise Undecided('unsupported-construct', '%s: @@extract fn without @@end' % relpath)
                    i += 1
                    sec = unit_security[0] if 'cfg' not in kv else (kv['cfg'] == 'security')
                    if kind in ('stmt', 'closure'):
                        # R34 (unit access_sites): @@extract stmt <file> <Type::fn> "<leading tokens>" as=<name> params="<param list>" [ret= cont=]
                        # R35 (unit cache_window): @@extract closure <file> <Type::fn> <k> as=<name> params="<param list>" ret="<type>" [generics=]
                        if len(pos) != 4 or 'as' not in kv or 'params' not in kv:
                            raise Undecided('unsupported-construct', '%s: @@extract %s needs <file> <fn> <"leading tokens" | k> as= params=' % (relpath, kind))
                        if kind == 'closure':
                            if not pos[3].isdigit():
                                raise Undecided('unsupported-construct', '%s: @@extract closure needs the closure number k' % relpath)
                            ft = ClosureText(repo, rel, sel, int(pos[3]), kv['as'], kv['params'], sec, kv.get('impl'),
                                             int(kv['nth']) if 'nth' in kv else None, ret=kv.get('ret'), generics=kv.get('generics'))
                        else:
                            ft = StmtText(repo, rel, sel, pos[3], kv['as'], kv['params'], sec, kv.get('impl'),
                                      int(kv['nth']) if 'nth' in kv else None, ret=kv.get('ret'), cont=kv.get('cont'))
                        try:
                            if ft.name in force_degrade:
                                raise Undecided('unsupported-construct', force_degrade[ft.name])
                            lines = splice_function(ft, ds, sec)
                        except Undecided as e_fn:
                            if os.environ.get('VERIF_NO_DEGRADE'):
                                raise
                            try:
                                lines = degrade_function(ft, ds, sec)
                            except (Undecided, StopIteration, KeyError, IndexError):
                                raise e_fn
                            degraded[ft.name] = '%s: %s' % (e_fn.reason, e_fn.detail)
                        out_lines.extend(lines)
                        record.append({'item': 'fn ' + ft.name, 'file': rel, 'lines': [ft.first_line, ft.last_line],
                                       'sha256': ft.sha, 'rewrites': [list(f) for f in ft.fired], 'stmt_of': sel,
                                       'labels': sorted({o['label'] for _, o in lines if o.get('o') == 'clause' and 'label' in o})})
                        continue
                    if kind == 'arm':
                        # R11: @@extract arm <file> <Type::fn> "<arm pattern tokens>" as=<name> params="<param list>"
                        if len(pos) != 4 or 'as' not in kv or 'params' not in kv:
                            raise Undecided('unsupported-construct', '%s: @@extract arm needs <file> <fn> "<pattern>" as= params=' % relpath)
                        ft = ArmText(repo, rel, sel, pos[3], kv['as'], kv['params'], sec, kv.get('impl'),
                                     int(kv['nth']) if 'nth' in kv else None, **({'ret': kv.get('ret'), 'outer_ok': kv.get('outer')}
                                                                                 if ('ret' in kv or 'outer' in kv) else {}),
                                     **({'selfalias': kv['selfalias']} if 'selfalias' in kv else {}))
                        # (unit discovery_glue) graceful degradation also for a generated arm function: a lost
                        # body anchor / front-end error inside ONE arm drops that arm's body only (as for fns below)
                        try:
                            if ft.name in force_degrade:
                                raise Undecided('unsupported-construct', force_degrade[ft.name])
                            lines = splice_function(ft, ds, sec)
                        except Undecided as e_fn:
                            if os.environ.get('VERIF_NO_DEGRADE'):
                                raise
                            try:
                                lines = degrade_function(ft, ds, sec)
                            except (Undecided, StopIteration, KeyError, IndexError):
                                raise e_fn
                            degraded[ft.name] = '%s: %s' % (e_fn.reason, e_fn.detail)
                        out_lines.extend(lines)
                        record.append({'item': 'fn ' + ft.name, 'file': rel, 'lines': [ft.arm_first_line, ft.last_line],
                                       'sha256': ft.sha, 'rewrites': [list(f) for f in ft.fired], 'arm_of': sel,
                                       'labels': sorted({o['label'] for _, o in lines if o.get('o') == 'clause' and 'label' in o})})
                        continue
                    ft = FnText(repo, rel, sel, sec, kv.get('impl'), int(kv['nth']) if 'nth' in kv else None)
                    if sel in extra_for:
                        ds.extend(extra_for[sel])       # `@@extra_for <Selector>` of this unit
                    if 'as' in kv:
                        d = Directive('rename', kv['as'], 0)
                        ds.append(d)
                        ft.name = (sel.rsplit('::', 1)[0] + '::' if '::' in sel else '') + kv['as']
                    try:
                        if ft.name in force_degrade:
                            raise Undecided('unsupported-construct', force_degrade[ft.name])
                        lines = splice_function(ft, ds, sec)
                    except Undecided as e_fn:
                        if os.environ.get('VERIF_NO_DEGRADE'):
                            raise
                        try:
                            lines = degrade_function(ft, ds, sec)
                        except (Undecided, StopIteration, KeyError, IndexError):
                            raise e_fn
                        degraded[ft.name] = '%s: %s' % (e_fn.reason, e_fn.detail)
                    for (tx, o) in lines:
                        if 'as' in kv and 'fn' in o:
                            pass
                        out_lines.append((tx, o))
                    record.append({'item': 'fn ' + ft.name, 'source_item': sel, 'file': rel, 'lines': [ft.first_line, ft.last_line],
                                   'sha256': ft.sha, 'rewrites': [list(f) for f in ft.fired],
                                   'labels': sorted({o['label'] for _, o in lines if o.get('o') == 'clause' and 'label' in o})})
                    continue
                elif kind == 'const':
                    # associated or free constant, copied verbatim (visibility widened, R10)
                    rel, sel = pos[1], pos[2]
                    src = load_src(repo, rel)
                    ty, name = (sel.rsplit('::', 1) + [None])[:2] if '::' in sel else (None, sel)
                    cands = []
                    for it in rscan.top_items(src):
                        if ty is None:
                            if it.kind == 'const' and it.name == name and cfg_ok(it.attrs, unit_security[0]):
                                cands.append(it)
                        elif it.kind == 'impl' and it.open_si is not None:
                            tr, sty = rscan.impl_self_type(it.header)
                            if sty != ty or tr is not None or not cfg_ok(it.attrs, unit_security[0]):
                                continue
                            for sub in rscan.items_in(src, it.open_si + 1, it.end_si):
                                if sub.kind == 'const' and (sub.name == name or name == '*') and cfg_ok(sub.attrs, unit_security[0]):
                                    cands.append(sub)
                    # `Type::*` = EVERY associated constant of the inherent impl(s), verbatim (so that a change which
                    # starts using another constant of the table is judged instead of degrading the function)
                    if (len(cands) != 1 and name != '*') or not cands:
                        raise Undecided('lost-anchor', 'const %s: %d candidates' % (sel, len(cands)))
                    for it in cands:
                        kwsi = next(k for k in range(it.start_si, it.end_si) if src.s(k) == 'const')
                        a, b = src.t(kwsi).pos, src.t(it.end_si).end
                        txt = src.text[a:b]
                        l0 = src.line_of(a)
                        csel = sel if name != '*' else '%s::%s' % (ty, it.name)
                        for k, raw_ln in enumerate(('pub ' + txt).split('\n')):
                            out_lines.append((raw_ln, {'o': 'src', 'file': rel, 'line': l0 + k, 'fn': 'const ' + csel}))
                        record.append({'item': 'const ' + csel, 'file': rel, 'lines': [l0, src.line_of(b)],
                                       'sha256': hashlib.sha256(txt.encode()).hexdigest(), 'rewrites': [['R10', l0, 'visibility -> pub']]})
                    i += 1
                    continue
                elif kind == 'const_exec':
                    out_lines.extend(extract_const_exec(repo, pos[1], pos[2], kv, unit_security[0], record))
                    i += 1
                    continue
                elif kind == 'const_str':
                    # R28 (added for unit `permissions`), see extract_const_str
                    out_lines.extend(extract_const_str(repo, pos[1], pos[2], unit_security[0], record))
                    i += 1
                    continue
                elif kind in ('struct', 'enum'):
                    rel, name = pos[1], pos[2]
                    if name in keep_extra and 'keep' in kv:
                        xk = keep_extra[name]
                        if xk.get('keep'):
                            kv['keep'] = kv['keep'] + ',' + xk['keep']
                        if xk.get('opaque'):
                            kv['opaque'] = (kv['opaque'] + ';' if kv.get('opaque') else '') + xk['opaque']
                    lines = extract_type(repo, rel, kind, name, kv, unit_security[0], record)
                    out_lines.extend(lines)
                    i += 1
                    continue
                elif kind == 'const':
                    rel, name = pos[1], pos[2]
                    out_lines.extend(extract_const(repo, rel, name, unit_security[0], record))
                    i += 1
                    continue
                else:
                    raise Undecided('unsupported-construct', 'unknown extract kind %s' % kind)
            if st.startswith('@@'):
                raise Undecided('unsupported-construct', '%s:%d unknown directive %s' % (relpath, i + 1, st))
            o = {'o': 'tmpl', 'file': relpath, 'line': i + 1}
            m = re.search(r'//\s*\[([\w.\-]+)\]\s*$', ln)
            if m:
                o['label'] = m.group(1)
            out_lines.append((ln, o))
            i += 1

    process(tpath)
    bdir = os.path.join(verif_root, 'build')
    if os.path.realpath(repo) != '/repo':
        # a run against a scratch copy (VERIF_REPO, mutants / seeds) must not overwrite build/<unit>.rs
        # while a concurrent run on the real tree is reading it (same file name = same Verus crate name)
        bdir = os.path.join(bdir, 'scratch-units', hashlib.sha256(os.path.realpath(repo).encode()).hexdigest()[:12])
    os.makedirs(bdir, exist_ok=True)
    opath = os.path.join(bdir, unit + '.rs')
    with open(opath, 'w') as f:
        f.write('\n'.join(t for t, _ in out_lines) + '\n')
    omap = [o for _, o in out_lines]
    with open(os.path.join(bdir, unit + '.map.json'), 'w') as f:
        json.dump({'map': omap, 'record': record}, f)
    return {'path': opath, 'map': omap, 'record': record, 'degraded': degraded}
