"""Engine X: executable contracts — bounded stand-in and witness search.

The contract of a function is written a second time as an executable oracle (plain Rust, in a
`#[cfg(test)]` module) and evaluated on the REAL function over an exhaustively enumerated small
domain.  It runs in an add-only overlay copy of the working tree with `cargo test`, so it is
independent of the code's shape (it still works after a refactoring that Engine V cannot
extract).  It never counts as proof: results are reported as `bounded`, and it is used
  * as the witness search after an Engine-V obligation failed (the failing input replays on the
    real code by construction),
  * as the bounded stand-in when a unit is UNDECIDED (lost anchor / unsupported construct),
  * always in the thorough tier."""
import fcntl
import os
import re
import shutil
import subprocess
import time

from .extract import Undecided

WORK = os.environ.get('VERIF_XC_WORK', '/var/tmp/verif-xc-work')


def target_dir(verif_root):
    return os.environ.get('VERIF_XC_TARGET', os.path.join(verif_root, '.cache', 'xc-target'))


class XcOverlay:
    def __init__(self, verif_root, repo, tag='default'):
        self.verif_root, self.repo, self.tag = verif_root, repo, tag
        self.dir = os.path.join(WORK, tag, 'repo')
        self.inserted = []
        self.lock = None

    def __enter__(self):
        os.makedirs(os.path.join(WORK, self.tag), exist_ok=True)
        os.makedirs(target_dir(self.verif_root), exist_ok=True)
        self.lock = open(os.path.join(target_dir(self.verif_root), '.verif.lock'), 'w')
        fcntl.flock(self.lock, fcntl.LOCK_EX)
        if os.path.isdir(self.dir):
            shutil.rmtree(self.dir)
        os.makedirs(self.dir)
        subprocess.run(['rsync', '-a', '--delete', '--exclude', '/target', '--exclude', '/.git',
                        '--exclude', '/FastDDS_interop_test', self.repo.rstrip('/') + '/', self.dir + '/'], check=True)
        if not os.path.isfile(os.path.join(self.dir, 'Cargo.lock')) and os.path.isfile('/repo/Cargo.lock'):
            shutil.copy('/repo/Cargo.lock', os.path.join(self.dir, 'Cargo.lock'))
        return self

    def __exit__(self, *a):
        try:
            shutil.rmtree(os.path.join(WORK, self.tag), ignore_errors=True)
        finally:
            if self.lock:
                fcntl.flock(self.lock, fcntl.LOCK_UN)
                self.lock.close()

    def apply(self, files):
        for hf in files:
            text = open(hf, encoding='utf-8').read()
            m = re.search(r'(?m)^//@\s*append:\s*(\S+)', text)
            if not m:
                raise Undecided('unsupported-construct', 'xc file %s has no //@ append: header' % hf)
            if '#[cfg(test)]' not in text:
                raise Undecided('unsupported-construct', 'xc module in %s not guarded by #[cfg(test)]' % hf)
            p = os.path.join(self.dir, m.group(1))
            if not os.path.isfile(p):
                raise Undecided('lost-anchor', 'xc overlay target %s missing' % m.group(1))
            body = '\n'.join(l for l in text.split('\n') if not l.startswith('//@'))
            with open(p, 'a') as f:
                f.write('\n' + body + '\n')
            self.inserted.append((m.group(1), body.count('\n') + 1, 'executable-contract test module from ' + os.path.basename(hf)))

    def run(self, filters, features=None, timeout=1800, exact=False, threads=8):
        env = dict(os.environ)
        env['CARGO_NET_OFFLINE'] = 'true'
        env['CARGO_TARGET_DIR'] = target_dir(self.verif_root)
        env['RUST_BACKTRACE'] = '0'
        cmd = ['cargo', 'test', '--offline', '--lib']
        if features:
            cmd += ['--features', features]
        cmd += ['--'] + list(filters) + (['--exact'] if exact else []) + ['--test-threads', str(threads)]
        t0 = time.time()
        try:
            p = subprocess.run(cmd, cwd=self.dir, env=env, capture_output=True, text=True, timeout=timeout)
            out, code, status = p.stdout + '\n' + p.stderr, p.returncode, 'ran'
        except subprocess.TimeoutExpired as e:
            out = (e.stdout or b'').decode(errors='replace') if isinstance(e.stdout, bytes) else (e.stdout or '')
            code, status = None, 'timeout'
        return {'cmd': ' '.join(cmd), 'out': out, 'exit': code, 'status': status, 'wall_s': time.time() - t0}


def parse(out):
    """-> (tests: {name: 'ok'|'FAILED'}, messages: {name: text}, compile_error or None)"""
    tests = {}
    for m in re.finditer(r'(?m)^test (\S+) \.\.\. (ok|FAILED|ignored)', out):
        tests[m.group(1)] = m.group(2)
    msgs = {}
    for m in re.finditer(r'(?ms)^---- (\S+) stdout ----\n(.*?)(?=^---- |\nfailures:|\Z)', out):
        msgs[m.group(1)] = m.group(2).strip()[:3000]
    cerr = None
    if not tests and re.search(r'(?m)^error(\[E\d+\])?:', out):
        cerr = out[-4000:]
    return tests, msgs, cerr
