"""Engine K: add-only overlay of Kani contracts/harnesses on a scratch copy of the repository
working tree, run `cargo kani`, parse results."""
import fcntl
import hashlib
import json
import os
import re
import shutil
import subprocess
import time

from . import rscan
from .extract import Undecided, find_fn, load_src

WORK = os.environ.get('VERIF_KANI_WORK', '/var/tmp/verif-kani-work')


def target_dir(verif_root):
    return os.environ.get('VERIF_KANI_TARGET', os.path.join(verif_root, '.cache', 'kani-target'))


class Overlay:
    def __init__(self, verif_root, repo, tag):
        self.verif_root, self.repo, self.tag = verif_root, repo, tag
        self.dir = os.path.join(WORK, tag, 'repo')
        self.inserted = []   # (file, n_lines, what)
        self.lock = None

    def __enter__(self):
        os.makedirs(os.path.join(WORK, self.tag), exist_ok=True)
        os.makedirs(target_dir(self.verif_root), exist_ok=True)
        self.lock = open(os.path.join(target_dir(self.verif_root), '.verif.lock'), 'w')
        fcntl.flock(self.lock, fcntl.LOCK_EX)
        if os.path.isdir(self.dir):
            shutil.rmtree(self.dir)
        os.makedirs(self.dir)
        subprocess.run(['rsync', '-a', '--delete', '--exclude', '/target', '--exclude', '/.git',
                        '--exclude', '/examples', '--exclude', '/FastDDS_interop_test',
                        self.repo.rstrip('/') + '/', self.dir + '/'], check=True)
        # examples are referenced by Cargo.toml [[example]]? keep the directory if so
        ct = open(os.path.join(self.dir, 'Cargo.toml')).read()
        if 'examples/' in ct or os.path.isdir(os.path.join(self.repo, 'examples')):
            subprocess.run(['rsync', '-a', os.path.join(self.repo, 'examples'), self.dir + '/'], check=False)
        # a git worktree of the repository lacks the (untracked) Cargo.lock: use the repository's
        if not os.path.isfile(os.path.join(self.dir, 'Cargo.lock')) and os.path.isfile('/repo/Cargo.lock'):
            shutil.copy('/repo/Cargo.lock', os.path.join(self.dir, 'Cargo.lock'))
        cfgdir = os.path.join(self.dir, '.cargo')
        os.makedirs(cfgdir, exist_ok=True)
        with open(os.path.join(cfgdir, 'config.toml'), 'a') as f:
            f.write('\n[net]\noffline = true\n')
        return self

    def __exit__(self, *a):
        try:
            shutil.rmtree(os.path.join(WORK, self.tag), ignore_errors=True)
        finally:
            if self.lock:
                fcntl.flock(self.lock, fcntl.LOCK_UN)
                self.lock.close()

    def apply(self, harness_files):
        """harness file format: header lines `//@ append: <rel path>` then Rust text (appended to
        that file), and optional blocks
            //@ attr: <rel path> :: <fn selector>
            <attribute lines>
            //@ end
        every inserted line must be guarded by cfg(kani)"""
        for hf in harness_files:
            text = open(hf, encoding='utf-8').read()
            lines = text.split('\n')
            i = 0
            append_to = None
            body = []
            attrs = []
            while i < len(lines):
                ln = lines[i]
                m = re.match(r'//@\s*append:\s*(\S+)', ln)
                if m:
                    append_to = m.group(1); i += 1; continue
                m = re.match(r'//@\s*attr:\s*(\S+)\s*::\s*(.+?)\s*$', ln)
                if m:
                    blk = []
                    i += 1
                    while i < len(lines) and not lines[i].startswith('//@ end'):
                        blk.append(lines[i]); i += 1
                    i += 1
                    attrs.append((m.group(1), m.group(2), blk))
                    continue
                body.append(ln)
                i += 1
            # attribute insertions first (positions by function selector)
            byfile = {}
            for rel, sel, blk in attrs:
                for b in blk:
                    if b.strip() and not re.match(r'\s*#\[cfg_attr\(kani,', b) and not b.strip().startswith('//'):
                        raise Undecided('unsupported-construct', 'overlay attr line not guarded by cfg_attr(kani, ..): %s' % b)
                byfile.setdefault(rel, []).append((sel, blk))
            for rel, lst in byfile.items():
                p = os.path.join(self.dir, rel)
                src = load_src(self.dir, rel)
                ins = []
                for sel, blk in lst:
                    sec = 'security' in self.tag
                    it = find_fn(src, sel, security=sec, impl_re=None)
                    pos = src.t(it.attr_si).pos
                    # start of that line
                    ls = src.text.rfind('\n', 0, pos) + 1
                    ins.append((ls, '\n'.join(blk) + '\n'))
                    self.inserted.append((rel, len(blk), 'contract attributes on ' + sel))
                t = src.text
                for ls, s in sorted(ins, reverse=True):
                    t = t[:ls] + s + t[ls:]
                with open(p, 'w') as f:
                    f.write(t)
            if append_to:
                btxt = '\n'.join(body)
                if '#[cfg(kani)]' not in btxt:
                    raise Undecided('unsupported-construct', 'harness module in %s not guarded by #[cfg(kani)]' % hf)
                p = os.path.join(self.dir, append_to)
                if not os.path.isfile(p):
                    raise Undecided('lost-anchor', 'overlay target %s missing' % append_to)
                with open(p, 'a') as f:
                    f.write('\n' + btxt + '\n')
                self.inserted.append((append_to, len(body), 'harness module from ' + os.path.basename(hf)))

    def _cmd(self, harnesses, features, extra, playback):
        cmd = ['cargo', 'kani', '-Z', 'function-contracts', '-Z', 'stubbing']
        if features:
            cmd += ['--features', features]
        for h in harnesses:
            cmd += ['--harness', h]
        if playback:
            cmd += ['-Z', 'concrete-playback', '--concrete-playback=print']
        if extra:
            cmd += extra
        return cmd

    def _exec(self, cmd, timeout):
        env = dict(os.environ)
        env['CARGO_NET_OFFLINE'] = 'true'
        env['CARGO_TARGET_DIR'] = target_dir(self.verif_root)
        t0 = time.time()
        try:
            p = subprocess.Popen(cmd, cwd=self.dir, env=env, stdout=subprocess.PIPE, stderr=subprocess.STDOUT,
                                 text=True, start_new_session=True)
            try:
                out, _ = p.communicate(timeout=timeout)
                code, status = p.returncode, 'ran'
            except subprocess.TimeoutExpired:
                import signal
                try:
                    os.killpg(p.pid, signal.SIGKILL)
                except Exception:
                    pass
                out, _ = p.communicate()
                code, status = None, 'timeout'
        except OSError as e:
            out, code, status = str(e), None, 'error'
        return {'cmd': ' '.join(cmd), 'out': out or '', 'exit': code, 'status': status, 'wall_s': time.time() - t0}

    def run(self, harnesses, features=None, extra=None, timeout=3600, jobs=None, playback=False):
        """one `cargo kani` per harness after a shared codegen build; harness runs in parallel"""
        if not jobs or jobs <= 1 or len(harnesses) <= 1:
            return self._exec(self._cmd(harnesses, features, extra, playback), timeout)
        # shared build first (so the parallel runs only verify)
        b = self._exec(self._cmd(harnesses[:1], features, (extra or []) + ['--only-codegen'], False), timeout)
        if b['exit'] != 0:
            return b
        import concurrent.futures as cf
        with cf.ThreadPoolExecutor(max_workers=jobs) as ex:
            rs = list(ex.map(lambda h: self._exec(self._cmd([h], features, extra, playback), timeout), harnesses))
        status = 'ran' if all(r['status'] == 'ran' for r in rs) else 'timeout'
        return {'cmd': ' ; '.join(r['cmd'] for r in rs), 'out': '\n'.join(r['out'] for r in rs),
                'exit': max((r['exit'] or 0) for r in rs), 'status': status, 'wall_s': b['wall_s'] + max(r['wall_s'] for r in rs),
                'timeouts': [h for h, r in zip(harnesses, rs) if r['status'] != 'ran']}


    def playback(self, harnesses, features=None, timeout=1800):
        """witness replay: re-run failing harnesses with in-place concrete playback, then execute the
        generated unit tests natively against the real code (`cargo kani playback`).  Returns
        {harness: {'test': text, 'replayed': bool, 'output': tail}}"""
        out = {}
        for h in harnesses:
            r = self._exec(self._cmd([h], features, ['-Z', 'concrete-playback', '--concrete-playback=inplace'], False), timeout)
            names = re.findall(r'(?m)^\s*- (kani_concrete_playback_\w+)\.?\s*$', r['out'])
            if not names:
                out[h] = {'test': None, 'replayed': False, 'output': r['out'][-1500:]}
                continue
            # collect the generated test text
            text = ''
            for root, _, files in os.walk(os.path.join(self.dir, 'src')):
                for fn in files:
                    if fn.endswith('.rs'):
                        t = open(os.path.join(root, fn), encoding='utf-8', errors='replace').read()
                        for nm in names:
                            k = t.find('fn ' + nm)
                            if k >= 0:
                                a = t.rfind('#[test]', 0, k)
                                e = t.find('\n}', k)
                                text += t[a:e + 2] + '\n'
            cmd = ['cargo', 'kani', 'playback', '-Z', 'concrete-playback', '--lib']
            if features:
                cmd += ['--features', features]
            cmd += ['--'] + names[:1]
            r2 = self._exec(cmd, timeout)
            failed = bool(re.search(r'test result: FAILED', r2['out'])) or bool(re.search(r'panicked at', r2['out']))
            m = re.search(r"panicked at [^\n]*\n[^\n]*", r2['out'])
            out[h] = {'test': text, 'replayed': failed, 'panic': m.group(0) if m else None,
                      'output': re.sub(r'(?m)^warning.*?\n\n', '', r2['out'], flags=re.S)[-2500:], 'cmd': ' '.join(cmd)}
        return out


def parse_kani(out, harnesses):
    """per harness: status (success|failure|missing|error), checks, failed checks[], time"""
    res = {h: {'status': 'missing', 'checks': 0, 'failed': [], 'time_s': None, 'unwind_fail': False} for h in harnesses}
    # split per harness
    parts = re.split(r'(?m)^(?:Thread \d+: )?Checking harness ([\w:<>\s,]+?)\.\.\.\s*$', out)
    # parts: [pre, name1, body1, name2, body2..]
    compile_error = None
    if re.search(r'(?m)^error(\[E\d+\])?:', parts[0]) and len(parts) == 1:
        compile_error = parts[0][-6000:]
    for k in range(1, len(parts), 2):
        name = parts[k].strip()
        body = parts[k + 1]
        key = None
        for h in harnesses:
            if name == h or name.endswith('::' + h) or name.split('::')[-1] == h.split('::')[-1]:
                key = h; break
        if key is None:
            continue
        r = res[key]
        m = re.search(r'\*\* (\d+) of (\d+) failed', body)
        if m:
            r['checks'] = int(m.group(2))
            r['nfailed'] = int(m.group(1))
        mt = re.search(r'Verification Time: ([\d.]+)s', body)
        if mt:
            r['time_s'] = float(mt.group(1))
        if 'VERIFICATION:- SUCCESSFUL' in body:
            r['status'] = 'success'
        elif 'VERIFICATION:- FAILED' in body:
            r['status'] = 'failure'
            for fm in re.finditer(r'Failed Checks: (.*)\n\s*File: "([^"]*)", line (\d+), in (\S+)', body):
                r['failed'].append({'desc': fm.group(1).strip(), 'file': fm.group(2), 'line': int(fm.group(3)), 'fn': fm.group(4)})
            if not r['failed']:
                for fm in re.finditer(r'Failed Checks: (.*)', body):
                    r['failed'].append({'desc': fm.group(1).strip()})
            if re.search(r'unwinding assertion', body):
                r['unwind_fail'] = True
        else:
            r['status'] = 'error'
        r['tail'] = body[-3000:]
        pb = re.search(r'Concrete playback unit test for `[^`]*`:\s*```\s*(.*?)```', body, re.S)
        if pb:
            r['playback_test'] = pb.group(1)
    m = re.search(r'Complete - (\d+) successfully verified harnesses, (\d+) failures, (\d+) total', out)
    summary = None
    if m:
        summary = {'ok': int(m.group(1)), 'fail': int(m.group(2)), 'total': int(m.group(3))}
    stubs = re.findall(r'(?m)^\s*- Stub: (.*)$', out)
    return res, summary, compile_error, stubs
