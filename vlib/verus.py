"""Run Verus on a built unit and turn its diagnostics into named obligations."""
import json
import os
import re
import subprocess
import time

VERUS = os.environ.get('VERIF_VERUS', 'verus')


def run_verus(path, rlimit=None, extra=None, timeout=900):
    cmd = [VERUS, path, '--output-json', '--time', '--multiple-errors', '50', '--error-format=json',
           '--triggers-mode', 'silent']
    if rlimit:
        cmd += ['--rlimit', str(rlimit)]
    if extra:
        cmd += extra
    t0 = time.time()
    try:
        p = subprocess.run(cmd, capture_output=True, text=True, timeout=timeout,
                           cwd=os.path.dirname(path))
    except subprocess.TimeoutExpired:
        return {'status': 'timeout', 'cmd': ' '.join(cmd), 'wall_s': time.time() - t0}
    wall = time.time() - t0
    res = {'status': 'ran', 'cmd': ' '.join(cmd), 'wall_s': wall, 'exit': p.returncode}
    try:
        js = json.loads(p.stdout)
    except Exception:
        js = None
    res['json'] = js
    diags = []
    for ln in p.stderr.split('\n'):
        ln = ln.strip()
        if not ln.startswith('{'):
            continue
        try:
            d = json.loads(ln)
        except Exception:
            continue
        if d.get('$message_type') == 'diagnostic':
            diags.append(d)
    res['diags'] = diags
    res['stderr_tail'] = p.stderr[-4000:]
    return res


FRONTEND_PATTERNS = (
    'not supported', 'unsupported', 'cannot find', 'unresolved', 'mismatched types', 'expected',
    'no method named', 'no field', 'is not yet supported', 'The verifier does not yet support',
    'not allowed', 'cannot be used', 'trait bound', 'borrow', 'syntax', 'unknown', 'private',
    'cannot infer', 'type annotations needed', 'is only allowed', 'cannot call', 'cannot use',
)

VERIF_KINDS = [
    ('postcondition not satisfied', 'post'),
    ('precondition not satisfied', 'pre'),
    ('invariant not satisfied', 'inv'),
    ('assertion failed', 'assert'),
    ('decreases not satisfied', 'decreases'),
    ('possible arithmetic underflow/overflow', 'overflow'),
    ('possible division by zero', 'divzero'),
    ('possible bit shift underflow/overflow', 'shift'),
    ('recommendation not met', 'recommend'),
    ('unreachable', 'unreachable'),
    ('loop invariant', 'inv'),
    ('loop ensures', 'inv'),
    ('might not be allowed at value', 'overflow'),
    ('constructed value may fail to meet its declared type invariant', 'typeinv'),
    ('failed this postcondition', 'post'),
    ('Resource limit (rlimit) exceeded', 'rlimit'),
    ('could not prove termination', 'decreases'),
    ('index out of bounds', 'bounds'),
    ('unable to prove post-condition of closure', 'post'),   # annotated closure (R6/R19) whose body no longer meets its `ensures`
]


def classify(msg):
    for pat, k in VERIF_KINDS:
        if pat in msg:
            return k
    return None


def interpret(res, umap, crate):
    """returns dict(frontend_errors=[...], failures=[{kind, label, fn, file, line, msg}],
    functions=[{function, success, time_ms}], verified, errors)"""
    out = {'frontend_errors': [], 'failures': [], 'functions': [], 'verified': 0, 'errors': 0,
           'rlimit': []}
    js = res.get('json') or {}
    vr = js.get('verification-results') or {}
    out['verified'] = vr.get('verified', 0)
    out['errors'] = vr.get('errors', 0)
    out['vir_error'] = vr.get('encountered-vir-error', False)
    try:
        for m in js['times-ms']['smt']['smt-run-module-times']:
            for f in m.get('function-breakdown', []):
                out['functions'].append({'function': f['function'].split('::', 1)[-1] if f['function'].startswith(crate + '::') else f['function'],
                                         'success': f['success'], 'time_ms': f['time'], 'rlimit': f.get('rlimit')})
        out['smt_ms'] = js['times-ms']['smt']['total']
        out['total_ms'] = js['times-ms']['total']
    except Exception:
        pass
    try:
        out['verus_version'] = js['times-ms']['verus-build']['version']
    except Exception:
        pass

    def origin(line):
        if 1 <= line <= len(umap):
            return umap[line - 1]
        return {}

    def enclosing_fn(line):
        # walk back to the nearest src/clause line with fn
        for k in range(line, max(0, line - 400), -1):
            o = origin(k)
            if 'fn' in o:
                return o['fn']
            if o.get('o') == 'tmpl':
                return None
        return None

    for d in res.get('diags', []):
        if d.get('level') != 'error':
            continue
        msg = d.get('message', '')
        if msg.startswith('aborting due to') or msg.startswith('could not compile'):
            continue
        kind = classify(msg)
        spans = d.get('spans', [])
        for ch in d.get('children', []):
            spans = spans + ch.get('spans', [])
        if kind is None:
            prim = next((s for s in spans if s.get('is_primary')), spans[0] if spans else None)
            o = origin(prim['line_start']) if prim else {}
            out['frontend_errors'].append({'msg': msg, 'line': prim['line_start'] if prim else None,
                                           'origin': o, 'rendered': d.get('rendered', '')[:1500]})
            continue
        prim = next((s for s in spans if s.get('is_primary')), spans[0] if spans else None)
        label = None
        where = origin(prim['line_start']) if prim else {}
        fn = where.get('fn') or (enclosing_fn(prim['line_start']) if prim else None)
        # look for a labelled clause among all spans (failed postcondition / precondition clause)
        lab_spans = []
        for s in spans:
            o = origin(s['line_start'])
            # a multi-line clause: scan its lines
            for k in range(s['line_start'], s['line_end'] + 1):
                ok = origin(k)
                if ok.get('label'):
                    lab_spans.append((ok['label'], s))
                    break
        if lab_spans:
            # prefer the label of a CLAUSE line (the failed contract clause itself) over a label that
            # sits on a source line inside a wide span (`@@closure k label=..`), then non-aux labels
            clause_labs = []
            for s in spans:
                for k in range(s['line_start'], s['line_end'] + 1):
                    ok = origin(k)
                    if ok.get('label') and ok.get('o') in ('clause', 'tmpl'):
                        clause_labs.append(ok['label'])
                        break
            named_c = [l for l in clause_labs if not l.startswith('aux.')]
            named = [l for l, _ in lab_spans if not l.startswith('aux.')]
            label = named_c[0] if named_c else (named[0] if named else lab_spans[0][0])
        if kind == 'rlimit':
            out['rlimit'].append({'fn': fn, 'msg': msg})
            continue
        srcline = None
        for s in spans:
            o = origin(s['line_start'])
            if o.get('o') == 'src':
                srcline = (o.get('file'), o.get('line'))
                if o.get('fn') and not fn:
                    fn = o['fn']
                break
        if label is None and kind == 'decreases' and where.get('loop_label'):
            label = where['loop_label']     # `@@loop k <label>`: named termination obligation
        if label is None:
            base = {'overflow': 'nopanic.overflow', 'assert': 'nopanic.assert', 'decreases': 'term.loop',
                    'bounds': 'nopanic.bounds', 'divzero': 'nopanic.divzero', 'shift': 'nopanic.shift',
                    'unreachable': 'nopanic.unreachable'}.get(kind)
            if base and srcline:
                label = '%s@%s:%s:%s' % (base, fn, os.path.basename(srcline[0] or ''), srcline[1])
            elif srcline:
                label = 'aux.%s.%s@%s:%s' % (fn, kind, os.path.basename(srcline[0] or ''), srcline[1])
            else:
                label = 'aux.%s.%s' % (fn, kind)
        out['failures'].append({'kind': kind, 'label': label, 'fn': fn, 'src': srcline,
                                'unit_line': prim['line_start'] if prim else None, 'msg': msg,
                                'rendered': d.get('rendered', '')[:3000]})
    return out
