"""Lexical scanner for Rust source text: comment/string/char/lifetime aware tokeniser,
brace matching and item location.  No parsing beyond what extraction needs."""
import re
from dataclasses import dataclass

IDENT_START = re.compile(r'[A-Za-z_]')
IDENT = re.compile(r'[A-Za-z_][A-Za-z0-9_]*')
NUM = re.compile(r'[0-9][0-9A-Za-z_]*(\.[0-9][0-9A-Za-z_]*)?')
PUNCT3 = ('<<=', '>>=', '...', '..=')
PUNCT2 = ('::', '->', '=>', '==', '!=', '<=', '>=', '&&', '||', '+=', '-=', '*=', '/=', '%=',
          '^=', '&=', '|=', '<<', '>>', '..')


@dataclass
class Tok:
    kind: str   # ws comment str char lifetime ident num punct
    s: str
    pos: int

    @property
    def end(self):
        return self.pos + len(self.s)


class LexError(Exception):
    pass


def tokenize(text):
    toks = []
    i, n = 0, len(text)
    while i < n:
        c = text[i]
        if c in ' \t\r\n':
            j = i
            while j < n and text[j] in ' \t\r\n':
                j += 1
            toks.append(Tok('ws', text[i:j], i)); i = j; continue
        if text.startswith('//', i):
            j = text.find('\n', i)
            if j < 0: j = n
            toks.append(Tok('comment', text[i:j], i)); i = j; continue
        if text.startswith('/*', i):
            depth, j = 1, i + 2
            while j < n and depth:
                if text.startswith('/*', j): depth += 1; j += 2
                elif text.startswith('*/', j): depth -= 1; j += 2
                else: j += 1
            toks.append(Tok('comment', text[i:j], i)); i = j; continue
        # raw strings / byte strings
        m = re.match(r'(b|c)?r(#*)"', text[i:i + 40])
        if m:
            hashes = m.group(2)
            close = '"' + hashes
            j = text.find(close, i + m.end())
            if j < 0: raise LexError('unterminated raw string at %d' % i)
            j += len(close)
            toks.append(Tok('str', text[i:j], i)); i = j; continue
        if c == '"' or (c in 'bc' and i + 1 < n and text[i + 1] == '"'):
            j = i + (1 if c == '"' else 2)
            while j < n and text[j] != '"':
                j += 2 if text[j] == '\\' else 1
            j += 1
            toks.append(Tok('str', text[i:j], i)); i = j; continue
        if c == "'" or (c == 'b' and i + 1 < n and text[i + 1] == "'"):
            k = i + (1 if c == "'" else 2)
            # char literal:  'x'  '\n'  '\u{..}' ; lifetime: 'ident not followed by '
            if k < n and text[k] == '\\':
                j = k + 2
                while j < n and text[j] != "'":
                    j += 1
                j += 1
                toks.append(Tok('char', text[i:j], i)); i = j; continue
            if k + 1 < n and text[k + 1] == "'":
                j = k + 2
                toks.append(Tok('char', text[i:j], i)); i = j; continue
            m = IDENT.match(text, k)
            if c == "'" and m:
                toks.append(Tok('lifetime', text[i:m.end()], i)); i = m.end(); continue
            # multi-byte char literal
            j = text.find("'", k)
            if j < 0: raise LexError('bad quote at %d' % i)
            j += 1
            toks.append(Tok('char', text[i:j], i)); i = j; continue
        m = IDENT.match(text, i)
        if m:
            # r#ident
            toks.append(Tok('ident', m.group(0), i)); i = m.end(); continue
        m = NUM.match(text, i)
        if m:
            # avoid swallowing `1..2` as float
            s = m.group(0)
            if '.' in s and text.startswith('..', i + s.index('.')):
                s = s[:s.index('.')]
            # `0.max(..)`/tuple field `x.0.1`: NUM regex requires digit after '.', fine
            toks.append(Tok('num', s, i)); i += len(s); continue
        for p in PUNCT3:
            if text.startswith(p, i):
                toks.append(Tok('punct', p, i)); i += 3; break
        else:
            for p in PUNCT2:
                if text.startswith(p, i):
                    toks.append(Tok('punct', p, i)); i += 2; break
            else:
                toks.append(Tok('punct', c, i)); i += 1
    return toks


OPEN = {'(': ')', '[': ']', '{': '}'}
CLOSE = {v: k for k, v in OPEN.items()}


class Src:
    """Tokenised text with significant-token index and bracket matching."""

    def __init__(self, text):
        self.text = text
        self.toks = tokenize(text)
        self.sig = [i for i, t in enumerate(self.toks) if t.kind not in ('ws', 'comment')]
        self.match = {}
        stack = []
        for si, ti in enumerate(self.sig):
            t = self.toks[ti]
            if t.kind != 'punct':
                continue
            if t.s in OPEN:
                stack.append(si)
            elif t.s in CLOSE:
                if not stack:
                    raise LexError('unbalanced %s at %d' % (t.s, t.pos))
                o = stack.pop()
                if OPEN[self.toks[self.sig[o]].s] != t.s:
                    raise LexError('mismatched bracket at %d' % t.pos)
                self.match[o] = si
                self.match[si] = o
        if stack:
            raise LexError('unclosed bracket at %d' % self.toks[self.sig[stack[-1]]].pos)

    def t(self, si):
        return self.toks[self.sig[si]]

    def s(self, si):
        return self.toks[self.sig[si]].s if 0 <= si < len(self.sig) else ''

    def n(self):
        return len(self.sig)

    def line_of(self, pos):
        return self.text.count('\n', 0, pos) + 1

    def skip_generics(self, si):
        """si at '<' : return index after the matching '>' (angle brackets, ignoring '->' '=>')."""
        assert self.s(si) == '<'
        depth = 0
        i = si
        while i < self.n():
            s = self.s(i)
            if s == '<': depth += 1
            elif s == '>': depth -= 1
            elif s == '>>': depth -= 2
            elif s in OPEN: i = self.match[i]
            if depth <= 0:
                return i + 1
            i += 1
        raise LexError('unclosed generics')


def find_block_open(src, si, stop=(';',)):
    """first '{' at bracket depth 0 starting from si (skipping (...) and [...]); None if a
    stop token at depth 0 comes first."""
    i = si
    while i < src.n():
        s = src.s(i)
        if s == '{':
            return i
        if s in stop:
            return None
        if s in ('(', '['):
            i = src.match[i]
        i += 1
    return None


def attrs_start(src, si):
    """walk back over attributes `#[...]` (and `pub`, `pub(crate)`, `unsafe`, `const`, `async`,
    `extern "C"`) preceding significant token si; returns (start_si, [attr texts])."""
    attrs = []
    i = si
    while True:
        j = i - 1
        if j >= 0 and src.s(j) in ('pub', 'unsafe', 'const', 'async', 'default'):
            i = j; continue
        if j >= 0 and src.s(j) == ')' and src.match.get(j) is not None:
            o = src.match[j]
            if o - 1 >= 0 and src.s(o - 1) == 'pub':
                i = o - 1; continue
        if j >= 0 and src.s(j) == ']' and src.match.get(j) is not None:
            o = src.match[j]
            if o - 1 >= 0 and src.s(o - 1) == '#':
                attrs.append(src.text[src.t(o - 1).pos:src.t(j).end])
                i = o - 1; continue
        break
    return i, list(reversed(attrs))


@dataclass
class Item:
    kind: str        # fn struct enum impl const type
    name: str
    start_si: int    # first token incl. visibility (not attrs)
    attr_si: int     # first token incl. attributes
    open_si: int     # '{' of body (or None)
    end_si: int      # last token ('}' or ';')
    attrs: list
    header: str      # text up to body


def items_in(src, lo, hi):
    """Items directly inside token range [lo,hi) (depth 0 relative to the range)."""
    out = []
    i = lo
    while i < hi:
        s = src.s(i)
        t = src.t(i)
        if t.kind == 'ident' and s in ('fn', 'struct', 'enum', 'impl', 'trait', 'mod', 'const', 'static', 'type', 'union', 'macro_rules'):
            if s in ('const', 'static') and src.s(i + 1) in ('fn', 'unsafe', 'async'):
                i += 1; continue
            kind = s
            if s == 'impl':
                name = ''
            else:
                name = src.s(i + 1)
                if s == 'macro_rules':
                    name = src.s(i + 2)
            ob = find_block_open(src, i + 1)
            if kind in ('const', 'static', 'type'):
                ob = None   # `const X: T = T { .. };` ends at the ';'
            if kind in ('struct',) and ob is not None:
                # tuple struct `struct X(..);` has no brace before ';' -> find_block_open returns None
                pass
            if ob is None:
                # ends with ';'
                j = i
                while j < hi and src.s(j) != ';':
                    if src.s(j) in OPEN: j = src.match[j]
                    j += 1
                end = j
            else:
                end = src.match[ob]
            a_si, attrs = attrs_start(src, i)
            header = src.text[src.t(a_si).pos:(src.t(ob).pos if ob is not None else src.t(end).end)]
            out.append(Item(kind, name, attrs_start(src, i)[0] if False else _vis_start(src, i), a_si, ob, end, attrs, header))
            i = end + 1
            continue
        if s in OPEN:
            i = src.match[i] + 1
            continue
        i += 1
    return out


def _vis_start(src, si):
    i = si
    while True:
        j = i - 1
        if j >= 0 and src.s(j) in ('pub', 'unsafe', 'const', 'async', 'default'):
            i = j; continue
        if j >= 0 and src.s(j) == ')' and src.match.get(j) is not None:
            o = src.match[j]
            if o - 1 >= 0 and src.s(o - 1) == 'pub':
                i = o - 1; continue
        break
    return i


def top_items(src):
    """all items at file top level and inside (nested) inline `mod`s"""
    out = []

    def rec(lo, hi):
        for it in items_in(src, lo, hi):
            out.append(it)
            if it.kind == 'mod' and it.open_si is not None:
                a2 = [re.sub(r'\s+', '', a) for a in it.attrs]
                if '#[cfg(test)]' in a2 or '#[cfg(kani)]' in a2:
                    continue   # test / harness modules never hold code under contract
                rec(it.open_si + 1, it.end_si)
    rec(0, src.n())
    return out


def impl_self_type(header):
    """crude: from `impl<..> [Trait for] Type<..> [where ..]` return (trait or None, type name)"""
    h = re.sub(r'//[^\n]*', '', header)
    h = re.sub(r'#\[[^\]]*\]', '', h)
    h = h.strip()
    m = re.match(r'(?:unsafe\s+)?impl\b', h)
    if not m:
        return None, None
    rest = h[m.end():].strip()
    if rest.startswith('<'):
        depth = 0
        for k, ch in enumerate(rest):
            if ch == '<': depth += 1
            elif ch == '>':
                if k > 0 and rest[k - 1] in '-=':
                    continue
                depth -= 1
                if depth == 0:
                    rest = rest[k + 1:].strip(); break
    rest = re.split(r'\bwhere\b', rest)[0].strip()
    trait = None
    m = re.search(r'\bfor\b', rest)
    if m:
        trait = rest[:m.start()].strip()
        rest = rest[m.end():].strip()
    ty = re.match(r'[&\s]*(?:mut\s+)?(?:\w+::)*(\w+)', rest)
    return trait, (ty.group(1) if ty else None)
