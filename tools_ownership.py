#!/usr/bin/env python3
"""audit: every labelled clause of every registered Verus unit must be OWNED by at least one property
(label glob + function list of an obligations file that registers the unit); an orphan clause would be
proved but its failure reported by nobody (DESIGN 11.8 lesson 12).  Uses build/<unit>.map.json of the
last build of each unit.  Exit 1 if there are orphans."""
import json, glob, fnmatch, os, sys
root = os.path.dirname(os.path.abspath(__file__))
obl = {}
for f in glob.glob(os.path.join(root, 'obligations', 'C*.json')):
    o = json.load(open(f)); obl[o['property']] = o
ga = lambda s, pats: any(fnmatch.fnmatchcase(s, p) for p in pats)
units = {v['unit'] for o in obl.values() for v in o.get('verus', [])}
orph = {}
owned_somewhere = set()
allc = {}
for u in sorted(units):
    mp = os.path.join(root, 'build', u + '.map.json')
    if not os.path.exists(mp):
        print('no map for', u, '(build it first)'); continue
    labs = {(o['label'], o.get('fn', '')) for o in json.load(open(mp))['map'] if o.get('label') and not o['label'].startswith('aux.')}
    for lab, fn in sorted(labs):
        owners = [pid for pid, o in obl.items() for v in o.get('verus', []) if v['unit'] == u
                  and (ga(lab, v.get('labels', ['*'])) and (v.get('functions', '*') == '*' or fn == '' or ga(fn, v['functions']) or ga(fn.split('::', 1)[-1], v['functions']))
                       or v.get('functions', '*') == '*' or (fn != '' and (ga(fn, v['functions']) or ga(fn.split('::', 1)[-1], v['functions']))))]
        allc.setdefault((lab, fn), []).append(u)
        if owners:
            owned_somewhere.add((lab, fn))
for (lab, fn), us in sorted(allc.items()):
    # a clause of a shared part re-verified in several units is fine if SOME unit's registration owns it
    if (lab, fn) not in owned_somewhere:
        orph.setdefault(','.join(us), []).append((lab, fn))
for u, l in orph.items():
    print('%s: %d orphan clause(s)' % (u, len(l)))
    for x in l: print('     %s  @ %s' % x)
sys.exit(1 if orph else 0)
