#!/bin/bash
# tools_seed.sh <seed-id> <OUT dir> <property id> [more property ids to check...]
# Confirms an independently produced defect seed in a scratch worktree and runs the checks on it.
#  1. clean tree + demo  -> demo passes      2. patched tree + demo -> demo fails
#  3. patched tree (no demo) -> full pinned suite passes     4. ./check <prop> on patched tree
set -u
SID=$1; OUT=$2; shift 2; PROPS="$@"
WT=/var/tmp/seedwt-$SID; TGT=/var/tmp/wt-target
FEAT=""; if grep -q '"features"' $OUT/meta.json 2>/dev/null && grep -q security $OUT/meta.json; then FEAT="--features security"; fi
[ -n "${SEED_FEATURES:-}" ] && FEAT="--features $SEED_FEATURES"
git -C /repo worktree remove --force $WT 2>/dev/null; git -C /repo worktree add -q $WT HEAD || exit 3
cd $WT
[ -f Cargo.lock ] || cp /repo/Cargo.lock .
DEMO=$(python3 -c "import json;print(json.load(open('$OUT/meta.json')).get('demo_test',''))")
echo "== seed $SID demo_test=$DEMO features=$FEAT"
git apply $OUT/demo.diff || { echo "demo.diff does not apply"; exit 3; }
R1=$(CARGO_TARGET_DIR=$TGT cargo test --offline --lib $FEAT "$DEMO" 2>&1 | grep -E "^test result" | head -1); echo "clean+demo : $R1"
git apply $OUT/patch.diff || { echo "patch.diff does not apply"; exit 3; }
R2=$(CARGO_TARGET_DIR=$TGT cargo test --offline --lib $FEAT "$DEMO" 2>&1 | grep -E "^test result" | head -1); echo "patch+demo : $R2"
git checkout -q -- . ; git apply $OUT/patch.diff
R3=$(CARGO_TARGET_DIR=$TGT cargo nextest run --workspace --no-fail-fast --tool-config-file pb:/w/lib/nextest.toml --profile pb --test-threads 8 --offline 2>&1 | grep -E "Summary" | head -1); echo "patch suite: $R3"
if [ -n "$FEAT" ]; then R3b=$(CARGO_TARGET_DIR=$TGT cargo test --offline --lib $FEAT 2>&1 | grep -E "^test result" | head -1); echo "patch suite ($FEAT): $R3b"; fi
cd /verif
for P in $PROPS; do
  VERIF_REPO=$WT ./check $P > /var/tmp/seedcheck-$SID-$P.log 2>&1; RC=$?
  echo "check $P rc=$RC : $(grep -E '^VIOLATION|^UNDECIDED' /var/tmp/seedcheck-$SID-$P.log | cut -c1-220 | head -4)"
  tail -1 /var/tmp/seedcheck-$SID-$P.log
done
git -C /repo worktree remove --force $WT
