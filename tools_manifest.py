#!/usr/bin/env python3
"""helper: add/replace a check in MANIFEST.json:  tools_manifest.py ID 'text' 'note' 'technique' 'design_ref'"""
import json, sys
pid, text, note, tech, design = sys.argv[1:6]
m = json.load(open('/verif/MANIFEST.json'))
c = {"property_id": pid, "quick_cmd": "./check %s --tier quick" % pid, "thorough_cmd": "./check %s --tier thorough" % pid,
     "evidence_file": "/verif/evidence/%s.json" % pid, "replay_cmd_template": "./check %s --replay {path}" % pid,
     "engine": "contract-verif", "level_claimed": {"category": "proof", "text": text, "design_ref": design},
     "level_note": note, "technique": tech}
m['checks'] = [x for x in m['checks'] if x['property_id'] != pid] + [c]
m['checks'].sort(key=lambda x: x['property_id'])
m['not_applicable'] = [n for n in m['not_applicable'] if n['property_id'] != pid]
m['engines'][0]['serves_properties'] = [x['property_id'] for x in m['checks']]
json.dump(m, open('/verif/MANIFEST.json', 'w'), indent=1)
print('ok', [x['property_id'] for x in m['checks']])
