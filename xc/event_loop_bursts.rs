//@ append: src/rtps/dp_event_loop.rs
// Executable contract of the event loop's ACKNACK hand-over under bursts (C06) — bounded STAND-IN for
// code no deductive unit reaches: MessageReceiver -> (edge-triggered sync channel) ->
// DPEventLoop::handle_writer_acknack_action -> Writer::handle_ack_nack.
// Oracle (from the property statement: no datagram or sequence of datagrams makes the participant stop
// responding; after discarding bad input it keeps processing valid traffic of well-behaved peers):
//   a reliable local writer W with n samples is matched with two reliable remote readers R1 (the
//   bursting peer) and R2 (a well-behaved peer); the application waits for acknowledgements.
//   (a) after R2 acknowledged everything and a burst of n ACKNACKs from R1 (bases 2..=n+1, counts
//       1..=n; only the LAST one acknowledges everything) went through the real receive path and the
//       event loop ran until idle, the wait has completed exactly once, and not before the burst
//       [= every ACKNACK of the burst reached the writer: the channel is FIFO] and the channel is empty;
//   (b) afterwards one more sample is written, a new wait starts, and ONE further ACKNACK from each
//       peer with the higher base completes it [= the participant still responds];
//   garbage datagrams between the ACKNACK datagrams change nothing of (a)/(b); a datagram that
//   contains a garbage submessage among the ACKNACKs may be discarded as a whole, but a following clean
//   ACKNACK still completes (a), and (b) holds.
// Bound: burst sizes n in {1, 2, 31, 32, 33, 64, 99, 100} (the channel holds 100) x 4 shapes: ONE
//   datagram with n ACKNACK submessages; n datagrams with one ACKNACK each (all received before the
//   event loop runs, as from one UDPListener::messages() batch); the same with 5 kinds of garbage
//   datagrams in between; one datagram with a malformed submessage in the middle (3 kinds).
// Faithfulness: the writer is added, written to and waited on through the real command channels; the
//   event loop is run as DPEventLoop::event_loop does: Poll::poll (zero timeout) on the real poll
//   object and the same handler calls as the loop's `match` for every token that is ready.
#[cfg(test)]
mod verif_xc_event_loop_bursts {
  use std::{any::Any, sync::Mutex};

  use bytes::Bytes;
  use enumflags2::BitFlags;
  use mio_extras::channel as mio_channel;
  use speedy::{Endianness, Writable};

  use super::*;
  use crate::{
    dds::{
      ddsdata::DDSData,
      qos::{
        policy::{Durability, Reliability},
        QosPolicies,
      },
      statusevents::{sync_status_channel, DataWriterStatus, StatusChannelReceiver},
      with_key::datawriter::WriteOptions,
    },
    discovery::sedp_messages::{ReaderProxy, SubscriptionBuiltinTopicData},
    messages::{
      header::Header,
      submessages::{
        elements::serialized_payload::SerializedPayload,
        submessages::{ACKNACK_Flags, AckNack},
      },
    },
    rtps::{writer::WriterCommand, Message},
    structure::{
      guid::EntityKind,
      sequence_number::{SequenceNumber, SequenceNumberSet},
    },
    RepresentationIdentifier,
  };

  const TOPIC: &str = "xc_burst_topic";

  fn own_prefix() -> GuidPrefix { GuidPrefix::new(b"xcOwnPartic_") }
  fn peer_prefix(p: usize) -> GuidPrefix { GuidPrefix::new(if p == 1 { b"xcBurstPeer1" } else { b"xcGoodPeer_2" }) }
  fn writer_eid() -> EntityId { EntityId::new([0, 0, 9], EntityKind::WRITER_NO_KEY_USER_DEFINED) }
  fn reader_guid(p: usize) -> GUID { GUID::new(peer_prefix(p), EntityId::new([0, 0, 7], EntityKind::READER_NO_KEY_USER_DEFINED)) }
  fn reliable_qos() -> QosPolicies {
    QosPolicies::builder()
      .reliability(Reliability::Reliable { max_blocking_time: crate::Duration::from_millis(100) })
      .durability(Durability::Volatile)
      .build()
  }

  struct Harness {
    ev: DPEventLoop,
    cmd: mio_channel::SyncSender<WriterCommand>,
    _status: StatusChannelReceiver<DataWriterStatus>,
    written: i64,
    ctx: String,
    _keep: Vec<Box<dyn Any>>,
  }

  // What DPEventLoop::event_loop does with one ready event (the arms that can be ready here: there are
  // no sockets, no discovery and nobody sends Stop)
  fn dispatch(ev: &mut DPEventLoop, event: &Event) {
    match EntityId::from_token(event.token()) {
      TokenDecode::FixedToken(fixed_token) => match fixed_token {
        ADD_READER_TOKEN | REMOVE_READER_TOKEN => { let _ = ev.handle_reader_action(event); }
        ADD_WRITER_TOKEN | REMOVE_WRITER_TOKEN => { let _ = ev.handle_writer_action(event); }
        ACKNACK_MESSAGE_TO_LOCAL_WRITER_TOKEN => { let _ = ev.handle_writer_acknack_action(event); }
        _ => {}
      },
      TokenDecode::Entity(eid) => {
        if eid.kind().is_reader() {
          if let Some(r) = ev.message_receiver.reader_mut(eid) { r.process_command(); }
        } else if eid.kind().is_writer() {
          let local_readers = match ev.writers.get_mut(&eid) {
            None => vec![],
            Some(writer) => {
              writer.process_writer_command();
              writer.local_readers()
            }
          };
          ev.message_receiver.notify_data_to_readers(local_readers);
        }
      }
      TokenDecode::AltEntity(eid) => {
        if eid.kind().is_reader() {
          ev.handle_reader_timed_event(eid);
        } else if eid.kind().is_writer() {
          ev.handle_writer_timed_event(eid);
        }
      }
    }
  }

  impl Harness {
    // run the event loop until it is idle: poll + dispatch, until two polls in a row bring nothing
    fn run_until_idle(&mut self) -> usize {
      let mut events = Events::with_capacity(16);
      let (mut handled, mut idle) = (0, 0);
      for _ in 0..64 {
        self.ev.poll.poll(&mut events, Some(Duration::from_millis(0))).unwrap();
        if events.is_empty() {
          idle += 1;
          if idle == 2 { break; }
        } else {
          idle = 0;
        }
        for event in events.iter() {
          dispatch(&mut self.ev, &event);
          handled += 1;
        }
      }
      handled
    }

    fn new(ctx: String) -> Self {
      let mut keep: Vec<Box<dyn Any>> = vec![];
      let (s1, add_reader_receiver) = mio_channel::channel::<ReaderIngredients>();
      let (s2, remove_reader_receiver) = mio_channel::channel::<GUID>();
      let (add_writer_sender, add_writer_receiver) = mio_channel::channel::<WriterIngredients>();
      let (s4, remove_writer_receiver) = mio_channel::channel::<GUID>();
      let (s5, stop_poll_receiver) = mio_channel::channel::<EventLoopCommand>();
      let (s6, discovery_update_notification_receiver) = mio_channel::channel::<DiscoveryNotificationType>();
      let (discovery_command_sender, r7) = mio_channel::sync_channel::<DiscoveryCommand>(64);
      let (spdp_liveness_sender, r8) = mio_channel::sync_channel::<GuidPrefix>(8);
      let (participant_status_sender, r9) = sync_status_channel::<DomainParticipantStatusEvent>(64).unwrap();
      let (discovery_db_event_sender, r10) = mio_channel::sync_channel::<()>(4);
      keep.push(Box::new((s1, s2, s4, s5, s6, r7, r8, r9, r10)));
      let participant_guid = GUID::new(own_prefix(), EntityId::PARTICIPANT);
      let discovery_db = Arc::new(RwLock::new(DiscoveryDB::new(participant_guid, discovery_db_event_sender, participant_status_sender.clone())));
      let ev = DPEventLoop::new(
        DomainInfo { domain_participant_guid: participant_guid, domain_id: 0, participant_id: 0 },
        Arc::new(RwLock::new(DDSCache::new())),
        HashMap::new(),
        discovery_db,
        own_prefix(),
        TokenReceiverPair { token: ADD_READER_TOKEN, receiver: add_reader_receiver },
        TokenReceiverPair { token: REMOVE_READER_TOKEN, receiver: remove_reader_receiver },
        TokenReceiverPair { token: ADD_WRITER_TOKEN, receiver: add_writer_receiver },
        TokenReceiverPair { token: REMOVE_WRITER_TOKEN, receiver: remove_writer_receiver },
        stop_poll_receiver,
        discovery_update_notification_receiver,
        discovery_command_sender,
        spdp_liveness_sender,
        participant_status_sender,
        None,
      );
      // the local reliable writer arrives the way DomainParticipant sends it
      let (cmd, writer_command_receiver) = mio_channel::sync_channel::<WriterCommand>(256);
      let (status_sender, status) = sync_status_channel::<DataWriterStatus>(16).unwrap();
      add_writer_sender
        .send(WriterIngredients {
          guid: GUID::new(own_prefix(), writer_eid()),
          writer_command_receiver,
          writer_command_receiver_waker: Arc::new(Mutex::new(None)),
          topic_name: TOPIC.to_string(),
          like_stateless: false,
          qos_policies: reliable_qos(),
          status_sender,
          security_plugins: None,
        })
        .unwrap();
      keep.push(Box::new(add_writer_sender));
      let mut h = Harness { ev, cmd, _status: status, written: 0, ctx, _keep: keep };
      h.run_until_idle();
      assert!(h.ev.writers.contains_key(&writer_eid()), "XC-WITNESS label=c06.evloop.setup {}: the writer sent through the add-writer channel was not added", h.ctx);
      // two reliable remote readers (no locators: nothing is ever sent to the network)
      for p in [1, 2] {
        let g = reader_guid(p);
        let _ = h.ev.remote_reader_discovered(&DiscoveredReaderData {
          reader_proxy: ReaderProxy::new(g, false, vec![], vec![]),
          subscription_topic_data: SubscriptionBuiltinTopicData::new(g, None, TOPIC.to_string(), "xc_type".to_string(), &reliable_qos(), None),
          content_filter: None,
        });
      }
      h
    }

    fn write_samples(&mut self, k: i64) {
      for _ in 0..k {
        self.written += 1;
        self.cmd.send(WriterCommand::DDSData {
          ddsdata: DDSData::new(SerializedPayload::new(RepresentationIdentifier::CDR_LE, vec![0u8; 4])),
          write_options: WriteOptions::default(),
          sequence_number: SequenceNumber::new(self.written),
        }).unwrap();
      }
      self.run_until_idle();
    }

    // DataWriter::wait_for_acknowledgments, the event-loop side of it
    fn start_wait(&mut self) -> StatusChannelReceiver<()> {
      let (all_acked, rx) = sync_status_channel::<()>(4).unwrap();
      self.cmd.send(WriterCommand::WaitForAcknowledgments { all_acked }).unwrap();
      self.run_until_idle();
      rx
    }

    fn receive(&mut self, datagram: &Bytes) {
      self.ev.message_receiver.handle_received_packet(datagram);
    }
  }

  fn completions(rx: &StatusChannelReceiver<()>) -> usize {
    let mut n = 0;
    while rx.try_recv().is_ok() { n += 1; }
    n
  }

  fn acknack(p: usize, base: i64, count: i32) -> crate::rtps::Submessage {
    let flags = BitFlags::<ACKNACK_Flags>::from_flag(ACKNACK_Flags::Endianness) | BitFlags::<ACKNACK_Flags>::from_flag(ACKNACK_Flags::Final);
    AckNack { reader_id: reader_guid(p).entity_id, writer_id: writer_eid(), reader_sn_state: SequenceNumberSet::new_empty(SequenceNumber::new(base)), count }.create_submessage(flags)
  }
  // one datagram from peer p with the ACKNACKs (base, count) given
  fn datagram(p: usize, acks: &[(i64, i32)]) -> Vec<u8> {
    let mut message = Message::new(Header::new(peer_prefix(p)));
    for &(base, count) in acks { message.add_submessage(acknack(p, base, count)); }
    message.write_to_vec_with_ctx(Endianness::LittleEndian).unwrap()
  }

  fn garbage_datagram(kind: usize, p: usize) -> Vec<u8> {
    let header = datagram(p, &[]); // 20 bytes RTPS header
    match kind % 5 {
      0 => vec![0xEE; 37],                                        // not RTPS at all
      1 => header[..11].to_vec(),                                 // truncated header
      2 => [&header[..], &[0x06, 0x01, 0xFF, 0x7F, 1, 2, 3][..]].concat(), // ACKNACK header announcing 32767 bytes, 3 present
      3 => {                                                      // ACKNACK whose bitmap claims 0xFFFFFFFF bits
        let mut v = datagram(p, &[(1, 1)]);
        let l = v.len();
        v[l - 8..l - 4].copy_from_slice(&[0xFF; 4]);
        v
      }
      _ => [&header[..], &[0x7E, 0x01, 0x04, 0x00, 9, 9, 9, 9, 0x06][..]].concat(), // unknown submessage id, then a lone byte
    }
  }
  // a malformed submessage to put between well-formed ACKNACK submessages of one datagram
  fn garbage_submessage(kind: usize) -> Vec<u8> {
    match kind % 3 {
      0 => vec![0x06, 0x01, 0x18, 0x00, 0xFF, 0xFF, 0xFF],        // ACKNACK cut short (length says 24)
      1 => vec![0x06, 0x01, 0x00, 0x00],                          // ACKNACK with length 0 in the middle
      _ => vec![0x15, 0x01, 0xFF, 0xFF],                          // DATA announcing 65535 bytes
    }
  }

  #[derive(Clone, Copy, Debug)]
  enum Shape {
    OneDatagram,
    ManyDatagrams,
    ManyDatagramsGarbageBetween,
    OneDatagramGarbageInside(usize),
  }

  fn burst_case(n: i64, shape: Shape) {
    let mut h = Harness::new(format!("burst={} shape={:?}", n, shape));
    h.write_samples(n);
    // ---- (a)
    let wait1 = h.start_wait();
    h.receive(&Bytes::from(datagram(2, &[(n + 1, 1)]))); // the well-behaved peer has everything
    h.run_until_idle();
    assert!(completions(&wait1) == 0, "XC-WITNESS label=c06.evloop.acknack {}: wait_for_acknowledgments completed although reader R1 has acknowledged nothing", h.ctx);
    let acks: Vec<(i64, i32)> = (1..=n).map(|k| (k + 1, k as i32)).collect();
    let mut clean = true;
    match shape {
      Shape::OneDatagram => h.receive(&Bytes::from(datagram(1, &acks))),
      Shape::ManyDatagrams => {
        for a in &acks { h.receive(&Bytes::from(datagram(1, &[*a]))); }
      }
      Shape::ManyDatagramsGarbageBetween => {
        for (i, a) in acks.iter().enumerate() {
          h.receive(&Bytes::from(garbage_datagram(i, 1 + i % 2)));
          h.receive(&Bytes::from(datagram(1, &[*a])));
        }
        h.receive(&Bytes::from(garbage_datagram(3, 1)));
      }
      Shape::OneDatagramGarbageInside(kind) => {
        clean = false;
        let cut = acks.len() / 2;
        let mut bytes = datagram(1, &acks[..cut]);
        bytes.extend_from_slice(&garbage_submessage(kind));
        bytes.extend_from_slice(&datagram(1, &acks[cut..])[20..]);
        h.receive(&Bytes::from(bytes));
      }
    }
    let handled = h.run_until_idle();
    if !clean {
      // the datagram may have been discarded (as a whole or from the bad submessage on): the peer
      // repeats its last, well-formed ACKNACK — that one must get through
      let _ = completions(&wait1);
      let wait1b = h.start_wait();
      h.receive(&Bytes::from(datagram(1, &[(n + 1, n as i32 + 1)])));
      h.run_until_idle();
      let c = completions(&wait1b) + completions(&wait1);
      assert!(c >= 1, "XC-WITNESS label=c06.evloop.after_garbage {}: after a datagram with a malformed submessage, a well-formed ACKNACK (base {}) from the same reader was not processed: wait_for_acknowledgments did not complete", h.ctx, n + 1);
    } else {
      let c = completions(&wait1);
      assert!(c == 1, "XC-WITNESS label=c06.evloop.acknack {}: {} ACKNACKs (bases 2..={}) were received, the event loop ran until idle ({} events), but wait_for_acknowledgments completed {} times (required 1): the last ACKNACK of the burst never reached the writer", h.ctx, n, n + 1, handled, c);
    }
    let left = std::iter::from_fn(|| h.ev.ack_nack_receiver.try_recv().ok()).count();
    assert!(left == 0, "XC-WITNESS label=c06.evloop.acknack {}: the event loop is idle but {} ACKNACKs are still queued between MessageReceiver and the writers", h.ctx, left);
    // ---- (b) the participant keeps responding: a later, single ACKNACK per peer with a higher base
    h.write_samples(1);
    let wait2 = h.start_wait();
    assert!(completions(&wait2) == 0, "XC-WITNESS label=c06.evloop.acknack {}: second wait completed before anybody acknowledged sample {}", h.ctx, n + 1);
    h.receive(&Bytes::from(datagram(1, &[(n + 2, n as i32 + 2)])));
    h.receive(&Bytes::from(garbage_datagram(n as usize, 2)));
    h.receive(&Bytes::from(datagram(2, &[(n + 2, 2)])));
    let handled = h.run_until_idle();
    let c = completions(&wait2);
    assert!(c == 1, "XC-WITNESS label=c06.evloop.responsive {}: after the burst, one further well-formed ACKNACK (base {}) from each of the two readers was received and the event loop ran until idle ({} events), but wait_for_acknowledgments completed {} times (required 1): the participant no longer processes ACKNACKs", h.ctx, n + 2, handled, c);
  }

  const SIZES: [i64; 8] = [1, 2, 31, 32, 33, 64, 99, 100];

  #[test]
  fn xc_acknack_burst_one_datagram() {
    let mut cases = 0;
    for n in SIZES { burst_case(n, Shape::OneDatagram); cases += 1; }
    assert!(cases == 8, "vacuity guard: {} cases", cases);
  }
  #[test]
  fn xc_acknack_burst_many_datagrams() {
    let mut cases = 0;
    for n in SIZES { burst_case(n, Shape::ManyDatagrams); cases += 1; }
    assert!(cases == 8, "vacuity guard: {} cases", cases);
  }
  #[test]
  fn xc_acknack_burst_garbage_between() {
    let mut cases = 0;
    for n in SIZES { burst_case(n, Shape::ManyDatagramsGarbageBetween); cases += 1; }
    assert!(cases == 8, "vacuity guard: {} cases", cases);
  }
  #[test]
  fn xc_acknack_burst_garbage_inside() {
    let mut cases = 0;
    for n in SIZES {
      for kind in 0..3 { burst_case(n, Shape::OneDatagramGarbageInside(kind)); cases += 1; }
    }
    assert!(cases == 24, "vacuity guard: {} cases", cases);
  }
}
