//@ append: src/rtps/fragment_assembler.rs
// Executable contract of fragmentation + reassembly (C05, negative side C06) on the REAL code —
// bounded stand-in / witness search.  Path under test, end to end: CacheChange ->
// MessageBuilder::data_frag_msg (as Writer::send_cache_change calls it, one fragment per
// submessage) -> Writable (wire bytes) -> Message::read_from_buffer -> FragmentAssembler::new_datafrag.
// Oracle, written from the property statement (model = per sequence number the set of distinct
// fragment numbers that arrived since its last delivery):
//   frag.count.ceil / frag.msg   the sample of size S is announced as n = ceil(S / fs) fragments;
//                                fragment k carries bytes [(k-1)*fs, min(k*fs, S)) of what was written
//   frag.incomplete.none         new_datafrag returns None while the distinct fragment numbers seen
//                                for that sample do not cover 1..=n (any order, any duplication)
//   frag.complete.only / frag.deliver   exactly at the arrival that completes 1..=n it returns the
//                                sample, whose wire bytes (representation id ++ options ++ value)
//                                equal the bytes written; data vs dispose-by-key follows the Key flag
//   frag.once                    after a delivery nothing is delivered for that sample until all of
//                                its fragments have arrived again
//   frag.frame                   fragments of other samples (same writer) and of other writers
//                                (another assembler) interleaved in any way change nothing of this
//   frag.partial / frag.missing  is_partially_received / missing_frags_for agree with the model
//   frag.insert.ignore / valid.frag.nopanic   a receiver-accepted DATAFRAG that does not fit the
//                                buffer under assembly (fragment numbers past the end, other fragment
//                                size / data size) is ignored: no panic, no delivery, and every other
//                                sample is still delivered exactly when complete, with the right bytes
// Bound: value lengths 1..=24 (sample sizes 5..=28) x fragment sizes 1..=9 (only where the writer
//   fragments: size > fragment size), both byte orders, data and dispose-by-key.  Arrival orders:
//   n <= 4 fragments: every word over the fragment numbers up to length 5 (n = 2, 3) / 6 (n = 4) —
//   that is every permutation and every duplication pattern of that length; n > 4: in order,
//   reversed, every rotation, evens-then-odds, each twice, first repeated after each, all-but-last
//   twice then last, the full set twice, reversed with duplicates.  Interleaving: a second sample
//   (other sequence number, other length, possibly incomplete) merged in every way for <= 7
//   arrivals, else by 4 merge patterns, plus a second writer (own assembler, other fragment size,
//   SAME sequence number) round-robin.  Several fragments per submessage: chunks of 2 and 3.
//   Inconsistent DATAFRAGs: on the sample under assembly (count overrun, count 0) at every
//   position; on a fresh sequence number every receiver-accepted pair with data_size 1..=10,
//   fragment_size 1..=5, every start, count in {0,1,2,65535} against assembler sizes {2,4,5}
//   (singly against 1..=6).  Real Writer: every (length, fragment size) case once through
//   Writer::process_writer_command over a 127.0.0.1 UDP socket (reads the clock, no sleeps), every
//   second sample written with a related_sample_identity.  Inline QoS (Q flag) in every DATAFRAG:
//   every case with a related_sample_identity (real builder) and with PID_KEY_HASH + sentinel in a
//   hand-made wire image, in order / reversed / reversed-doubled, interleaved with a second sample.
//   Whole receive path (frag.msgrx.deliver): every case (incl. sizes that are exact multiples of
//   the fragment size) x both byte orders x in order / reversed as serialized messages through
//   MessageReceiver::handle_received_packet into a real Reader and its topic cache; real Writer
//   (fragment size 1024) -> UDP -> MessageReceiver for sizes 1024*m + {-1,0,1}, m = 1..=3.
#[cfg(test)]
mod verif_xc_fragments {
  use std::{
    collections::{BTreeMap, BTreeSet},
    panic::{catch_unwind, AssertUnwindSafe},
  };

  use bytes::Bytes;
  use speedy::{Endianness, Writable};

  use super::*;
  use crate::{
    dds::{
      qos::QosPolicies,
      statusevents::{sync_status_channel, DataWriterStatus},
      with_key::{WriteOptions, WriteOptionsBuilder},
    },
    messages::submessages::{submessage::WriterSubmessage, submessage_flag::FromEndianness},
    network::udp_sender::UDPSender,
    rtps::{
      rtps_reader_proxy::RtpsReaderProxy,
      writer::{Writer, WriterCommand, WriterIngredients},
      Message, MessageBuilder, SubmessageBody,
    },
    structure::{
      cache_change::CacheChange,
      guid::{EntityId, EntityKind, GuidPrefix, GUID},
      locator::Locator,
      rpc::SampleIdentity,
    },
    RepresentationIdentifier,
  };

  type Frag = (DataFrag, BitFlags<DATAFRAG_Flags>);

  #[derive(Clone)]
  struct Sample {
    sn: i64,
    key: bool,
    fs: u16,
    full: Vec<u8>,    // what was written: representation id ++ options ++ value
    frags: Vec<Frag>, // frags[k-1] = the writer's DATAFRAG for fragment k, after a trip over the wire
  }
  impl Sample {
    fn n(&self) -> u32 { self.frags.len() as u32 }
    fn what(&self) -> String { format!("sample(sn={} size={} fs={} n={} key={})", self.sn, self.full.len(), self.fs, self.frags.len(), self.key) }
  }

  fn wguid(w: u8) -> GUID {
    GUID::new(GuidPrefix::new(&[w; 12]), EntityId::new([0, w, 1], EntityKind::WRITER_WITH_KEY_USER_DEFINED))
  }
  fn ceil_div(a: usize, b: usize) -> usize { (a + b - 1) / b }

  // the first (only) DATAFRAG of a message
  fn datafrag_of(m: &Message) -> Option<Frag> {
    match m.submessages.first() {
      Some(sm) => match &sm.body {
        SubmessageBody::Writer(WriterSubmessage::DataFrag(df, f)) if m.submessages.len() == 1 => Some((df.clone(), *f)),
        _ => None,
      },
      None => None,
    }
  }

  // what the application writes: (DDSData, its wire bytes = representation id ++ options ++ value)
  fn written(w: u8, sn: i64, vlen: usize, key: bool) -> (DDSData, Vec<u8>) {
    let value: Vec<u8> = (0..vlen).map(|i| ((w as usize * 31 + sn as usize * 17 + i * 37) % 255 + 1) as u8).collect();
    let payload = SerializedPayload {
      representation_identifier: RepresentationIdentifier { bytes: [0xC3, 0x01] },
      representation_options: [0x5A, 0xA5],
      value: Bytes::from(value.clone()),
    };
    let mut full = vec![0xC3, 0x01, 0x5A, 0xA5];
    full.extend_from_slice(&value);
    (if key { DDSData::new_disposed_by_key(ChangeKind::NotAliveDisposed, payload) } else { DDSData::new(payload) }, full)
  }

  // Fragment a sample exactly as the writer does and carry every DATAFRAG over the wire.
  fn make_sample(w: u8, sn: i64, vlen: usize, fs: u16, key: bool, e: Endianness) -> Sample {
    make_sample_q(w, sn, vlen, fs, key, e, Q::None)
  }

  // inline QoS carried by every DATAFRAG of the sample
  #[derive(Clone, Copy, PartialEq, Debug)]
  enum Q {
    None,
    Rsi,            // written with a related_sample_identity: the real builder adds the inline QoS
    ForeignKeyHash, // as other vendors send it: PID_KEY_HASH + sentinel, wire image made by hand
  }
  fn rsi_options() -> WriteOptions {
    WriteOptionsBuilder::new().related_sample_identity(SampleIdentity { writer_guid: wguid(9), sequence_number: SequenceNumber::new(0x0102_0304_0506_0708) }).build()
  }
  // a whole RTPS message with one DATAFRAG carrying inline QoS {PID_KEY_HASH}, byte by byte (RTPS 9.4.5.5)
  fn foreign_image(w: u8, sn: i64, k: u32, size: u32, fs: u16, key: bool, payload: &[u8], e: Endianness) -> Vec<u8> {
    let le = e == Endianness::LittleEndian;
    let u16b = |x: u16| if le { x.to_le_bytes().to_vec() } else { x.to_be_bytes().to_vec() };
    let u32b = |x: u32| if le { x.to_le_bytes().to_vec() } else { x.to_be_bytes().to_vec() };
    let mut v = b"RTPS".to_vec();
    v.extend_from_slice(&[2, 3, 0x01, 0x03]); // version 2.3, some other vendor
    v.extend_from_slice(&wguid(w).prefix.bytes);
    v.extend_from_slice(&[0x16, (le as u8) | 0x02 | if key { 0x04 } else { 0 }]);
    v.extend(u16b((32 + 24 + payload.len()) as u16));
    v.extend(u16b(0)); // extraFlags
    v.extend(u16b(28)); // octetsToInlineQos
    v.extend_from_slice(&[0, 0, 0, 0]); // readerId
    v.extend_from_slice(&wguid(w).entity_id.to_slice());
    v.extend(u32b((sn >> 32) as u32));
    v.extend(u32b(sn as u32));
    v.extend(u32b(k));
    v.extend(u16b(1)); // fragmentsInSubmessage
    v.extend(u16b(fs));
    v.extend(u32b(size));
    v.extend(u16b(0x0070)); // PID_KEY_HASH
    v.extend(u16b(16));
    v.extend_from_slice(&[0xE1, 0xE2, 0xE3, 0xE4, 0xE5, 0xE6, 0xE7, 0xE8, 0xE9, 0xEA, 0xEB, 0xEC, 0xED, 0xEE, 0xEF, 0xF0]);
    v.extend(u16b(0x0001)); // PID_SENTINEL
    v.extend(u16b(0));
    v.extend_from_slice(payload);
    v
  }

  fn make_sample_q(w: u8, sn: i64, vlen: usize, fs: u16, key: bool, e: Endianness, q: Q) -> Sample {
    let (data, full) = written(w, sn, vlen, key);
    let size = full.len();
    let what = format!("writer={} sn={} size={} fs={} key={} inline_qos={:?} {:?}", w, sn, size, fs, key, q, e);
    assert!(size > fs as usize, "bad enumeration: {}", what);
    assert!(data.payload_size() == size, "XC-WITNESS label=frag.slice.len {}: payload_size() = {} but the sample has {} wire bytes", what, data.payload_size(), size);
    let cc = CacheChange::new(wguid(w), SequenceNumber::new(sn), if q == Q::Rsi { rsi_options() } else { WriteOptions::default() }, data);
    let n = ceil_div(size, fs as usize); // "split": the number of fragments of the property statement
    let mut frags = vec![];
    for k in 1..=n {
      let (from, to) = ((k - 1) * fs as usize, std::cmp::min(k * fs as usize, size));
      let got = if q == Q::ForeignKeyHash {
        let wire = Bytes::from(foreign_image(w, sn, k as u32, size as u32, fs, key, &full[from..to], e));
        let parsed = Message::read_from_buffer(&wire);
        assert!(parsed.is_ok(), "XC-WITNESS label=frag.lemma.honest_valid {} fragment={}: a well-formed DATAFRAG with inline QoS is rejected by the parser: {:?}; bytes {:?}", what, k, parsed.err(), &wire[..]);
        let got = datafrag_of(&parsed.unwrap());
        assert!(got.is_some(), "XC-WITNESS label=frag.msg {} fragment={}: the message did not parse to one DATAFRAG; bytes {:?}", what, k, &wire[..]);
        got
      } else {
        let msg = MessageBuilder::new()
          .data_frag_msg(&cc, EntityId::UNKNOWN, wguid(w), FragmentNumber::new(k as u32), fs, size as u32, e, None)
          .add_header_and_build(wguid(w).prefix);
        let built = datafrag_of(&msg);
        assert!(built.is_some(), "XC-WITNESS label=frag.msg {} fragment={}: data_frag_msg did not produce exactly one DATAFRAG: {:?}", what, k, msg);
        let wire = Bytes::from(msg.write_to_vec_with_ctx(e).unwrap());
        let parsed = Message::read_from_buffer(&wire);
        assert!(parsed.is_ok(), "XC-WITNESS label=frag.lemma.honest_valid {} fragment={}: the writer's own DATAFRAG is rejected by the parser: {:?}", what, k, parsed.err());
        let got = datafrag_of(&parsed.unwrap());
        assert!(got == built, "XC-WITNESS label=frag.msg {} fragment={}: DATAFRAG built {:?} but after the wire {:?}", what, k, built, got);
        got
      };
      let (df, flags) = got.unwrap();
      assert!(
        df.writer_sn == SequenceNumber::new(sn) && u32::from(df.fragment_starting_num) == k as u32 && df.fragments_in_submessage == 1 && df.data_size as usize == size && df.fragment_size == fs
          && flags.contains(DATAFRAG_Flags::Key) == key && flags.contains(DATAFRAG_Flags::InlineQos) == (q != Q::None)
          && df.inline_qos.as_ref().map_or(0, |l| l.parameters.len()) == match q { Q::None => 0, Q::Rsi => 2, Q::ForeignKeyHash => 1 },
        "XC-WITNESS label=frag.msg {} fragment={}: wrong DATAFRAG fields/flags: {:?} flags {:?}", what, k, df, flags);
      assert!(df.serialized_payload[..] == full[from..to], "XC-WITNESS label=frag.msg {} fragment={}: carries {:?}, bytes [{}, {}) of what was written are {:?}", what, k, &df.serialized_payload[..], from, to, &full[from..to]);
      assert!(u32::from(df.total_number_of_fragments()) as usize == n, "XC-WITNESS label=frag.count.ceil {} fragment={}: reader expects {} fragments, ceil(size/fs) = {}", what, k, u32::from(df.total_number_of_fragments()), n);
      frags.push((df, flags));
    }
    Sample { sn, key, fs, full, frags }
  }

  fn wire_bytes(d: &DDSData) -> (bool, Vec<u8>) {
    let of = |p: &SerializedPayload| {
      let mut v = p.representation_identifier.bytes.to_vec();
      v.extend_from_slice(&p.representation_options);
      v.extend_from_slice(&p.value);
      v
    };
    match d {
      DDSData::Data { serialized_payload } => (false, of(serialized_payload)),
      DDSData::DisposeByKey { key, .. } => (true, of(key)),
      DDSData::DisposeByKeyHash { .. } => (true, vec![]),
    }
  }

  // One assembler (= one remote writer) together with the model of the property statement.
  struct Run<'a> {
    what: String,
    asm: FragmentAssembler,
    seen: BTreeMap<i64, BTreeSet<u32>>, // model: distinct fragment numbers since the last delivery
    samples: Vec<&'a Sample>,
    trace: Vec<String>,
    delivered: BTreeMap<i64, u32>,
    light: bool, // compare is_partially_received / missing_frags_for only where asked
    opened: BTreeSet<i64>, // an ignored DATAFRAG was the first arrival for this sample: an empty buffer may exist
  }
  impl<'a> Run<'a> {
    fn new(what: &str, fs: u16, samples: Vec<&'a Sample>) -> Self {
      Run { what: what.to_string(), asm: FragmentAssembler::new(fs), seen: BTreeMap::new(), samples, trace: vec![], delivered: BTreeMap::new(), light: false, opened: BTreeSet::new() }
    }
    fn ctx(&self) -> String {
      format!("{} samples=[{}] arrivals(sn:fragment)={:?}", self.what, self.samples.iter().map(|s| s.what()).collect::<Vec<_>>().join(", "), self.trace)
    }
    fn call(&mut self, label: &str, df: &DataFrag, flags: BitFlags<DATAFRAG_Flags>) -> Option<DDSData> {
      let asm = &mut self.asm;
      match catch_unwind(AssertUnwindSafe(|| asm.new_datafrag(df, flags))) {
        Ok(r) => r,
        Err(_) => panic!("XC-WITNESS label={} {}: new_datafrag PANICKED on the last arrival {:?}", label, self.ctx(), df),
      }
    }
    // `count` consecutive fragments of sample s starting at k arrive in the DATAFRAG (df, flags)
    fn feed_frag(&mut self, s: &Sample, k: u32, count: u32, df: &DataFrag, flags: BitFlags<DATAFRAG_Flags>) {
      self.trace.push(if count == 1 { format!("{}:{}", s.sn, k) } else { format!("{}:{}..{}", s.sn, k, k + count - 1) });
      let got = self.call("valid.frag.nopanic", df, flags);
      let (complete, have) = {
        let set = self.seen.entry(s.sn).or_default();
        for f in k..k + count { set.insert(f); }
        ((1..=s.n()).all(|f| set.contains(&f)), set.iter().copied().collect::<Vec<u32>>())
      };
      match got {
        None => {
          assert!(!complete, "XC-WITNESS label=frag.complete.only {}: all {} fragments of sn {} have arrived now but nothing was delivered", self.ctx(), s.n(), s.sn);
        }
        Some(d) => {
          assert!(complete, "XC-WITNESS label=frag.incomplete.none {}: a sample was delivered for sn {} although only fragments {:?} of 1..={} have arrived since its last delivery (delivered bytes {:?})", self.ctx(), s.sn, have, s.n(), wire_bytes(&d).1);
          let (is_key, bytes) = wire_bytes(&d);
          assert!(bytes == s.full, "XC-WITNESS label=frag.deliver {}: reassembled bytes {:?} differ from the bytes written {:?}", self.ctx(), bytes, s.full);
          assert!(is_key == s.key, "XC-WITNESS label=frag.deliver {}: sample written with key={} delivered as key={}", self.ctx(), s.key, is_key);
          self.seen.remove(&s.sn);
          self.opened.remove(&s.sn);
          *self.delivered.entry(s.sn).or_default() += 1;
        }
      }
      if !self.light { self.check_view(); }
    }
    fn feed(&mut self, s: &Sample, k: u32) {
      let (df, flags) = &s.frags[k as usize - 1];
      self.feed_frag(s, k, 1, df, *flags);
    }
    // a DATAFRAG that must be ignored: nothing delivered, the model unchanged
    fn feed_ignored(&mut self, label: &str, what: &str, df: &DataFrag, flags: BitFlags<DATAFRAG_Flags>) {
      self.trace.push(format!("{}[sn={} start={} count={} data_size={} fragment_size={} payload={}B]", what, i64::from(df.writer_sn), u32::from(df.fragment_starting_num), df.fragments_in_submessage, df.data_size, df.fragment_size, df.serialized_payload.len()));
      let got = self.call("valid.frag.nopanic", df, flags);
      let sn = i64::from(df.writer_sn);
      if self.seen.get(&sn).map_or(true, |m| m.is_empty()) { self.opened.insert(sn); }
      assert!(got.is_none(), "XC-WITNESS label={} {}: the last DATAFRAG brings no fragment of the sample (it reaches past the last fragment, or carries zero fragments) and must change nothing, but a sample was delivered: {:?}", label, self.ctx(), got);
      self.check_view();
    }
    // anything may happen to its own sequence number, but no panic
    fn feed_foreign(&mut self, what: &str, df: &DataFrag, flags: BitFlags<DATAFRAG_Flags>) -> Option<DDSData> {
      self.trace.push(format!("{}[sn={} start={} count={} data_size={} fragment_size={} payload={}B]", what, i64::from(df.writer_sn), u32::from(df.fragment_starting_num), df.fragments_in_submessage, df.data_size, df.fragment_size, df.serialized_payload.len()));
      self.call("valid.frag.nopanic", df, flags)
    }
    fn check_view(&self) {
      for s in &self.samples {
        let sn = SequenceNumber::new(s.sn);
        let model: BTreeSet<u32> = self.seen.get(&s.sn).cloned().unwrap_or_default();
        if model.is_empty() && self.opened.contains(&s.sn) { continue; } // "fresh": empty buffer or none
        let partial = self.asm.is_partially_received(sn);
        assert!(partial == !model.is_empty(), "XC-WITNESS label=frag.partial {}: is_partially_received(sn {}) = {} but the fragments that arrived since the last delivery are {:?}", self.ctx(), s.sn, partial, model);
        let missing: Vec<u32> = self.asm.missing_frags_for(sn).map(u32::from).collect();
        let want: Vec<u32> = if model.is_empty() { vec![] } else { (1..=s.n()).filter(|f| !model.contains(f)).collect() };
        assert!(missing == want, "XC-WITNESS label=frag.missing {}: missing_frags_for(sn {}) = {:?}, really missing {:?}", self.ctx(), s.sn, missing, want);
      }
    }
    // feed what is still missing of s in ascending order: delivery exactly at the last one
    fn complete(&mut self, s: &Sample) {
      let have = self.seen.get(&s.sn).cloned().unwrap_or_default();
      if have.is_empty() { return; }
      for k in (1..=s.n()).filter(|k| !have.contains(k)) { self.feed(s, k); }
    }
  }

  fn cases() -> Vec<(usize, u16, bool, Endianness)> {
    let mut v = vec![];
    for vlen in 1..=24usize {
      for fs in 1..=9u16 {
        if 4 + vlen > fs as usize {
          v.push((vlen, fs, (vlen + fs as usize) % 3 == 0, if (vlen + fs as usize) % 2 == 0 { Endianness::LittleEndian } else { Endianness::BigEndian }));
        }
      }
    }
    v
  }

  fn words(n: u32, max_len: usize) -> Vec<Vec<u32>> {
    let mut all: Vec<Vec<u32>> = vec![];
    let mut level: Vec<Vec<u32>> = vec![vec![]];
    for _ in 0..max_len {
      let mut next = vec![];
      for w in &level {
        for k in 1..=n {
          let mut x = w.clone();
          x.push(k);
          next.push(x);
        }
      }
      all.extend(next.iter().cloned());
      level = next;
    }
    all
  }
  fn permutations(items: &[u32]) -> Vec<Vec<u32>> {
    if items.len() <= 1 { return vec![items.to_vec()]; }
    let mut out = vec![];
    for i in 0..items.len() {
      let mut rest = items.to_vec();
      let x = rest.remove(i);
      for mut p in permutations(&rest) { p.insert(0, x); out.push(p); }
    }
    out
  }
  fn curated(n: u32) -> Vec<Vec<u32>> {
    let id: Vec<u32> = (1..=n).collect();
    let rev: Vec<u32> = id.iter().rev().copied().collect();
    let mut v = vec![id.clone(), rev.clone()];
    for r in 1..n as usize { let mut x = id.clone(); x.rotate_left(r); v.push(x); }
    v.push(id.iter().filter(|k| *k % 2 == 0).chain(id.iter().filter(|k| *k % 2 == 1)).copied().collect());
    v.push(id.iter().flat_map(|k| [*k, *k]).collect());
    v.push(id.iter().skip(1).flat_map(|k| [1, *k]).collect());
    v.push(id[..id.len() - 1].iter().chain(id[..id.len() - 1].iter()).chain(id[id.len() - 1..].iter()).copied().collect());
    v.push(id.iter().chain(id.iter()).copied().collect());
    v.push(rev.iter().flat_map(|k| if *k % 3 == 0 { vec![*k, *k, n] } else { vec![*k] }).collect());
    v.push(id[..id.len() - 1].iter().chain(rev.iter()).copied().collect());
    v
  }
  fn orders(n: u32) -> Vec<Vec<u32>> {
    match n {
      0..=3 => words(n, 5),
      4 => words(n, 6),
      _ => curated(n),
    }
  }

  #[test]
  fn xc_frag_every_order_and_duplication() {
    let (mut n_orders, mut n_arrivals, mut n_deliveries) = (0u64, 0u64, 0u64);
    for (vlen, fs, key, e) in cases() {
      let a = make_sample(1, 3, vlen, fs, key, e);
      for w in orders(a.n()) {
        let mut run = Run::new("one sample", fs, vec![&a]);
        for k in &w { run.feed(&a, *k); }
        run.complete(&a); // the progress made is kept: the missing rest completes it
        n_orders += 1;
        n_arrivals += run.trace.len() as u64;
        n_deliveries += run.delivered.values().map(|c| *c as u64).sum::<u64>();
      }
    }
    assert!(n_orders > 100_000 && n_arrivals > 500_000 && n_deliveries > 50_000, "vacuity guard: {} orders, {} arrivals, {} deliveries", n_orders, n_arrivals, n_deliveries);
  }

  // every DATAFRAG of the sample carries inline QoS (Q flag): put there by the real builder for a
  // related_sample_identity, or PID_KEY_HASH as other vendors send it (wire image made by hand)
  #[test]
  fn xc_frag_inline_qos_datafrags() {
    let mut n = 0u64;
    for (vlen, fs, key, e) in cases() {
      for q in [Q::Rsi, Q::ForeignKeyHash] {
        let a = make_sample_q(1, 3, vlen, fs, key, e, q);
        let b = make_sample_q(1, 4, vlen + 3, fs, !key, e, if q == Q::Rsi { Q::None } else { Q::Rsi });
        let id: Vec<u32> = (1..=a.n()).collect();
        // the doubled order ends with a second arrival of fragment 1 after the delivery: completing that is a second full set
        for (oi, order) in [id.clone(), id.iter().rev().copied().collect::<Vec<u32>>(), id.iter().rev().flat_map(|k| [*k, *k]).collect()].into_iter().enumerate() {
          let mut run = Run::new(&format!("DATAFRAGs with inline QoS ({:?})", q), fs, vec![&a, &b]);
          for (i, k) in order.iter().enumerate() {
            run.feed(&a, *k);
            if i < b.n() as usize { run.feed(&b, b.n() - i as u32); }
          }
          run.complete(&a);
          for k in 1..=b.n() { if run.delivered.get(&4).is_none() { run.feed(&b, k); } }
          let want = if oi == 2 { 2 } else { 1 };
          assert!(run.delivered.get(&3) == Some(&want) && run.delivered.get(&4) == Some(&1), "XC-WITNESS label=frag.complete.only {}: deliveries per sequence number {:?}, expected {} for 3 and 1 for 4", run.ctx(), run.delivered, want);
          n += 1;
        }
      }
    }
    assert!(n > 1000, "vacuity guard: {} runs", n);
  }

  // all ways to merge x and y keeping the order inside each
  fn merges(x: &[(usize, u32)], y: &[(usize, u32)]) -> Vec<Vec<(usize, u32)>> {
    if x.is_empty() { return vec![y.to_vec()]; }
    if y.is_empty() { return vec![x.to_vec()]; }
    let mut out = vec![];
    for mut m in merges(&x[1..], y) { m.insert(0, x[0]); out.push(m); }
    for mut m in merges(x, &y[1..]) { m.insert(0, y[0]); out.push(m); }
    out
  }
  fn merge_patterns(x: &[(usize, u32)], y: &[(usize, u32)]) -> Vec<Vec<(usize, u32)>> {
    if x.len() + y.len() <= 7 { return merges(x, y); }
    let alt = |p: &[(usize, u32)], q: &[(usize, u32)]| {
      let mut v = vec![];
      for i in 0..std::cmp::max(p.len(), q.len()) {
        if i < p.len() { v.push(p[i]); }
        if i < q.len() { v.push(q[i]); }
      }
      v
    };
    let h = x.len() / 2;
    vec![
      alt(x, y),
      alt(y, x),
      x[..h].iter().chain(y.iter()).chain(x[h..].iter()).copied().collect(),
      y[..y.len() - 1].iter().chain(x.iter()).chain(y[y.len() - 1..].iter()).copied().collect(),
    ]
  }
  fn some_orders(n: u32) -> Vec<Vec<u32>> {
    let id: Vec<u32> = (1..=n).collect();
    if n <= 3 {
      let mut v = permutations(&id);
      v.push(id.iter().flat_map(|k| [*k, *k]).collect());
      v
    } else {
      let mut rot = id.clone();
      rot.rotate_left(n as usize / 2);
      vec![id.clone(), id.iter().rev().copied().collect(), rot, id.iter().flat_map(|k| [*k, *k]).collect()]
    }
  }

  #[test]
  fn xc_frag_interleaved_samples_and_writers() {
    let (mut n_seq, mut n_deliveries) = (0u64, 0u64);
    for (vlen, fs, key, e) in cases() {
      let a = make_sample(1, 3, vlen, fs, key, e);
      let b = make_sample(1, 4, vlen + 3, fs, !key, e); // same writer: other sequence number, other length
      let fs2 = if fs == 9 { 8 } else { fs + 1 };
      let c = make_sample(2, 3, vlen + 1, fs2, key, e); // another writer: same sequence number, other fragment size
      let c_order: Vec<u32> = (1..=c.n()).rev().collect();
      for oa in some_orders(a.n()) {
        let xa: Vec<(usize, u32)> = oa.iter().map(|k| (0, *k)).collect();
        for (bi, ob) in some_orders(b.n()).into_iter().enumerate() {
          // every other order of b stays incomplete: its last arrival is dropped
          let ob: Vec<u32> = if bi % 2 == 1 { ob[..ob.len() - 1].to_vec() } else { ob };
          let xb: Vec<(usize, u32)> = ob.iter().map(|k| (1, *k)).collect();
          for m in merge_patterns(&xa, &xb) {
            let mut w1 = Run::new("writer 1 (interleaved with writer 2 round-robin)", fs, vec![&a, &b]);
            let mut w2 = Run::new("writer 2 (interleaved with writer 1 round-robin)", fs2, vec![&c]);
            let mut ci = 0;
            for (who, k) in &m {
              w1.feed(if *who == 0 { &a } else { &b }, *k);
              if ci < c_order.len() { w2.feed(&c, c_order[ci]); ci += 1; }
            }
            while ci < c_order.len() { w2.feed(&c, c_order[ci]); ci += 1; }
            w1.complete(&a);
            w1.complete(&b);
            assert!(w2.delivered.get(&3) == Some(&1), "XC-WITNESS label=frag.frame {}: the other writer's sample was delivered {:?} times instead of once", w2.ctx(), w2.delivered.get(&3));
            n_seq += 1;
            n_deliveries += w1.delivered.values().map(|c| *c as u64).sum::<u64>();
          }
        }
      }
    }
    assert!(n_seq > 20_000 && n_deliveries > 30_000, "vacuity guard: {} interleavings, {} deliveries", n_seq, n_deliveries);
  }

  // a DATAFRAG as the receive path would hand it over: written, parsed, and passing the
  // message receiver's payload-length check
  fn received(df: &DataFrag, key: bool, e: Endianness) -> Option<Frag> {
    let mut flags = BitFlags::<DATAFRAG_Flags>::from_endianness(e);
    if key { flags |= DATAFRAG_Flags::Key; }
    let wire = Bytes::from(df.write_to_vec_with_ctx(e).unwrap());
    match DataFrag::deserialize(&wire, flags) {
      Ok(d) if d.serialized_payload.len() <= d.fragments_in_submessage as usize * d.fragment_size as usize => Some((d, flags)),
      _ => None,
    }
  }
  fn raw(sn: i64, start: u32, count: u16, data_size: u32, fragment_size: u16, payload: Vec<u8>) -> DataFrag {
    DataFrag {
      reader_id: EntityId::UNKNOWN,
      writer_id: wguid(1).entity_id,
      writer_sn: SequenceNumber::new(sn),
      fragment_starting_num: FragmentNumber::new(start),
      fragments_in_submessage: count,
      data_size,
      fragment_size,
      inline_qos: None,
      serialized_payload: Bytes::from(payload),
    }
  }

  #[test]
  fn xc_frag_several_fragments_per_submessage() {
    let mut n = 0u64;
    for (vlen, fs, key, e) in cases() {
      let a = make_sample(1, 3, vlen, fs, key, e);
      let size = a.full.len();
      for chunk in [2u32, 3] {
        let starts: Vec<u32> = (1..=a.n()).step_by(chunk as usize).collect();
        for reversed in [false, true] {
          let order: Vec<u32> = if reversed { starts.iter().rev().copied().collect() } else { starts.clone() };
          let mut run = Run::new(&format!("{} fragments per DATAFRAG", chunk), fs, vec![&a]);
          // one single fragment first (a duplicate of what a chunk brings later)
          run.feed(&a, a.n());
          for k in order {
            let count = std::cmp::min(chunk, a.n() - k + 1);
            let (from, to) = ((k as usize - 1) * fs as usize, std::cmp::min((k + count - 1) as usize * fs as usize, size));
            let f = received(&raw(a.sn, k, count as u16, size as u32, fs, a.full[from..to].to_vec()), key, e);
            assert!(f.is_some(), "XC-WITNESS label=frag.lemma.honest_valid {}: a well-formed DATAFRAG with {} fragments starting at {} is rejected by the receive path", run.ctx(), count, k);
            let (df, flags) = f.unwrap();
            run.feed_frag(&a, k, count, &df, flags);
          }
          assert!(run.delivered.get(&3) == Some(&1), "XC-WITNESS label=frag.complete.only {}: delivered {:?} times instead of once", run.ctx(), run.delivered.get(&3));
          n += 1;
        }
      }
    }
    assert!(n > 700, "vacuity guard: {} runs", n);
  }

  #[test]
  fn xc_frag_inconsistent_on_sample_under_assembly() {
    let mut n = 0u64;
    for (vlen, fs, key, e) in cases() {
      let a = make_sample(1, 3, vlen, fs, key, e);
      let b = make_sample(1, 4, vlen + 3, fs, !key, e);
      let size = a.full.len() as u32;
      let pick = |v: Vec<u32>| -> Vec<u32> { v.into_iter().collect::<BTreeSet<u32>>().into_iter().collect() };
      for pos in pick(vec![0, 1, a.n() / 2, a.n() - 1]) {
        // bad DATAFRAGs aimed at sample a after `pos` of its fragments have arrived
        for k in pick(vec![1, a.n() / 2 + 1, a.n()]) {
          for (what, count, plen) in [("overrun", (a.n() - k + 2) as u16, 2 * fs as usize), ("overrun-max", u16::MAX, fs as usize), ("empty", 0u16, 0usize)] {
            let f = received(&raw(a.sn, k, count, size, fs, vec![0xEE; plen]), key, e);
            if f.is_none() { continue; }
            let (df, flags) = f.unwrap();
            let mut run = Run::new("inconsistent DATAFRAG on the sample under assembly", fs, vec![&a, &b]);
            run.feed(&b, 1);
            for j in 1..=pos { run.feed(&a, j); }
            run.feed_ignored("frag.insert.ignore", what, &df, flags);
            for j in pos + 1..=a.n() { run.feed(&a, j); }
            run.complete(&b);
            assert!(run.delivered.get(&3) == Some(&1) && run.delivered.get(&4) == Some(&1), "XC-WITNESS label=frag.insert.ignore {}: deliveries per sequence number {:?}, expected one each", run.ctx(), run.delivered);
            n += 1;
          }
        }
      }
    }
    assert!(n > 4_000, "vacuity guard: {} runs", n);
  }

  // every receiver-accepted DATAFRAG geometry in a small range
  fn geometries(sn: i64, counts: &[u16], e: Endianness) -> Vec<Frag> {
    let mut v = vec![];
    for data_size in 1..=10u32 {
      for fragment_size in 1..=std::cmp::min(data_size, 5) as u16 {
        let total = ceil_div(data_size as usize, fragment_size as usize) as u32;
        for start in 1..=total {
          for count in counts {
            let plen = std::cmp::min(*count as usize * fragment_size as usize, 12);
            if let Some(f) = received(&raw(sn, start, *count, data_size, fragment_size, vec![0xDD; plen]), false, e) { v.push(f); }
          }
        }
      }
    }
    v
  }

  #[test]
  fn xc_frag_inconsistent_on_other_sequence_number() {
    let e = Endianness::LittleEndian;
    let first = geometries(9, &[1], e);
    let second = geometries(9, &[0, 1, 2, u16::MAX], e);
    assert!(first.len() > 100 && second.len() > 300, "vacuity guard: {} / {} receiver-accepted geometries", first.len(), second.len());
    let mut n = 0u64;
    // alone on a fresh assembler: no panic, and one that reaches past the last fragment of the sample
    // it announces delivers nothing
    for fs in 1..=6u16 {
      for (d, f) in &second {
        let mut run = Run::new("a single DATAFRAG of arbitrary geometry", fs, vec![]);
        let r = run.feed_foreign("foreign", d, *f);
        let total = ceil_div(d.data_size as usize, d.fragment_size as usize) as u32;
        if u32::from(d.fragment_starting_num) - 1 + d.fragments_in_submessage as u32 > total {
          assert!(r.is_none(), "XC-WITNESS label=frag.insert.ignore {}: the DATAFRAG reaches past the last fragment ({}) of the sample it announces, yet a sample was delivered: {:?}", run.ctx(), total, r);
        }
        n += 1;
      }
    }
    for fs in [2u16, 4, 5] {
      let a = make_sample(1, 3, 5, fs, false, e);
      let b = make_sample(1, 4, 7, fs, true, e);
      for (d1, f1) in &first {
        for (d2, f2) in &second {
          let mut run = Run::new("DATAFRAGs of arbitrary geometry on another sequence number", fs, vec![&a, &b]);
          run.feed(&a, 1);
          run.feed(&b, b.n());
          run.light = true;
          run.feed_foreign("foreign", d1, *f1);
          run.feed_foreign("foreign", d2, *f2);
          run.check_view();
          for j in 2..=a.n() { run.feed(&a, j); }
          for j in 1..b.n() { run.feed(&b, j); }
          assert!(run.delivered.get(&3) == Some(&1) && run.delivered.get(&4) == Some(&1), "XC-WITNESS label=frag.frame {}: deliveries per sequence number {:?}, expected one each for 3 and 4", run.ctx(), run.delivered);
          n += 1;
        }
      }
    }
    assert!(n > 100_000, "vacuity guard: {} runs", n);
  }

  // The REAL Writer fragments and sends (process_writer_command -> send_cache_change ->
  // num_frags_and_frag_size / data_frag_msg per fragment -> UDP 127.0.0.1); what arrives is parsed
  // and given to a real FragmentAssembler.  Stands in for the writer's send loop.
  #[test]
  fn xc_frag_real_writer_over_loopback() {
    use std::{net::{SocketAddr, UdpSocket}, rc::Rc, sync::{Arc, Mutex}};
    let sock = UdpSocket::bind("127.0.0.1:0").unwrap();
    sock.set_read_timeout(Some(std::time::Duration::from_millis(500))).unwrap();
    let to: SocketAddr = sock.local_addr().unwrap();
    let (cmd_s, writer_command_receiver) = mio_extras::channel::sync_channel::<WriterCommand>(4);
    let (status_sender, _status_r) = sync_status_channel::<DataWriterStatus>(16).unwrap();
    let (participant_status_sender, _pr) = sync_status_channel(16).unwrap();
    let ing = WriterIngredients {
      guid: GUID::dummy_test_guid(EntityKind::WRITER_WITH_KEY_USER_DEFINED),
      writer_command_receiver,
      writer_command_receiver_waker: Arc::new(Mutex::new(None)),
      topic_name: "verif_xc_fragments".to_string(),
      like_stateless: false,
      qos_policies: QosPolicies::qos_none(),
      status_sender,
      security_plugins: None,
    };
    let mut w = Writer::new(ing, Rc::new(UDPSender::new(0).unwrap()), mio_extras::timer::Builder::default().build(), participant_status_sender);
    let mut rp = RtpsReaderProxy::new(GUID::dummy_test_guid(EntityKind::READER_WITH_KEY_USER_DEFINED), QosPolicies::qos_none(), false);
    rp.unicast_locator_list = vec![Locator::from(to)];
    w.update_reader_proxy(&rp, &QosPolicies::qos_none());

    let (mut sn, mut n_frags) = (0i64, 0u64);
    for (vlen, fs, key, e) in cases() {
      sn += 1;
      let (data, full) = written(7, sn, vlen, key);
      let size = full.len();
      let n = ceil_div(size, fs as usize) as u32;
      let what = format!("real Writer: data_max_size_serialized={} sample(sn={} size={} key={}) {:?}", fs, sn, size, key, e);
      w.data_max_size_serialized = fs as usize;
      w.endianness = e;
      let rsi = sn % 2 == 0; // every second sample is written with a related_sample_identity -> inline QoS in its DATAFRAGs
      cmd_s.send(WriterCommand::DDSData { ddsdata: data, write_options: if rsi { rsi_options() } else { WriteOptions::default() }, sequence_number: SequenceNumber::new(sn) }).unwrap();
      w.process_writer_command();

      // collect the datagrams of this sample: the DATAFRAGs, then the HEARTBEAT that follows them
      let mut got: Vec<Frag> = vec![];
      let mut buf = [0u8; 2048];
      loop {
        let len = match sock.recv(&mut buf) {
          Ok(l) => l,
          Err(_) => panic!("XC-WITNESS label=frag.count.ceil {}: the sample must be split into {} fragments followed by a HEARTBEAT, but after DATAFRAGs {:?} nothing more arrived", what, n, got.iter().map(|(d, _)| u32::from(d.fragment_starting_num)).collect::<Vec<_>>()),
        };
        let parsed = Message::read_from_buffer(&Bytes::copy_from_slice(&buf[..len]));
        assert!(parsed.is_ok(), "XC-WITNESS label=frag.lemma.honest_valid {}: after DATAFRAGs {:?} the writer sent a datagram its own parser rejects: {:?}", what, got.iter().map(|(d, _)| u32::from(d.fragment_starting_num)).collect::<Vec<_>>(), parsed.err());
        let m = parsed.unwrap();
        match datafrag_of(&m) {
          Some(f) => got.push(f),
          None => {
            assert!(m.submessages.iter().any(|s| matches!(s.body, SubmessageBody::Writer(WriterSubmessage::Heartbeat(..)))), "XC-WITNESS label=frag.msg {}: a fragmented sample must travel as single-DATAFRAG messages, got {:?}", what, m);
            break;
          }
        }
      }
      let numbers: Vec<u32> = got.iter().map(|(d, _)| u32::from(d.fragment_starting_num)).collect();
      assert!(numbers == (1..=n).collect::<Vec<u32>>(), "XC-WITNESS label=frag.count.ceil {}: the writer must split the sample into ceil(size/fs) = {} fragments 1..={}, it sent fragments {:?}", what, n, n, numbers);
      let s = Sample { sn, key, fs, full: full.clone(), frags: got };
      for (k, (df, flags)) in s.frags.iter().enumerate() {
        let (from, to) = (k * fs as usize, std::cmp::min((k + 1) * fs as usize, size));
        assert!(df.writer_sn == SequenceNumber::new(sn) && df.fragments_in_submessage == 1 && df.data_size as usize == size && df.fragment_size == fs && flags.contains(DATAFRAG_Flags::Key) == key && flags.contains(DATAFRAG_Flags::InlineQos) == rsi && df.inline_qos.is_some() == rsi && df.serialized_payload[..] == full[from..to],
          "XC-WITNESS label=frag.msg {} related_sample_identity={} fragment={}: must announce size {} / fragment size {} and carry bytes [{}, {}) = {:?}; got {:?} flags {:?}", what, rsi, k + 1, size, fs, from, to, &full[from..to], df, flags);
      }
      // in the order sent, and in reverse with every fragment doubled
      let mut run = Run::new(&what, fs, vec![&s]);
      for k in 1..=n { run.feed(&s, k); }
      for k in (1..=n).rev() { run.feed(&s, k); run.feed(&s, k); }
      assert!(run.delivered.get(&sn) == Some(&2), "XC-WITNESS label=frag.complete.only {}: two complete transmissions, {:?} deliveries", run.ctx(), run.delivered.get(&sn));
      n_frags += n as u64;
    }
    assert!(sn > 180 && n_frags > 1000, "vacuity guard: {} samples, {} fragments", sn, n_frags);
  }

  // ------------------------------------------------------------------------------------------
  // The whole receive path: serialized RTPS messages -> MessageReceiver::handle_received_packet
  // (its DATAFRAG acceptance check) -> Reader::handle_datafrag_msg -> FragmentAssembler -> the
  // topic cache the DataReader takes its samples from.  Oracle (frag.msgrx.deliver): after all
  // fragments of a sample went in, the cache holds exactly one change for (writer, sn) and its
  // wire bytes equal the bytes written.
  struct RxRig {
    mr: crate::rtps::message_receiver::MessageReceiver,
    cache: std::sync::Arc<std::sync::Mutex<crate::structure::dds_cache::TopicCache>>,
    reader_id: EntityId,
    qos: QosPolicies,
    _keep: Box<dyn std::any::Any>,
  }
  impl RxRig {
    fn new() -> RxRig {
      use std::sync::{Arc, Mutex};
      use crate::{
        dds::{qos::{policy::History, QosPolicyBuilder}, statusevents::DataReaderStatus, typedesc::TypeDesc},
        dds::with_key::simpledatareader::ReaderCommand,
        rtps::{message_receiver::MessageReceiver, reader::{Reader, ReaderIngredients}},
        structure::dds_cache::TopicCache,
      };
      let qos = QosPolicyBuilder::new().history(History::KeepAll).build(); // best effort: every received sample is visible at once
      let cache = Arc::new(Mutex::new(TopicCache::new("verif_xc_fragments_rx".to_string(), TypeDesc::new("Blob".to_string()), &qos)));
      let reader_guid = GUID::new(GuidPrefix::new(&[0x52; 12]), EntityId::new([0x7e, 0x57, 0x02], EntityKind::READER_WITH_KEY_USER_DEFINED));
      let (notification_sender, n) = mio_extras::channel::sync_channel::<()>(100);
      let (p, poll_event_sender) = crate::mio_source::make_poll_channel().unwrap();
      let (status_sender, st) = sync_status_channel::<DataReaderStatus>(4).unwrap();
      let (participant_status_sender, ps) = sync_status_channel(16).unwrap();
      let (c, data_reader_command_receiver) = mio_extras::channel::sync_channel::<ReaderCommand>(10);
      let ing = ReaderIngredients {
        guid: reader_guid,
        notification_sender,
        status_sender,
        topic_name: "verif_xc_fragments_rx".to_string(),
        topic_cache_handle: cache.clone(),
        like_stateless: false,
        qos_policy: qos.clone(),
        data_reader_command_receiver,
        data_reader_waker: Arc::new(Mutex::new(None)),
        poll_event_sender,
        security_plugins: None,
      };
      let reader = Reader::new(ing, std::rc::Rc::new(UDPSender::new(0).unwrap()), mio_extras::timer::Builder::default().build(), participant_status_sender);
      let (acknack_sender, ar) = mio_extras::channel::sync_channel(10);
      let (spdp_liveness_sender, sr) = mio_extras::channel::sync_channel(8);
      let mut mr = MessageReceiver::new(reader_guid.prefix, acknack_sender, spdp_liveness_sender, None);
      mr.add_reader(reader);
      RxRig { mr, cache, reader_id: reader_guid.entity_id, qos, _keep: Box::new((n, p, st, ps, c, ar, sr)) }
    }
    fn match_writer(&mut self, w: GUID) {
      let qos = self.qos.clone();
      self.mr.reader_mut(self.reader_id).unwrap().matched_writer_add(w, EntityId::UNKNOWN, vec![], vec![], &qos);
    }
    // the changes of (writer, sn) in the cache: (is key, wire bytes)
    fn handed_over(&self, w: GUID, sn: i64) -> Vec<(bool, Vec<u8>)> {
      let c = self.cache.lock().unwrap();
      let v: Vec<(bool, Vec<u8>)> = c
        .get_changes_in_range_best_effort(Timestamp::ZERO, Timestamp::INFINITE)
        .filter(|(_, cc)| cc.writer_guid == w && cc.sequence_number == SequenceNumber::new(sn))
        .map(|(_, cc)| wire_bytes(&cc.data_value))
        .collect();
      v
    }
  }
  fn short(b: &[u8]) -> String {
    if b.len() <= 40 { format!("{:?}", b) } else { format!("{} bytes {:?}..{:?}", b.len(), &b[..8], &b[b.len() - 8..]) }
  }

  #[test]
  fn xc_frag_msgrx_deliver() {
    let mut rig = RxRig::new();
    let (mut n_samples, mut n_packets, mut n_exact, mut wi) = (0u64, 0u64, 0u64, 0u32);
    for (vlen, fs, key, _) in cases() {
      for e in [Endianness::LittleEndian, Endianness::BigEndian] {
        // one writer per case: a writer's fragment size is constant
        wi += 1;
        let mut pfx = [0xA7u8; 12];
        pfx[..4].copy_from_slice(&wi.to_be_bytes());
        let w = GUID::new(GuidPrefix::new(&pfx), EntityId::new([0, 0, 7], EntityKind::WRITER_WITH_KEY_USER_DEFINED));
        rig.match_writer(w);
        for (sn, reversed) in [(1i64, false), (2, true)] {
          let rsi = (vlen + sn as usize) % 4 == 0;
          let (data, full) = written(7, sn, vlen, key);
          let size = full.len();
          let n = ceil_div(size, fs as usize);
          let cc = CacheChange::new(w, SequenceNumber::new(sn), if rsi { rsi_options() } else { WriteOptions::default() }, data);
          let what = format!("sample(sn={} size={} key={} related_sample_identity={}) fragment size {} ({} fragments{}) {:?} arrival {}", sn, size, key, rsi, fs, n,
            if size % fs as usize == 0 { ", size is an exact multiple" } else { "" }, e, if reversed { "reversed" } else { "in order" });
          let order: Vec<usize> = if reversed { (1..=n).rev().collect() } else { (1..=n).collect() };
          for (i, k) in order.iter().enumerate() {
            let mut mb = MessageBuilder::new();
            if sn == 2 { mb = mb.ts_msg(e, Some(Timestamp::now())); }
            let bytes = mb
              .data_frag_msg(&cc, EntityId::UNKNOWN, w, FragmentNumber::new(*k as u32), fs, size as u32, e, None)
              .add_header_and_build(w.prefix)
              .write_to_vec_with_ctx(e)
              .unwrap();
            rig.mr.handle_received_packet(&Bytes::from(bytes));
            n_packets += 1;
            let got = rig.handed_over(w, sn);
            if i + 1 < n {
              assert!(got.is_empty(), "XC-WITNESS label=frag.incomplete.none {}: after fragments {:?} of {} a sample is already handed over: {:?}", what, &order[..=i], n, got.iter().map(|g| short(&g.1)).collect::<Vec<_>>());
            } else {
              assert!(got.len() == 1 && got[0].1 == full && got[0].0 == key,
                "XC-WITNESS label=frag.msgrx.deliver {}: every fragment went through MessageReceiver::handle_received_packet in the order {:?}; handed over to the reader's cache: {:?} (key flags {:?}), written: {}", what, order,
                got.iter().map(|g| short(&g.1)).collect::<Vec<_>>(), got.iter().map(|g| g.0).collect::<Vec<_>>(), short(&full));
            }
          }
          n_samples += 1;
          if size % fs as usize == 0 { n_exact += 1; }
        }
        *rig.cache.lock().unwrap() = crate::structure::dds_cache::TopicCache::new("verif_xc_fragments_rx".to_string(), crate::dds::typedesc::TypeDesc::new("Blob".to_string()), &rig.qos);
      }
    }
    assert!(n_samples > 700 && n_exact > 150 && n_packets > 4000, "vacuity guard: {} samples ({} exact multiples), {} packets", n_samples, n_exact, n_packets);
  }

  // real Writer (default fragment size 1024) -> UDP 127.0.0.1 -> MessageReceiver -> Reader -> cache, for
  // serialized sizes around and exactly at multiples of the fragment size
  #[test]
  fn xc_frag_real_writer_msgrx_exact_multiples() {
    use std::{net::{SocketAddr, UdpSocket}, rc::Rc, sync::{Arc, Mutex}};
    let sock = UdpSocket::bind("127.0.0.1:0").unwrap();
    sock.set_read_timeout(Some(std::time::Duration::from_millis(500))).unwrap();
    let to: SocketAddr = sock.local_addr().unwrap();
    let (cmd_s, writer_command_receiver) = mio_extras::channel::sync_channel::<WriterCommand>(4);
    let (status_sender, _status_r) = sync_status_channel::<DataWriterStatus>(16).unwrap();
    let (participant_status_sender, _pr) = sync_status_channel(16).unwrap();
    let wguid_real = GUID::new(GuidPrefix::new(&[0x57; 12]), EntityId::new([1, 2, 3], EntityKind::WRITER_WITH_KEY_USER_DEFINED));
    let ing = WriterIngredients {
      guid: wguid_real,
      writer_command_receiver,
      writer_command_receiver_waker: Arc::new(Mutex::new(None)),
      topic_name: "verif_xc_fragments_rx".to_string(),
      like_stateless: false,
      qos_policies: QosPolicies::qos_none(),
      status_sender,
      security_plugins: None,
    };
    let mut w = Writer::new(ing, Rc::new(UDPSender::new(0).unwrap()), mio_extras::timer::Builder::default().build(), participant_status_sender);
    let fs = w.data_max_size_serialized; // the writer's own choice (1024)
    let mut rig = RxRig::new();
    rig.match_writer(wguid_real);
    let mut rp = RtpsReaderProxy::new(GUID::new(GuidPrefix::new(&[0x52; 12]), rig.reader_id), QosPolicies::qos_none(), false);
    rp.unicast_locator_list = vec![Locator::from(to)];
    w.update_reader_proxy(&rp, &QosPolicies::qos_none());
    let mut sn = 0i64;
    let mut sizes = vec![];
    for m in 1..=3usize { for d in [-1i64, 0, 1] { sizes.push((m * fs) as i64 + d); } }
    for size in sizes {
      for key in [false, true] {
        sn += 1;
        let (data, full) = written(5, sn, size as usize - 4, key);
        let what = format!("real Writer (fragment size {}) sample(sn={} size={} key={}{})", fs, sn, size, key, if size as usize % fs == 0 { ", size is an exact multiple" } else { "" });
        cmd_s.send(WriterCommand::DDSData { ddsdata: data, write_options: WriteOptions::default(), sequence_number: SequenceNumber::new(sn) }).unwrap();
        w.process_writer_command();
        let mut buf = [0u8; 8192];
        let mut kinds = vec![];
        loop {
          let len = match sock.recv(&mut buf) { Ok(l) => l, Err(_) => break };
          let bytes = Bytes::copy_from_slice(&buf[..len]);
          let m = Message::read_from_buffer(&bytes);
          rig.mr.handle_received_packet(&bytes);
          let hb = m.as_ref().map_or(false, |m| m.submessages.iter().any(|s| matches!(s.body, SubmessageBody::Writer(WriterSubmessage::Heartbeat(..)))));
          kinds.push(m.map_or("unparsable".to_string(), |m| m.submessages.iter().map(|s| format!("{:?}({}B)", s.header.kind, s.header.content_length)).collect::<Vec<_>>().join("+")));
          if hb { break; }
        }
        let got = rig.handed_over(wguid_real, sn);
        // a sample that fits one fragment travels as DATA, whose payload RTPS framing pads with zeros to 4 bytes (C14)
        let mut padded = full.clone();
        if size as usize <= fs { while padded.len() % 4 != 0 { padded.push(0); } }
        assert!(got.len() == 1 && (got[0].1 == full || got[0].1 == padded) && got[0].0 == key,
          "XC-WITNESS label=frag.msgrx.deliver {}: datagrams sent {:?}, each given to MessageReceiver::handle_received_packet; handed over to the reader's cache: {:?}, written: {}", what, kinds,
          got.iter().map(|g| short(&g.1)).collect::<Vec<_>>(), short(&full));
      }
    }
    assert!(sn == 18, "vacuity guard: {} samples", sn);
  }
}
