//@ append: src/rtps/writer.rs
// Executable contract of the reliable writer's history (C04: hist.keep / hist.bound / hist.frame /
// hist.first / hist.last / hist.get / hist.insert, rp.acknack.acked) — bounded stand-in / witness search.
// Oracle, written from the property statement (not from the code):
//   a sample is "needed" iff some CURRENTLY matched RELIABLE reader has not acknowledged it; a reader has
//   acknowledged exactly the numbers below the base of its latest ACKNACK (base 0 counts as 1; no ACKNACK
//   yet = nothing acknowledged).  After handle_cache_cleaning:
//     frame : nothing is invented, every retained sample still has the bytes / options written for it
//     keep  : a needed sample that was retained before leaves the history only if the History depth or a
//             FINITE resource limit forces it out, i.e. at least that many newer samples are retained
//             (History depth: 1 default, d for KeepLast(d), none for KeepAll; resource limit: max_samples
//             of the ResourceLimits QoS if >= 0, none if LENGTH_UNLIMITED, the built-in 32 if the QoS is absent)
//     bound : |retained| <= depth + |needed|, depth = min(History depth, resource limit); as resource
//             limit both readings of a ResourceLimits QoS are accepted: ignored (the constant 32 that
//             handle_cache_cleaning uses on the pinned tree) or honoured (max_samples; unlimited = no bound)
//     first : first_change_sequence_number() == lowest retained number (last+1 if nothing is retained)
//     last  : last_change_sequence_number() == number of samples written
//     get   : get_by_sn(sn) is Some exactly for the retained numbers and returns that sample
// Bound: History in {default, KeepLast(1), KeepLast(2), KeepAll}; n in 0..=5 samples written (consecutive
//   numbers from 1, one of them addressed to a single reader); 0..=2 matched readers, each reliable or
//   best-effort, each with no ACKNACK yet or ACKNACK base 0..=8 (beyond last+1 included) applied by the real
//   RtpsReaderProxy::handle_ack_nack; then a second round: 0..=2 more samples and one event out of
//   {nothing, reader 0 lost, reader 0 sends ACKNACK base 0..=8 (also backwards), a reliable / best-effort
//   reader joins}, cleaning again; all of that for the writer's ResourceLimits QoS in {absent, max_samples
//   -1 (LENGTH_UNLIMITED), 1, 3} (instances / samples per instance unlimited).  Separately the resource limit
//   (ResourceLimits in {absent, -1, 3, 35}): History in {KeepAll, KeepLast(32),
//   KeepLast(33), KeepLast(40)}, n in {31,32,33,34,40}, no reader / best-effort / reliable reader with
//   selected ACKNACK bases.  Separately source timestamps (xc_hist_source_timestamps): History in {default,
//   KeepLast(2), KeepAll}, up to 4 samples in two rounds, every sample written with WriteOptions carrying
//   no source timestamp / the same one as the previous stamped write / one a second earlier (all 3^k
//   patterns), no reader / best-effort / reliable reader with no ACKNACK or base 1..=n+1.
#[cfg(test)]
mod verif_xc_writer_history {
  use std::{
    collections::BTreeSet,
    rc::Rc,
    sync::{Arc, Mutex},
  };

  use super::*;
  use crate::{
    dds::{statusevents::sync_status_channel, with_key::datawriter::WriteOptionsBuilder},
    structure::rpc::SampleIdentity,
    messages::submessages::{
      elements::serialized_payload::SerializedPayload, submessages::AckNack,
    },
    structure::{guid::EntityKind, sequence_number::SequenceNumberSet},
    RepresentationIdentifier,
  };

  const RESOURCE_LIMIT: usize = 32; // `let resource_limit = 32;` in handle_cache_cleaning (read from the code)

  #[derive(Clone, Copy, Debug, PartialEq, Eq)]
  enum Hist {
    Default,
    KeepLast(i32),
    KeepAll,
  }
  // the writer's ResourceLimits QoS: absent, or max_samples (-1 = LENGTH_UNLIMITED); the other two unlimited
  #[derive(Clone, Copy, Debug, PartialEq, Eq)]
  enum Rl {
    Absent,
    MaxSamples(i32),
  }
  impl Hist {
    fn depth(self) -> Option<usize> {
      match self {
        Hist::Default => Some(1),
        Hist::KeepLast(d) => Some(d as usize),
        Hist::KeepAll => None,
      }
    }
  }
  // the finite limits that may force a sample out although a matched reliable reader still needs it
  fn forcing_limits(history: Hist, rl: Rl) -> Vec<usize> {
    let mut v: Vec<usize> = history.depth().into_iter().collect();
    match rl {
      Rl::Absent => v.push(RESOURCE_LIMIT),
      Rl::MaxSamples(m) if m >= 0 => v.push(m as usize),
      Rl::MaxSamples(_) => {} // unlimited
    }
    v
  }
  // how many samples may stay beyond the needed ones; None = neither History nor ResourceLimits set a bound.
  // A ResourceLimits QoS may be ignored (built-in 32) or honoured: the laxer reading is accepted.
  fn bound_depth(history: Hist, rl: Rl) -> Option<usize> {
    let resource = match rl {
      Rl::Absent => Some(RESOURCE_LIMIT),
      Rl::MaxSamples(m) if m >= 0 => Some(std::cmp::max(RESOURCE_LIMIT, m as usize)),
      Rl::MaxSamples(_) => None,
    };
    match (history.depth(), resource) {
      (Some(d), Some(r)) => Some(std::cmp::min(d, r)),
      (Some(d), None) => Some(d),
      (None, r) => r,
    }
  }

  // one matched reader: its reliability and the base of the latest ACKNACK it sent (None: none yet)
  #[derive(Clone, Copy, Debug, PartialEq, Eq)]
  struct Rd {
    reliable: bool,
    ack: Option<i64>,
  }
  impl Rd {
    // the reader has acknowledged sn
    fn acked(&self, sn: i64) -> bool {
      match self.ack {
        None => false,
        Some(b) => sn < std::cmp::max(b, 1),
      }
    }
  }

  #[derive(Clone, Copy, Debug, PartialEq, Eq)]
  enum Ev {
    Nothing,
    Reader0Lost,
    Reader0Ack(i64),
    Join { reliable: bool },
  }

  #[derive(Clone, Debug)]
  struct Case {
    history: Hist,
    limits: Rl,
    stamps: Vec<St>, // source timestamps of the writes (empty: none)
    order: usize,    // which order of the WriteOptionsBuilder setters in use
    n: i64,
    readers: Vec<Rd>,
    more: i64,
    ev: Ev,
  }

  struct Harness {
    udp: Rc<UDPSender>,
    status_sender: StatusChannelSender<DataWriterStatus>,
    participant_status_sender: StatusChannelSender<DomainParticipantStatusEvent>,
    _keep: Vec<Box<dyn std::any::Any>>, // receiving ends, kept open
  }
  impl Harness {
    fn new() -> Self {
      let (status_sender, sr) = sync_status_channel::<DataWriterStatus>(4).unwrap();
      let (participant_status_sender, pr) =
        sync_status_channel::<DomainParticipantStatusEvent>(16).unwrap();
      Harness {
        udp: Rc::new(UDPSender::new(0).unwrap()),
        status_sender,
        participant_status_sender,
        _keep: vec![Box::new(sr), Box::new(pr)],
      }
    }
    fn writer(&self, history: Hist, limits: Rl) -> Writer {
      let (_cmd_sender, writer_command_receiver) = mio_channel::sync_channel::<WriterCommand>(4);
      let mut qos = QosPolicies::builder().reliable(Duration::from_secs(1));
      match history {
        Hist::Default => {}
        Hist::KeepLast(d) => qos = qos.history(History::KeepLast { depth: d }),
        Hist::KeepAll => qos = qos.history(History::KeepAll),
      }
      if let Rl::MaxSamples(m) = limits {
        qos = qos.resource_limits(policy::ResourceLimits {
          max_samples: m,
          max_instances: -1,
          max_samples_per_instance: -1,
        });
      }
      let ing = WriterIngredients {
        guid: GUID::dummy_test_guid(EntityKind::WRITER_WITH_KEY_USER_DEFINED),
        writer_command_receiver,
        writer_command_receiver_waker: Arc::new(Mutex::new(None)),
        topic_name: "verif_xc_history".to_string(),
        like_stateless: false,
        qos_policies: qos.build(),
        status_sender: self.status_sender.clone(),
        security_plugins: None,
      };
      let timer = mio_extras::timer::Builder::default()
        .capacity(64)
        .num_slots(16)
        .build();
      Writer::new(
        ing,
        Rc::clone(&self.udp),
        timer,
        self.participant_status_sender.clone(),
      )
    }
  }

  fn sn(i: i64) -> SequenceNumber {
    SequenceNumber::new(i)
  }
  fn reader_guid(i: usize) -> GUID {
    GUID::new(
      GuidPrefix::new(b"xcHistReader"),
      EntityId::new([0, 0, 1 + i as u8], EntityKind::READER_WITH_KEY_USER_DEFINED),
    )
  }
  fn reader_qos(reliable: bool) -> QosPolicies {
    if reliable {
      QosPolicies::builder().reliable(Duration::from_secs(1)).build()
    } else {
      QosPolicies::builder().best_effort().build()
    }
  }
  // the bytes written for sample i: a function of the sequence number, of varying length
  fn payload(i: i64) -> DDSData {
    let mut v = vec![i as u8, 0xA5, (i * 7 + 3) as u8, 0x5A];
    for k in 0..(i % 3) {
      v.push((i + k) as u8);
    }
    DDSData::new(SerializedPayload::new(RepresentationIdentifier::CDR_LE, v))
  }
  // the application-supplied source timestamp of a write: none, the same as the previous stamped write's
  // (the first one: a fixed instant), or one second earlier than that
  #[derive(Clone, Copy, Debug, PartialEq, Eq)]
  enum St {
    NoStamp,
    Same,
    Earlier,
  }
  // stamps[i-1] describes sample i; samples beyond the list carry no source timestamp
  fn source_timestamp(stamps: &[St], i: i64) -> Option<Timestamp> {
    let mut cur: u64 = 1_000_000u64 << 32; // Timestamp ticks: 10^6 s after the epoch
    let mut out = None;
    for st in stamps.iter().take(i as usize) {
      out = match st {
        St::NoStamp => None,
        St::Same => Some(cur),
        St::Earlier => {
          cur -= 1u64 << 32;
          Some(cur)
        }
      };
    }
    if (i as usize) > stamps.len() { None } else { out.map(Timestamp::from_ticks) }
  }
  fn stamp_patterns(len: usize) -> Vec<Vec<St>> {
    let mut v: Vec<Vec<St>> = vec![vec![]];
    for _ in 0..len {
      v = v
        .into_iter()
        .flat_map(|p| {
          [St::NoStamp, St::Same, St::Earlier].into_iter().map(move |s| {
            let mut q = p.clone();
            q.push(s);
            q
          })
        })
        .collect();
    }
    v
  }
  // the WriteOptions of a write, built through the real builder: the setters in use are applied in the
  // order-th of all their orders (what the options must say is known from the scenario, not from here)
  #[derive(Clone, Copy, Debug)]
  enum Setter {
    Single(GUID),
    Stamp(Timestamp),
    Related(SampleIdentity),
  }
  fn orders(k: usize) -> Vec<Vec<usize>> {
    if k == 0 {
      return vec![vec![]];
    }
    let mut out = vec![];
    for p in orders(k - 1) {
      for pos in 0..=p.len() {
        let mut q = p.clone();
        q.insert(pos, k - 1);
        out.push(q);
      }
    }
    out
  }
  fn build_options(setters: &[Setter], order: usize) -> WriteOptions {
    let perms = orders(setters.len());
    let mut b = WriteOptionsBuilder::new();
    for k in &perms[order % perms.len()] {
      b = match setters[*k] {
        Setter::Single(g) => b.to_single_reader(g),
        Setter::Stamp(ts) => b.source_timestamp(ts),
        Setter::Related(si) => b.related_sample_identity(si),
      };
    }
    b.build()
  }
  // sample 2 is addressed to one particular reader, all others to everybody
  fn single_reader(i: i64) -> Option<GUID> {
    if i == 2 { Some(reader_guid(1)) } else { None }
  }
  fn options(c: &Case, i: i64) -> WriteOptions {
    let mut setters = vec![];
    if let Some(g) = single_reader(i) {
      setters.push(Setter::Single(g));
    }
    if let Some(ts) = source_timestamp(&c.stamps, i) {
      setters.push(Setter::Stamp(ts));
    }
    build_options(&setters, c.order)
  }
  fn acknack(reader: GUID, writer: GUID, base: i64) -> AckSubmessage {
    AckSubmessage::AckNack(AckNack {
      reader_id: reader.entity_id,
      writer_id: writer.entity_id,
      reader_sn_state: SequenceNumberSet::new_empty(sn(base)),
      count: 1,
    })
  }

  // writes sample i through the writer's own insertion path.  The history is keyed by a wall clock
  // reading taken inside (assumption valid.hist.clock: readings strictly increase), so wait for the
  // clock to tick first and bracket the call with two readings.  Returns false if the wall clock was
  // seen stepping back (the case is then redone) - whatever key the writer actually used.
  fn write(w: &mut Writer, c: &Case, i: i64, last_wall: &mut Timestamp) -> bool {
    let mut before = Timestamp::now();
    while before <= *last_wall {
      std::hint::spin_loop();
      before = Timestamp::now();
    }
    w.insert_to_history_buffer(payload(i), options(c, i), sn(i));
    let after = Timestamp::now();
    *last_wall = std::cmp::max(after, before);
    after >= before
  }

  fn retained(w: &Writer) -> BTreeSet<i64> {
    w.history_buffer
      .sequence_number_to_instant
      .keys()
      .map(|s| i64::from(*s))
      .collect()
  }

  fn add_reader(w: &mut Writer, model: &mut Vec<(GUID, Rd)>, rd: Rd, written: i64) {
    let g = reader_guid(model.len());
    let rp = RtpsReaderProxy::new(g, reader_qos(rd.reliable), false);
    w.matched_reader_update(&rp);
    model.push((g, Rd { reliable: rd.reliable, ack: None }));
    if let Some(b) = rd.ack {
      let idx = model.len() - 1;
      send_ack(w, model, idx, b, written);
    }
  }

  fn send_ack(w: &mut Writer, model: &mut [(GUID, Rd)], idx: usize, base: i64, written: i64) {
    let (g, _) = model[idx];
    let an = acknack(g, w.guid(), base);
    w.lookup_reader_proxy_mut(g)
      .expect("matched reader has a proxy")
      .handle_ack_nack(&an, sn(written));
    model[idx].1.ack = Some(base);
  }

  // handle_cache_cleaning against the oracle
  fn clean_and_check(w: &mut Writer, c: &Case, round: u32, model: &[(GUID, Rd)], written: i64) {
    let before = retained(w);
    let acks_before: Vec<SequenceNumber> = w.readers.values().map(|rp| rp.all_acked_before).collect();
    w.handle_cache_cleaning();
    let after = retained(w);
    let needed: BTreeSet<i64> = before
      .iter()
      .copied()
      .filter(|s| model.iter().any(|(_, rd)| rd.reliable && !rd.acked(*s)))
      .collect();

    // frame
    assert!(
      after.is_subset(&before),
      "XC-WITNESS label=hist.frame {:?} round={}: cleaning invented samples: retained before {:?}, after {:?}",
      c, round, before, after
    );
    let stored: BTreeSet<i64> = w
      .history_buffer
      .history_buffer
      .values()
      .map(|cc| i64::from(cc.sequence_number))
      .collect();
    assert!(
      stored == after && w.history_buffer.history_buffer.len() == after.len(),
      "XC-WITNESS label=wf.hist {:?} round={}: stored samples {:?} ({} entries) differ from the retrievable numbers {:?}",
      c, round, stored, w.history_buffer.history_buffer.len(), after
    );
    let acks_after: Vec<SequenceNumber> = w.readers.values().map(|rp| rp.all_acked_before).collect();
    assert!(
      w.readers.len() == model.len() && acks_before == acks_after,
      "XC-WITNESS label=hist.clean.frame {:?} round={}: cleaning changed the matched readers: {} proxies, acknowledged-before {:?} -> {:?}",
      c, round, w.readers.len(), acks_before, acks_after
    );
    // keep
    let forcing = forcing_limits(c.history, c.limits);
    for s in &needed {
      let newer = before.iter().filter(|t| *t > s).count();
      assert!(
        after.contains(s) || forcing.iter().any(|l| newer >= *l),
        "XC-WITNESS label=hist.keep {:?} round={}: sample {} was retained ({:?}) and is still unacknowledged by a matched reliable reader, but cleaning removed it (retained now {:?}) although only {} newer samples were retained and the finite History depth / resource limits are {:?}",
        c, round, s, before, after, newer, forcing
      );
    }
    // bound
    if let Some(depth) = bound_depth(c.history, c.limits) {
      assert!(
        after.len() <= depth + needed.len(),
        "XC-WITNESS label=hist.bound {:?} round={}: {} samples retained {:?}, allowed at most depth {} + {} still unacknowledged by matched reliable readers {:?}",
        c, round, after.len(), after, depth, needed.len(), needed
      );
    }
    // first / last
    let first = i64::from(w.history_buffer.first_change_sequence_number());
    let last = i64::from(w.history_buffer.last_change_sequence_number());
    assert!(
      last == written,
      "XC-WITNESS label=hist.last {:?} round={}: last_change_sequence_number() = {} but {} samples were written",
      c, round, last, written
    );
    match after.iter().next() {
      Some(lowest) => assert!(
        first == *lowest,
        "XC-WITNESS label=hist.first {:?} round={}: first_change_sequence_number() = {} but the lowest retrievable number is {} (retained {:?}, last {})",
        c, round, first, lowest, after, written
      ),
      None => assert!(
        first == written + 1,
        "XC-WITNESS label=hist.first {:?} round={}: first_change_sequence_number() = {} although nothing is retained: required last + 1 = {}, the lowest number yet to be written",
        c, round, first, written + 1
      ),
    }
    // get
    for s in 0..=written + 2 {
      match w.history_buffer.get_by_sn(sn(s)) {
        None => assert!(
          !after.contains(&s),
          "XC-WITNESS label=hist.get {:?} round={}: get_by_sn({}) = None although {} is retained ({:?})",
          c, round, s, s, after
        ),
        Some(cc) => {
          assert!(
            after.contains(&s),
            "XC-WITNESS label=hist.get {:?} round={}: get_by_sn({}) = Some(sample {:?}) although {} is not retained ({:?})",
            c, round, s, cc.sequence_number, s, after
          );
          assert!(
            cc.sequence_number == sn(s) && cc.data_value == payload(s),
            "XC-WITNESS label=hist.get {:?} round={}: get_by_sn({}) returned sample {:?} with {:?}, written for {} was {:?}",
            c, round, s, cc.sequence_number, cc.data_value, s, payload(s)
          );
          let got = (cc.write_options.to_single_reader(), cc.write_options.source_timestamp(), cc.write_options.related_sample_identity());
          let want = (single_reader(s), source_timestamp(&c.stamps, s), None::<SampleIdentity>);
          assert!(
            got == want,
            "XC-WITNESS label=push.options.order {:?} round={}: sample {} is stored with (to_single_reader, source_timestamp, related_sample_identity) = {:?}, the application set {:?}",
            c, round, s, got, want
          );
        }
      }
    }
  }

  // one scenario; false = the wall clock stepped back while writing (redo)
  fn run_case(h: &Harness, c: &Case) -> bool {
    let mut w = h.writer(c.history, c.limits);
    let mut last_ts = Timestamp::ZERO;
    let mut model: Vec<(GUID, Rd)> = vec![];
    for i in 1..=c.n {
      if !write(&mut w, c, i, &mut last_ts) {
        return false;
      }
    }
    for rd in &c.readers {
      add_reader(&mut w, &mut model, *rd, c.n);
    }
    clean_and_check(&mut w, c, 1, &model, c.n);

    let written = c.n + c.more;
    for i in c.n + 1..=written {
      if !write(&mut w, c, i, &mut last_ts) {
        return false;
      }
    }
    match c.ev {
      Ev::Nothing => {}
      Ev::Reader0Lost => {
        let (g, _) = model.remove(0);
        w.reader_lost(g);
      }
      Ev::Reader0Ack(b) => send_ack(&mut w, &mut model, 0, b, written),
      Ev::Join { reliable } => {
        // a fresh GUID, sorting before or after the existing ones
        let g = GUID::new(
          GuidPrefix::new(if reliable { b"xcHistJoinAA" } else { b"xcHistZZJoin" }),
          EntityId::new([0, 0, 9], EntityKind::READER_WITH_KEY_USER_DEFINED),
        );
        w.matched_reader_update(&RtpsReaderProxy::new(g, reader_qos(reliable), false));
        model.push((g, Rd { reliable, ack: None }));
      }
    }
    clean_and_check(&mut w, c, 2, &model, written);
    true
  }

  fn run(h: &Harness, c: &Case) {
    for _ in 0..5 {
      if run_case(h, c) {
        return;
      }
    }
    // five clock glitches in a row: not a statement about the code, skip this case
    eprintln!("XC-NOTE wall clock kept stepping back, case skipped: {:?}", c);
  }

  fn reader_states() -> Vec<Rd> {
    let mut v = vec![];
    for reliable in [true, false] {
      v.push(Rd { reliable, ack: None });
      for b in 0..=8 {
        v.push(Rd { reliable, ack: Some(b) });
      }
    }
    v
  }

  fn reader_sets() -> Vec<Vec<Rd>> {
    let st = reader_states();
    let mut v = vec![vec![]];
    for a in &st {
      v.push(vec![*a]);
    }
    for a in &st {
      for b in &st {
        v.push(vec![*a, *b]);
      }
    }
    v
  }

  fn events(have_reader: bool) -> Vec<Ev> {
    let mut v = vec![Ev::Nothing, Ev::Join { reliable: true }, Ev::Join { reliable: false }];
    if have_reader {
      v.push(Ev::Reader0Lost);
      for b in 0..=8 {
        v.push(Ev::Reader0Ack(b));
      }
    }
    v
  }

  fn sweep(history: Hist, limits: Rl) {
    let h = Harness::new();
    let sets = reader_sets();
    let mut cases = 0u64;
    for n in 0..=5 {
      for readers in &sets {
        for more in 0..=2 {
          for ev in events(!readers.is_empty()) {
            let c = Case { history, limits, stamps: vec![], order: 0, n, readers: readers.clone(), more, ev };
            run(&h, &c);
            cases += 1;
          }
        }
      }
    }
    assert!(cases > 80_000, "vacuity guard: only {} scenarios enumerated", cases);
  }

  macro_rules! sweeps {
    ($($name:ident: $history:expr, $limits:expr;)*) => {
      $(#[test] fn $name() { sweep($history, $limits); })*
    };
  }
  sweeps! {
    xc_hist_default_depth: Hist::Default, Rl::Absent;
    xc_hist_default_depth_unlimited: Hist::Default, Rl::MaxSamples(-1);
    xc_hist_default_depth_max_1: Hist::Default, Rl::MaxSamples(1);
    xc_hist_default_depth_max_3: Hist::Default, Rl::MaxSamples(3);
    xc_hist_keep_last_1: Hist::KeepLast(1), Rl::Absent;
    xc_hist_keep_last_1_unlimited: Hist::KeepLast(1), Rl::MaxSamples(-1);
    xc_hist_keep_last_1_max_1: Hist::KeepLast(1), Rl::MaxSamples(1);
    xc_hist_keep_last_1_max_3: Hist::KeepLast(1), Rl::MaxSamples(3);
    xc_hist_keep_last_2: Hist::KeepLast(2), Rl::Absent;
    xc_hist_keep_last_2_unlimited: Hist::KeepLast(2), Rl::MaxSamples(-1);
    xc_hist_keep_last_2_max_1: Hist::KeepLast(2), Rl::MaxSamples(1);
    xc_hist_keep_last_2_max_3: Hist::KeepLast(2), Rl::MaxSamples(3);
    xc_hist_keep_all: Hist::KeepAll, Rl::Absent;
    xc_hist_keep_all_unlimited: Hist::KeepAll, Rl::MaxSamples(-1);
    xc_hist_keep_all_max_1: Hist::KeepAll, Rl::MaxSamples(1);
    xc_hist_keep_all_max_3: Hist::KeepAll, Rl::MaxSamples(3);
  }

  // the resource limit (KeepAll, and as a cap on KeepLast(d)) needs more than 32 samples to show
  #[test]
  fn xc_hist_resource_limit() {
    let h = Harness::new();
    let mut cases = 0u64;
    for (history, limits) in [Hist::KeepAll, Hist::KeepLast(32), Hist::KeepLast(33), Hist::KeepLast(40)]
      .into_iter()
      .flat_map(|h| [Rl::Absent, Rl::MaxSamples(-1), Rl::MaxSamples(3), Rl::MaxSamples(35)].into_iter().map(move |l| (h, l)))
    {
      for n in [31i64, 32, 33, 34, 40] {
        let mut sets: Vec<Vec<Rd>> = vec![vec![], vec![Rd { reliable: false, ack: None }]];
        for b in [0, 1, 2, 5, n - 33, n - 32, n - 31, n - 1, n, n + 1, n + 2, n + 7] {
          if b < 0 {
            continue;
          }
          sets.push(vec![Rd { reliable: true, ack: Some(b) }]);
          sets.push(vec![Rd { reliable: true, ack: Some(b) }, Rd { reliable: false, ack: None }]);
          sets.push(vec![Rd { reliable: true, ack: Some(n + 1) }, Rd { reliable: true, ack: Some(b) }]);
        }
        sets.push(vec![Rd { reliable: true, ack: None }]);
        for readers in sets {
          for (more, ev) in [(0, Ev::Nothing), (2, Ev::Nothing), (1, Ev::Reader0Ack(n + 2)), (0, Ev::Reader0Lost)] {
            if readers.is_empty() && ev != Ev::Nothing {
              continue;
            }
            let c = Case { history, limits, stamps: vec![], order: 0, n, readers: readers.clone(), more, ev };
            run(&h, &c);
            cases += 1;
          }
        }
      }
    }
    assert!(cases > 8_000, "vacuity guard: only {} scenarios enumerated", cases);
  }

  // application-supplied source timestamps must not matter for what the history retains and returns
  #[test]
  fn xc_hist_source_timestamps() {
    let h = Harness::new();
    let mut cases = 0u64;
    for history in [Hist::Default, Hist::KeepLast(2), Hist::KeepAll] {
      for n in 0..=4i64 {
        for more in 0..=std::cmp::min(2, 4 - n) {
          let total = n + more;
          let mut sets: Vec<Vec<Rd>> = vec![
            vec![],
            vec![Rd { reliable: false, ack: None }],
            vec![Rd { reliable: true, ack: None }],
          ];
          for b in 1..=n + 1 {
            sets.push(vec![Rd { reliable: true, ack: Some(b) }]);
          }
          for stamps in stamp_patterns(total as usize) {
            for readers in &sets {
              for ev in [Ev::Nothing, Ev::Reader0Ack(total + 1)] {
                if readers.is_empty() && ev != Ev::Nothing {
                  continue;
                }
                for order in 0..2 {
                  let c = Case { history, limits: Rl::Absent, stamps: stamps.clone(), order, n, readers: readers.clone(), more, ev };
                  run(&h, &c);
                  cases += 1;
                }
              }
            }
          }
        }
      }
    }
    assert!(cases > 20_000, "vacuity guard: only {} scenarios enumerated", cases);
  }
}
