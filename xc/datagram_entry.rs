//@ append: src/rtps/message_receiver.rs
// Executable contract of the REAL datagram entry point MessageReceiver::handle_received_packet (C06) —
// bounded stand-in / witness search for the part before (and around) the parser.
// Oracle, from the property statement: no datagram, however short or malformed, makes the participant
// panic, and it keeps processing valid traffic afterwards: after every datagram a valid RTPS message
// (INFO_TS + 2 x HEARTBEAT built by the real MessageBuilder) is still interpreted completely
// (3 submessages); a datagram rejected before the parser (shorter than the 20-byte header, or not
// starting with "RTPS") leaves the interpreter state untouched.
// Bound: (a) EVERY datagram of length 0..=4 over the byte alphabet {0,'R','T','P','S','X',0xFF} (2801);
// (b) every length 0..=24 x prefix {"", "R", "RT", "RTP", "RTPS", "RTPX"} (cut to the length) x constant
// filler byte from the alphabet x optional "DDSPING" at offset 9 (ping shape); (c) lengths 20..=24 with
// magic "RTPS" go on into the real parser (garbage header / submessages).  ~5000 datagrams, one real
// MessageReceiver (no readers) reused for all of them.
#[cfg(test)]
mod verif_xc_datagram_entry {
  use std::panic::{catch_unwind, AssertUnwindSafe};

  use speedy::{Endianness, Writable};

  use super::*;
  use crate::{rtps::MessageBuilder, structure::sequence_number::SequenceNumber};

  const ALPHABET: [u8; 7] = [0, b'R', b'T', b'P', b'S', b'X', 0xFF];
  const PREFIXES: [&[u8]; 6] = [b"", b"R", b"RT", b"RTP", b"RTPS", b"RTPX"];

  fn receiver() -> MessageReceiver {
    let (acknack_sender, acknack_receiver) = mio_channel::sync_channel::<(GuidPrefix, AckSubmessage)>(10);
    let (spdp_liveness_sender, spdp_liveness_receiver) = mio_channel::sync_channel(8);
    std::mem::forget(acknack_receiver);
    std::mem::forget(spdp_liveness_receiver);
    MessageReceiver::new(GuidPrefix::new(&[7; 12]), acknack_sender, spdp_liveness_sender, None)
  }

  fn valid_datagram() -> Bytes {
    let m = MessageBuilder::new()
      .ts_msg(Endianness::LittleEndian, Some(Timestamp::from_ticks(0x1234_5678_0000_0001)))
      .heartbeat_msg(EntityId::UNKNOWN, SequenceNumber::new(1), SequenceNumber::new(5), 1, Endianness::LittleEndian, EntityId::UNKNOWN, false, false)
      .heartbeat_msg(EntityId::UNKNOWN, SequenceNumber::new(1), SequenceNumber::new(6), 2, Endianness::BigEndian, EntityId::UNKNOWN, true, false)
      .add_header_and_build(GuidPrefix::new(&[9; 12]));
    Bytes::from(m.write_to_vec_with_ctx(Endianness::LittleEndian).unwrap())
  }

  fn datagrams() -> Vec<Vec<u8>> {
    let mut v: Vec<Vec<u8>> = Vec::new();
    // (a) everything of length 0..=4 over the alphabet
    let mut layer: Vec<Vec<u8>> = vec![vec![]];
    for _ in 0..=4 {
      v.extend(layer.iter().cloned());
      let mut next = Vec::new();
      for d in &layer { for b in ALPHABET { let mut e = d.clone(); e.push(b); next.push(e); } }
      layer = next;
    }
    // (b),(c) prefix + constant filler, with and without the ping marker
    for len in 0..=24usize {
      for p in PREFIXES {
        for f in ALPHABET {
          for ping in [false, true] {
            let mut d = vec![f; len];
            for (i, b) in p.iter().enumerate() { if i < len { d[i] = *b; } }
            if ping {
              if len < 16 { continue; }
              d[9..16].copy_from_slice(b"DDSPING");
            }
            v.push(d);
          }
        }
      }
    }
    v
  }

  #[test]
  fn xc_entry_short_and_malformed_datagrams() {
    let valid = valid_datagram();
    let mut mr = receiver();
    mr.handle_received_packet(&valid);
    assert!(mr.submessage_count == 3, "XC-WITNESS label=nopanic.entry.valid: the reference message is interpreted as {} submessages, expected 3", mr.submessage_count);
    let reference_ts = mr.source_timestamp;
    let reference_src = mr.source_guid_prefix;
    let mut n_cases = 0usize;
    let mut n_rejected_early = 0usize;
    for d in datagrams() {
      n_cases += 1;
      let bytes = Bytes::copy_from_slice(&d);
      let r = catch_unwind(AssertUnwindSafe(|| mr.handle_received_packet(&bytes)));
      assert!(r.is_ok(), "XC-WITNESS label=nopanic.entry.short datagram(len={})={:02x?}: handle_received_packet panicked (a datagram must never crash the participant)", d.len(), d);
      if d.len() < 20 || &d[0..4] != b"RTPS" {
        n_rejected_early += 1;
        assert!(mr.submessage_count == 3 && mr.source_timestamp == reference_ts && mr.source_guid_prefix == reference_src,
          "XC-WITNESS label=nopanic.entry.frame datagram(len={})={:02x?}: a datagram that is not an RTPS message changed the interpreter state", d.len(), d);
      }
      // it keeps processing valid traffic afterwards
      let r = catch_unwind(AssertUnwindSafe(|| mr.handle_received_packet(&valid)));
      assert!(r.is_ok(), "XC-WITNESS label=nopanic.entry.after datagram(len={})={:02x?}: the next valid message panicked", d.len(), d);
      assert!(mr.submessage_count == 3 && mr.source_timestamp == reference_ts && mr.source_guid_prefix == reference_src,
        "XC-WITNESS label=nopanic.entry.after datagram(len={})={:02x?}: after it a valid message is interpreted as {} submessages (expected 3)", d.len(), d, mr.submessage_count);
    }
    assert!(n_cases > 4000 && n_rejected_early > 3500, "vacuity guard: {} datagrams, {} rejected before the parser", n_cases, n_rejected_early);
    std::mem::forget(mr);
  }
}
