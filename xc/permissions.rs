//@ append: src/security/access_control/access_control_builtin/domain_participant_permissions_document.rs
// Executable contract of the rule-evaluation layer of the builtin access control plugin (C18) —
// bounded stand-in / witness search on the REAL code with the REAL glob matcher (the Kani harnesses
// stub it, and no harness covers Grant::check_action / AccessControlBuiltin::check_entity).
// Oracle, written from the property statement + DDS Security 1.1 9.4.1.3 / 9.4.1.2.7 on plain spec
// data (strings / tuples), never on the Rust types under test:
//   * file-name patterns: an own tiny fnmatch (`*`, `?`, `[...]` with ranges and `!`), no flags;
//   * the default partition is "" on both sides: an entity that names no partition is in [""], a
//     criterion without a partitions section lists [""];
//   * a criterion matches iff SOME topic expression matches the topic and EVERY entity partition is
//     matched by SOME partition expression;
//   * a rule applies iff SOME entry of its domain set contains the domain id (id: equal, range:
//     min <= id <= max, open ranges) and SOME criterion OF THE QUERIED ACTION KIND matches;
//   * check_action = verdict of the FIRST applicable rule, else the grant's default;
//   * find_grant = (statement) a grant of the subject whose validity contains `now`, none iff there
//     is none; (clause of obligation c18.find_grant) the FIRST such grant;
//   * governance: the first topic rule whose expression matches the topic decides; the access is
//     unprotected iff that rule has enable_read_access_control (reader) / enable_write_access_control
//     (writer) = false; no matching topic rule = not left unprotected;
//     writer allowed  <=> write unprotected || grant allows publish
//     reader allowed  <=> read unprotected  || grant allows subscribe
//     topic allowed   <=> a writer or a reader on it would be allowed (interpretation of "that access")
//     remote reader   =  (reader allowed || relay allowed,  relay_only = !reader allowed && relay allowed)
//     "allowed" = Ok(true); Ok(false) and Err both count as refused.
// Bound:
//   criteria: every criterion with 1..=2 topic expressions (ordered, distinct) from {T, T*, ?x, [ab]c, *}
//     and a partitions section from {absent, [A*], ["", P], [*]} (100), as publish / subscribe / relay
//     criterion; topics {T, Tx, ax, bc, zz, ""}; entity partitions {[], [""], [Ab], [P], [Ab,P]};
//   rules: domain sets {[5], [3..6], [1, 8..9, 12..], [..2, 7]} x every id at a boundary +-1 (and 65535),
//     criteria lists of length 0..=2 (43 lists) in the queried kind, the two other kinds empty or
//     match-everything decoys, all 3 x 3 (rule kind, queried kind) pairs, all topics / entity partitions;
//   grants: every rule list of length 0..=3 over a pool of 24 rules (2 verdicts x 3 domain sets x 4
//     criteria layouts) x both defaults (28850 grants) x 3 actions x 4 domain ids x 4 topics x 3
//     entity partition lists;
//   find_grant: every document of 1..=3 grants over 2 subjects x 5 validity windows (expired 1 s ago,
//     ends in 1 s, starts now, starts in 1 s, around now), queried for 3 subjects (one unknown);
//     the instant not_after itself is NOT tested (half-open vs. closed is an assumption of C18);
//   governance: every topic-rule list of length 0..=2 over {T*, *, [ab]c} x read flag x write flag
//     (157 lists) x every grant with 0..=2 rules from a pool of 6 x both defaults (86) x
//     {check_create_datawriter, _datareader, _topic, check_remote_datawriter, _datareader, _topic}
//     x 4 topics x 2 domain ids; plus 6 document layouts (expired / future / foreign grants in front
//     of the valid one, no valid grant) x 86 grants x 5 governance lists.  Validity windows there are
//     >= 10 years away from the real clock (get_grant reads Utc::now()).
// Not covered (stay outside): S/MIME signature verification, XML parsing, data tags (none on either
//   side), builtin topic names, entity partitions in the plugin calls (callers pass none), and the
//   corner "no currently valid grant + topic left unprotected" (the code refuses with Err, the
//   statement read literally allows; a permissions handle only exists for a participant that had a
//   valid grant when it was validated) — for a participant without valid grant only "protected =>
//   refused" is required.
#[cfg(test)]
mod verif_xc_permissions {
  use std::time::Instant;

  use chrono::{Duration, TimeZone};

  use super::{
    super::{
      domain_governance_document::{BasicProtectionKind, DomainRule, ProtectionKind, TopicRule},
      AccessControlBuiltin,
    },
    *,
  };
  use crate::{
    dds::qos::QosPolicies,
    discovery::sedp_messages::{
      DiscoveredReaderData, DiscoveredWriterData, PublicationBuiltinTopicData,
      TopicBuiltinTopicData, WriterProxy,
    },
    security::{
      access_control::{LocalEntityAccessControl, RemoteEntityAccessControl},
      types::{PublicationBuiltinTopicDataSecure, SubscriptionBuiltinTopicDataSecure},
    },
    structure::guid::{EntityKind, GUID},
  };

  // ------------------------------------------------------------------ spec data (oracle side)
  #[derive(Clone, PartialEq)]
  struct CritSpec {
    topics: Vec<&'static str>,
    parts: Vec<&'static str>, // empty = no <partitions> section
  }
  #[derive(Clone, Copy, PartialEq)]
  enum Dom {
    Id(u16),
    Range(u16, u16),
    Min(u16),
    Max(u16),
  }
  #[derive(Clone)]
  struct RuleSpec {
    allow: bool,
    domains: Vec<Dom>,
    publish: Vec<CritSpec>,
    subscribe: Vec<CritSpec>,
    relay: Vec<CritSpec>,
  }
  #[derive(Clone)]
  struct GrantSpec {
    subject: &'static str,
    window: (i64, i64), // validity [now + .0 s, now + .1 s)
    rules: Vec<RuleSpec>,
    default_allow: bool,
  }
  #[derive(Clone, Copy, PartialEq, Debug)]
  enum Act {
    Publish,
    Subscribe,
    Relay,
  }
  const ACTS: [Act; 3] = [Act::Publish, Act::Subscribe, Act::Relay];

  fn ad(b: bool) -> &'static str {
    if b { "ALLOW" } else { "DENY" }
  }
  fn show_crits(cs: &[CritSpec]) -> String {
    let v: Vec<String> = cs
      .iter()
      .map(|c| {
        if c.parts.is_empty() {
          format!("topics{:?}", c.topics)
        } else {
          format!("topics{:?}+partitions{:?}", c.topics, c.parts)
        }
      })
      .collect();
    format!("[{}]", v.join(", "))
  }
  fn show_rule(r: &RuleSpec) -> String {
    let d: Vec<String> = r
      .domains
      .iter()
      .map(|d| match d {
        Dom::Id(v) => format!("{}", v),
        Dom::Range(a, b) => format!("{}..={}", a, b),
        Dom::Min(a) => format!("{}..", a),
        Dom::Max(b) => format!("..={}", b),
      })
      .collect();
    format!(
      "{}{{domains[{}] publish{} subscribe{} relay{}}}",
      ad(r.allow),
      d.join(","),
      show_crits(&r.publish),
      show_crits(&r.subscribe),
      show_crits(&r.relay)
    )
  }
  fn show_rules(rs: &[RuleSpec]) -> String {
    let v: Vec<String> = rs.iter().map(show_rule).collect();
    format!("[{}]", v.join("; "))
  }
  fn show_grant(g: &GrantSpec) -> String {
    format!(
      "grant{{subject {} validity now{:+}s..now{:+}s rules{} default {}}}",
      g.subject,
      g.window.0,
      g.window.1,
      show_rules(&g.rules),
      ad(g.default_allow)
    )
  }
  fn show_doc(d: &[GrantSpec]) -> String {
    let v: Vec<String> = d.iter().map(show_grant).collect();
    format!("[{}]", v.join(" | "))
  }

  // ------------------------------------------------------------------ oracle
  // file-name pattern matching (fnmatch without flags), written independently of the glob crate
  fn fnm(p: &[char], s: &[char]) -> bool {
    match p.split_first() {
      None => s.is_empty(),
      Some((&'*', rest)) => (0..=s.len()).any(|k| fnm(rest, &s[k..])),
      Some((&'?', rest)) => !s.is_empty() && fnm(rest, &s[1..]),
      Some((&'[', rest)) => {
        let (neg, body) = match rest.split_first() {
          Some((&'!', r)) => (true, r),
          _ => (false, rest),
        };
        // a ']' directly after the opening is an ordinary member
        match (1..body.len()).find(|&i| body[i] == ']') {
          None => !s.is_empty() && s[0] == '[' && fnm(rest, &s[1..]),
          Some(close) => {
            if s.is_empty() {
              return false;
            }
            let set = &body[..close];
            let mut hit = false;
            let mut i = 0;
            while i < set.len() {
              if i + 2 < set.len() && set[i + 1] == '-' {
                if set[i] <= s[0] && s[0] <= set[i + 2] {
                  hit = true;
                }
                i += 3;
              } else {
                if set[i] == s[0] {
                  hit = true;
                }
                i += 1;
              }
            }
            hit != neg && fnm(&body[close + 1..], &s[1..])
          }
        }
      }
      Some((c, rest)) => !s.is_empty() && s[0] == *c && fnm(rest, &s[1..]),
    }
  }
  fn fnmatch(p: &str, s: &str) -> bool {
    fnm(&p.chars().collect::<Vec<_>>(), &s.chars().collect::<Vec<_>>())
  }

  fn o_dom(d: &Dom, id: u16) -> bool {
    match *d {
      Dom::Id(v) => id == v,
      Dom::Range(a, b) => a <= id && id <= b,
      Dom::Min(a) => a <= id,
      Dom::Max(b) => id <= b,
    }
  }
  fn o_crit(c: &CritSpec, topic: &str, entity_parts: &[&str]) -> bool {
    let default_partition = [""];
    let exprs: &[&str] = if c.parts.is_empty() { &default_partition } else { &c.parts };
    let ents: &[&str] = if entity_parts.is_empty() { &default_partition } else { entity_parts };
    c.topics.iter().any(|e| fnmatch(e, topic))
      && ents.iter().all(|p| exprs.iter().any(|e| fnmatch(e, p)))
  }
  fn o_kind(r: &RuleSpec, act: Act) -> &[CritSpec] {
    match act {
      Act::Publish => &r.publish,
      Act::Subscribe => &r.subscribe,
      Act::Relay => &r.relay,
    }
  }
  fn o_applies(r: &RuleSpec, act: Act, id: u16, topic: &str, parts: &[&str]) -> bool {
    r.domains.iter().any(|d| o_dom(d, id)) && o_kind(r, act).iter().any(|c| o_crit(c, topic, parts))
  }
  /// (verdict, index of the deciding rule or None for the default)
  fn o_check(
    rules: &[RuleSpec],
    default_allow: bool,
    act: Act,
    id: u16,
    topic: &str,
    parts: &[&str],
  ) -> (bool, Option<usize>) {
    for (i, r) in rules.iter().enumerate() {
      if o_applies(r, act, id, topic, parts) {
        return (r.allow, Some(i));
      }
    }
    (default_allow, None)
  }
  fn o_valid(g: &GrantSpec) -> bool {
    g.window.0 <= 0 && 0 < g.window.1
  }

  // ------------------------------------------------------------------ real objects from spec data
  fn pat(s: &str) -> Pattern {
    Pattern::new(s).unwrap()
  }
  fn mk_crit(c: &CritSpec) -> Criterion {
    Criterion {
      topics: c.topics.iter().map(|s| pat(s)).collect(),
      partitions: c.parts.iter().map(|s| pat(s)).collect(),
      data_tags: vec![],
    }
  }
  fn mk_rule(r: &RuleSpec) -> Rule {
    Rule {
      verdict: if r.allow { AllowOrDeny::Allow } else { AllowOrDeny::Deny },
      domains: r
        .domains
        .iter()
        .map(|d| match *d {
          Dom::Id(v) => DomainIds::Value(v),
          Dom::Range(a, b) => DomainIds::Range(a, b),
          Dom::Min(a) => DomainIds::Min(a),
          Dom::Max(b) => DomainIds::Max(b),
        })
        .collect(),
      publish: r.publish.iter().map(mk_crit).collect(),
      subscribe: r.subscribe.iter().map(mk_crit).collect(),
      relay: r.relay.iter().map(mk_crit).collect(),
    }
  }
  fn mk_action(a: Act) -> Action {
    match a {
      Act::Publish => Action::Publish,
      Act::Subscribe => Action::Subscribe,
      Act::Relay => Action::Relay,
    }
  }
  struct Names {
    alice: DistinguishedName,
    bob: DistinguishedName,
    carol: DistinguishedName,
  }
  impl Names {
    fn new() -> Self {
      Names {
        alice: DistinguishedName::parse("CN=alice,O=xc").unwrap(),
        bob: DistinguishedName::parse("CN=bob,O=xc").unwrap(),
        carol: DistinguishedName::parse("CN=carol,O=xc").unwrap(),
      }
    }
    fn get(&self, s: &str) -> DistinguishedName {
      match s {
        "alice" => self.alice.clone(),
        "bob" => self.bob.clone(),
        "carol" => self.carol.clone(),
        _ => unreachable!(),
      }
    }
  }
  fn mk_grant_with(g: &GrantSpec, rules: Vec<Rule>, names: &Names, now: DateTime<Utc>) -> Grant {
    Grant {
      subject_name: names.get(g.subject),
      validity: (now + Duration::seconds(g.window.0))..(now + Duration::seconds(g.window.1)),
      rules,
      default_action: if g.default_allow { AllowOrDeny::Allow } else { AllowOrDeny::Deny },
    }
  }
  fn mk_grant(g: &GrantSpec, names: &Names, now: DateTime<Utc>) -> Grant {
    mk_grant_with(g, g.rules.iter().map(mk_rule).collect(), names, now)
  }
  fn mk_doc(d: &[GrantSpec], names: &Names, now: DateTime<Utc>) -> DomainParticipantPermissions {
    DomainParticipantPermissions {
      grants: d.iter().map(|g| mk_grant(g, names, now)).collect(),
      original_string: String::new(),
    }
  }
  fn real_check(g: &Grant, act: Act, id: u16, topic: &str, parts: &[&str]) -> bool {
    g.check_action(mk_action(act), id, topic, parts, &[]).into()
  }

  // ------------------------------------------------------------------ enumeration domains
  const TOPIC_EXPRS: [&str; 5] = ["T", "T*", "?x", "[ab]c", "*"];
  const PART_SECTIONS: [&[&str]; 4] = [&[], &["A*"], &["", "P"], &["*"]];
  const TOPICS: [&str; 6] = ["T", "Tx", "ax", "bc", "zz", ""];
  const ENTITY_PARTS: [&[&str]; 5] = [&[], &[""], &["Ab"], &["P"], &["Ab", "P"]];
  const YEAR: i64 = 365 * 24 * 3600;

  fn crit(topics: &[&'static str], parts: &[&'static str]) -> CritSpec {
    CritSpec { topics: topics.to_vec(), parts: parts.to_vec() }
  }
  fn all_criteria() -> Vec<CritSpec> {
    let mut topic_lists: Vec<Vec<&'static str>> = vec![];
    for a in TOPIC_EXPRS {
      topic_lists.push(vec![a]);
    }
    for a in TOPIC_EXPRS {
      for b in TOPIC_EXPRS {
        if a != b {
          topic_lists.push(vec![a, b]);
        }
      }
    }
    let mut v = vec![];
    for t in &topic_lists {
      for p in PART_SECTIONS {
        v.push(CritSpec { topics: t.clone(), parts: p.to_vec() });
      }
    }
    v
  }
  fn with_kind(act: Act, l: Vec<CritSpec>, o1: Vec<CritSpec>, o2: Vec<CritSpec>) -> [Vec<CritSpec>; 3] {
    // returns [publish, subscribe, relay] with `l` in the slot of `act` and o1, o2 in the others
    match act {
      Act::Publish => [l, o1, o2],
      Act::Subscribe => [o1, l, o2],
      Act::Relay => [o1, o2, l],
    }
  }
  fn one_rule_grant(r: RuleSpec) -> GrantSpec {
    // the default is the opposite of the rule's verdict: the decision shows whether the rule applied
    GrantSpec { subject: "alice", window: (-YEAR, YEAR), default_allow: !r.allow, rules: vec![r] }
  }

  // ------------------------------------------------------------------ tests
  #[test]
  fn xc_fnmatch_oracle_selfcheck() {
    // the oracle's pattern semantics on the textbook cases (guards the oracle, not the code)
    let yes = [("T", "T"), ("T*", "T"), ("T*", "Tx"), ("?x", "ax"), ("[ab]c", "bc"), ("*", ""), ("", ""),
               ("[!a]x", "bx"), ("[a-c]", "b"), ("A*", "Ab"), ("*b", "Ab")];
    let no = [("T", "Tx"), ("T", ""), ("?x", "x"), ("?x", "axx"), ("[ab]c", "cc"), ("[ab]c", "abc"), ("", "P"),
              ("[!a]x", "ax"), ("[a-c]", "d"), ("A*", "P"), ("A*", "")];
    for (p, s) in yes {
      assert!(fnmatch(p, s), "oracle fnmatch({:?},{:?}) must hold", p, s);
    }
    for (p, s) in no {
      assert!(!fnmatch(p, s), "oracle fnmatch({:?},{:?}) must not hold", p, s);
    }
  }

  #[test]
  fn xc_criterion_patterns_and_partitions() {
    let names = Names::new();
    let now = Utc.with_ymd_and_hms(2024, 6, 1, 0, 0, 0).unwrap();
    let mut n = 0u64;
    let (mut n_match, mut n_nomatch) = (0u64, 0u64);
    for c in all_criteria() {
      for kind in ACTS {
        let [publish, subscribe, relay] = with_kind(kind, vec![c.clone()], vec![], vec![]);
        let r = RuleSpec { allow: true, domains: vec![Dom::Range(0, 65535)], publish, subscribe, relay };
        let gs = one_rule_grant(r);
        let g = mk_grant(&gs, &names, now);
        for act in ACTS {
          for topic in TOPICS {
            for parts in ENTITY_PARTS {
              let want = act == kind && o_crit(&c, topic, parts);
              let real = real_check(&g, act, 7, topic, parts);
              assert!(
                real == want,
                "XC-WITNESS label=c18.criterion rule={} default=DENY action={:?} domain=7 topic={:?} entity_partitions={:?}: \
                 check_action says {} but the {:?} criterion {} (file-name pattern semantics, default partition \"\" on both sides) => {}",
                show_rule(&gs.rules[0]), act, topic, parts, ad(real), kind,
                if act != kind { "is of another action kind" } else if want { "matches topic and all entity partitions" } else { "does not match topic and all entity partitions" },
                ad(want)
              );
              if want { n_match += 1 } else { n_nomatch += 1 }
              n += 1;
            }
          }
        }
      }
    }
    assert!(n >= 27_000 && n_match > 3_000 && n_nomatch > 3_000, "vacuity guard: {} cases, {} matching, {} not", n, n_match, n_nomatch);
  }

  fn domain_sets() -> Vec<(Vec<Dom>, Vec<u16>)> {
    vec![
      (vec![Dom::Id(5)], vec![4, 5, 6]),
      (vec![Dom::Range(3, 6)], vec![2, 3, 4, 5, 6, 7]),
      (vec![Dom::Id(1), Dom::Range(8, 9), Dom::Min(12)], vec![0, 1, 2, 7, 8, 9, 10, 11, 12, 13, 65535]),
      (vec![Dom::Max(2), Dom::Id(7)], vec![0, 1, 2, 3, 6, 7, 8, 65535]),
    ]
  }

  #[test]
  fn xc_rule_applicability() {
    let names = Names::new();
    let now = Utc.with_ymd_and_hms(2024, 6, 1, 0, 0, 0).unwrap();
    // criteria lists of the queried kind: [], 12 singletons, 30 ordered pairs of 6
    let six = [
      crit(&["T"], &[]),
      crit(&["T*"], &["A*"]),
      crit(&["?x", "T"], &["", "P"]),
      crit(&["[ab]c"], &["*"]),
      crit(&["*"], &["A*"]),
      crit(&["zz*", "?x"], &[]),
    ];
    let mut lists: Vec<Vec<CritSpec>> = vec![vec![]];
    for c in &six {
      lists.push(vec![c.clone()]);
    }
    for c in [crit(&["*"], &[]), crit(&["*"], &["*"]), crit(&["T*", "[ab]c"], &["", "P"]), crit(&["?x"], &["A*"]),
              crit(&["T"], &["*"]), crit(&["[ab]c", "T"], &[])] {
      lists.push(vec![c]);
    }
    for a in &six {
      for b in &six {
        if a != b {
          lists.push(vec![a.clone(), b.clone()]);
        }
      }
    }
    let everything = crit(&["*"], &["*"]);
    let decoys: [(Vec<CritSpec>, Vec<CritSpec>); 4] = [
      (vec![], vec![]),
      (vec![everything.clone()], vec![]),
      (vec![], vec![everything.clone()]),
      (vec![everything.clone()], vec![everything.clone()]),
    ];
    let mut n = 0u64;
    let (mut n_app, mut n_dom_only, mut n_crit_only) = (0u64, 0u64, 0u64);
    let mut flip = false;
    for (domains, ids) in domain_sets() {
      for kind in ACTS {
        for (o1, o2) in &decoys {
          for l in &lists {
            flip = !flip;
            let [publish, subscribe, relay] = with_kind(kind, l.clone(), o1.clone(), o2.clone());
            let r = RuleSpec { allow: flip, domains: domains.clone(), publish, subscribe, relay };
            let gs = one_rule_grant(r);
            let g = mk_grant(&gs, &names, now);
            let r = &gs.rules[0];
            for &id in &ids {
              for topic in TOPICS {
                for parts in ENTITY_PARTS {
                  // the rule's own kind sees the enumerated list, the two other kinds see the decoys
                  for act in ACTS {
                  let applies = o_applies(r, act, id, topic, parts);
                  let want = if applies { r.allow } else { gs.default_allow };
                  let real = real_check(&g, act, id, topic, parts);
                  assert!(
                    real == want,
                    "XC-WITNESS label=c18.rule rule={} default={} action={:?} domain={} topic={:?} entity_partitions={:?}: \
                     check_action says {} but the rule {} (domain set {} the id, {:?} criteria {}) => {}",
                    show_rule(r), ad(gs.default_allow), act, id, topic, parts, ad(real),
                    if applies { "applies" } else { "does not apply" },
                    if r.domains.iter().any(|d| o_dom(d, id)) { "contains" } else { "does not contain" },
                    act,
                    if o_kind(r, act).iter().any(|c| o_crit(c, topic, parts)) { "match" } else { "do not match" },
                    ad(want)
                  );
                  let dom_ok = r.domains.iter().any(|d| o_dom(d, id));
                  let crit_ok = o_kind(r, act).iter().any(|c| o_crit(c, topic, parts));
                  if applies { n_app += 1 } else if dom_ok { n_dom_only += 1 } else if crit_ok { n_crit_only += 1 }
                  n += 1;
                  }
                }
              }
            }
          }
        }
      }
    }
    assert!(
      n > 1_000_000 && n_app > 50_000 && n_dom_only > 50_000 && n_crit_only > 50_000,
      "vacuity guard: {} cases, {} applicable, {} domain only, {} criteria only", n, n_app, n_dom_only, n_crit_only
    );
  }

  fn rule_pool() -> Vec<RuleSpec> {
    let layouts: [[Vec<CritSpec>; 3]; 4] = [
      [vec![crit(&["T*"], &[])], vec![crit(&["?x"], &["A*"])], vec![]],
      [vec![crit(&["[ab]c"], &["", "P"])], vec![crit(&["T"], &[]), crit(&["*"], &["*"])], vec![crit(&["T*"], &["*"])]],
      [vec![crit(&["*"], &["*"])], vec![], vec![crit(&["?x", "T"], &[])]],
      [vec![], vec![crit(&["T*", "[ab]c"], &["A*"])], vec![crit(&["*"], &["", "P"])]],
    ];
    let mut v = vec![];
    for allow in [true, false] {
      for domains in [vec![Dom::Range(3, 6)], vec![Dom::Id(1), Dom::Range(5, 9)], vec![Dom::Id(5)]] {
        for [p, s, r] in &layouts {
          v.push(RuleSpec { allow, domains: domains.clone(), publish: p.clone(), subscribe: s.clone(), relay: r.clone() });
        }
      }
    }
    v
  }

  #[test]
  fn xc_first_applicable_rule_else_default() {
    let names = Names::new();
    let now = Utc.with_ymd_and_hms(2024, 6, 1, 0, 0, 0).unwrap();
    let pool = rule_pool();
    let real_pool: Vec<Rule> = pool.iter().map(mk_rule).collect();
    // queries
    let mut queries: Vec<(Act, u16, &'static str, &'static [&'static str])> = vec![];
    for act in ACTS {
      for id in [1u16, 4, 5, 7] {
        for topic in ["T", "Tx", "bc", "zz"] {
          let plists: [&'static [&'static str]; 3] = [&[], &["Ab"], &["Ab", "P"]];
          for parts in plists {
            queries.push((act, id, topic, parts));
          }
        }
      }
    }
    // oracle: applicability of every pool rule to every query (from the spec data only)
    let app: Vec<Vec<bool>> = pool
      .iter()
      .map(|r| queries.iter().map(|&(a, id, t, p)| o_applies(r, a, id, t, p)).collect())
      .collect();
    // all index lists of length 0..=3
    let k = pool.len();
    let mut lists: Vec<Vec<usize>> = vec![vec![]];
    for a in 0..k {
      lists.push(vec![a]);
      for b in 0..k {
        lists.push(vec![a, b]);
        for c in 0..k {
          lists.push(vec![a, b, c]);
        }
      }
    }
    lists.sort_by_key(|l| l.len()); // shortest witness first
    let mut n = 0u64;
    let (mut n_default, mut n_first, mut n_later, mut n_conflict) = (0u64, 0u64, 0u64, 0u64);
    for l in &lists {
      for default_allow in [false, true] {
        let gs = GrantSpec { subject: "alice", window: (-YEAR, YEAR), rules: vec![], default_allow };
        let g = mk_grant_with(&gs, l.iter().map(|&i| real_pool[i].clone()).collect(), &names, now);
        for (qi, &(act, id, topic, parts)) in queries.iter().enumerate() {
          let decider = l.iter().position(|&i| app[i][qi]);
          let want = match decider {
            Some(pos) => pool[l[pos]].allow,
            None => default_allow,
          };
          let real = real_check(&g, act, id, topic, parts);
          if real != want {
            let rules: Vec<RuleSpec> = l.iter().map(|&i| pool[i].clone()).collect();
            // cross-check the table against the direct oracle before blaming the code
            let (w2, d2) = o_check(&rules, default_allow, act, id, topic, parts);
            assert!(w2 == want && d2 == decider, "oracle table inconsistent");
            let applicable: Vec<usize> = (0..l.len()).filter(|&p| app[l[p]][qi]).collect();
            match decider {
              Some(pos) => panic!(
                "XC-WITNESS label=c18.first_rule rules={} default={} action={:?} domain={} topic={:?} entity_partitions={:?}: \
                 check_action says {} but the applicable rules are #{:?} (0-based) and the FIRST of them, #{}, says {}",
                show_rules(&rules), ad(default_allow), act, id, topic, parts, ad(real), applicable, pos, ad(want)
              ),
              None => panic!(
                "XC-WITNESS label=c18.default rules={} default={} action={:?} domain={} topic={:?} entity_partitions={:?}: \
                 check_action says {} but no rule applies, so the grant's default {} decides",
                show_rules(&rules), ad(default_allow), act, id, topic, parts, ad(real), ad(want)
              ),
            }
          }
          match decider {
            None => n_default += 1,
            Some(0) => n_first += 1,
            Some(_) => n_later += 1,
          }
          if let Some(pos) = decider {
            if l.iter().enumerate().any(|(p, &i)| p > pos && app[i][qi] && pool[i].allow != want) {
              n_conflict += 1;
            }
          }
          n += 1;
        }
      }
    }
    assert!(
      n > 4_000_000 && n_default > 100_000 && n_first > 100_000 && n_later > 100_000 && n_conflict > 50_000,
      "vacuity guard: {} cases, {} default, {} first rule, {} later rule, {} with a later applicable rule of the other verdict",
      n, n_default, n_first, n_later, n_conflict
    );
  }

  #[test]
  fn xc_find_grant_subject_and_validity() {
    let names = Names::new();
    let now = Utc.with_ymd_and_hms(2024, 6, 1, 12, 0, 0).unwrap();
    let windows: [(i64, i64); 5] = [
      (-10 * YEAR, -1),   // expired a second ago
      (-10 * YEAR, 1),    // ends in a second
      (0, 10 * YEAR),     // starts right now
      (1, 10 * YEAR),     // starts in a second
      (-YEAR, YEAR),      // around now
    ];
    let mut kinds: Vec<GrantSpec> = vec![];
    for subject in ["alice", "bob"] {
      for window in windows {
        kinds.push(GrantSpec { subject, window, rules: vec![], default_allow: false });
      }
    }
    let k = kinds.len();
    let mut docs: Vec<Vec<usize>> = vec![];
    for a in 0..k {
      docs.push(vec![a]);
      for b in 0..k {
        docs.push(vec![a, b]);
        for c in 0..k {
          docs.push(vec![a, b, c]);
        }
      }
    }
    docs.sort_by_key(|d| d.len()); // shortest witness first
    let mut n = 0u64;
    let (mut n_none, mut n_first, mut n_later, mut n_skipped_invalid_same_subject) = (0u64, 0u64, 0u64, 0u64);
    for d in &docs {
      let spec: Vec<GrantSpec> = d.iter().map(|&i| kinds[i].clone()).collect();
      let doc = mk_doc(&spec, &names, now);
      for who in ["alice", "bob", "carol"] {
        let good: Vec<usize> = (0..spec.len()).filter(|&i| spec[i].subject == who && o_valid(&spec[i])).collect();
        let real = doc.find_grant(&names.get(who), &now);
        let real_idx = real.map(|g| doc.grants.iter().position(|x| std::ptr::eq(x, g)).unwrap());
        match real_idx {
          None => assert!(
            good.is_empty(),
            "XC-WITNESS label=c18.find_grant document={} subject={} now=now: find_grant found no grant but grant #{} (0-based) is for this subject and currently valid",
            show_doc(&spec), who, good[0]
          ),
          Some(i) => {
            assert!(
              good.contains(&i),
              "XC-WITNESS label=c18.find_grant document={} subject={} now=now: find_grant returned grant #{} which is {} (currently valid grants of the subject: {:?})",
              show_doc(&spec), who, i,
              if spec[i].subject != who { "for another subject" } else { "not valid now" }, good
            );
            assert!(
              i == good[0],
              "XC-WITNESS label=c18.find_grant.first document={} subject={} now=now: find_grant returned grant #{} but the FIRST currently valid grant of the subject is #{}",
              show_doc(&spec), who, i, good[0]
            );
          }
        }
        match good.first() {
          None => n_none += 1,
          Some(0) => n_first += 1,
          Some(&f) => {
            n_later += 1;
            if (0..f).any(|j| spec[j].subject == who) {
              n_skipped_invalid_same_subject += 1;
            }
          }
        }
        n += 1;
      }
    }
    assert!(
      n >= 3_330 && n_none > 500 && n_first > 300 && n_later > 300 && n_skipped_invalid_same_subject > 100,
      "vacuity guard: {} cases, {} none, {} first, {} later, {} behind an invalid grant of the same subject",
      n, n_none, n_first, n_later, n_skipped_invalid_same_subject
    );
  }

  // ------------------------------------------------------------------ governance side
  #[derive(Clone, Copy, PartialEq, Debug)]
  struct TopicRuleSpec {
    expr: &'static str,
    read: bool,  // enable_read_access_control
    write: bool, // enable_write_access_control
  }
  fn show_gov(g: &[TopicRuleSpec]) -> String {
    let v: Vec<String> = g
      .iter()
      .map(|t| format!("{{topic_expression {:?} enable_read_access_control={} enable_write_access_control={}}}", t.expr, t.read, t.write))
      .collect();
    format!("[{}]", v.join(", "))
  }
  /// governance leaves the read (or write) access to the topic unprotected
  fn o_unprotected(gov: &[TopicRuleSpec], topic: &str, read: bool) -> bool {
    match gov.iter().find(|t| fnmatch(t.expr, topic)) {
      Some(t) => !(if read { t.read } else { t.write }),
      None => false,
    }
  }
  fn mk_domain_rule(gov: &[TopicRuleSpec]) -> DomainRule {
    DomainRule {
      domains: vec![DomainIds::Min(0)],
      allow_unauthenticated_participants: false,
      enable_join_access_control: true,
      discovery_protection_kind: ProtectionKind::None,
      liveliness_protection_kind: ProtectionKind::None,
      rtps_protection_kind: ProtectionKind::None,
      topic_access_rules: gov
        .iter()
        .map(|t| TopicRule {
          topic_expression: pat(t.expr),
          enable_discovery_protection: false,
          enable_liveliness_protection: false,
          enable_read_access_control: t.read,
          enable_write_access_control: t.write,
          metadata_protection_kind: ProtectionKind::None,
          data_protection_kind: BasicProtectionKind::None,
        })
        .collect(),
    }
  }
  #[derive(Clone, Copy, PartialEq, Debug)]
  enum Fun {
    CreateWriter,
    CreateReader,
    CreateTopic,
    RemoteWriter,
    RemoteReader,
    RemoteTopic,
  }
  const FUNS: [Fun; 6] = [Fun::CreateWriter, Fun::CreateReader, Fun::CreateTopic, Fun::RemoteWriter, Fun::RemoteReader, Fun::RemoteTopic];
  struct Remote {
    topic: &'static str,
    publication: PublicationBuiltinTopicDataSecure,
    subscription: SubscriptionBuiltinTopicDataSecure,
    topic_data: TopicBuiltinTopicData,
  }
  fn mk_remote(topic: &'static str) -> Remote {
    let wguid = GUID::dummy_test_guid(EntityKind::WRITER_NO_KEY_USER_DEFINED);
    Remote {
      topic,
      publication: PublicationBuiltinTopicDataSecure {
        discovered_writer_data: DiscoveredWriterData {
          last_updated: Instant::now(),
          writer_proxy: WriterProxy::new(wguid, vec![], vec![]),
          publication_topic_data: PublicationBuiltinTopicData::new(wguid, None, topic.to_string(), "xc_type".to_string(), None),
        },
        data_tags: None,
      },
      subscription: SubscriptionBuiltinTopicDataSecure {
        discovered_reader_data: DiscoveredReaderData::default(topic.to_string(), "xc_type".to_string()),
        data_tags: None,
      },
      topic_data: TopicBuiltinTopicData::new(None, topic.to_string(), "xc_type".to_string(), &QosPolicies::qos_none()),
    }
  }
  /// (allowed, relay_only if the function reports it, "Err" / "Ok(..)" text)
  fn real_entity(ac: &AccessControlBuiltin, h: u32, f: Fun, id: u16, rem: &Remote, qos: &QosPolicies) -> (bool, Option<bool>, String) {
    let simple = |r: crate::security::SecurityResult<bool>| match r {
      Ok(b) => (b, None, format!("Ok({})", b)),
      Err(e) => (false, None, format!("Err({:?})", e)),
    };
    match f {
      Fun::CreateWriter => simple(ac.check_create_datawriter(h, id, rem.topic.to_string(), qos)),
      Fun::CreateReader => simple(ac.check_create_datareader(h, id, rem.topic.to_string(), qos)),
      Fun::CreateTopic => simple(ac.check_create_topic(h, id, rem.topic.to_string(), qos)),
      Fun::RemoteWriter => simple(ac.check_remote_datawriter(h, id, &rem.publication)),
      Fun::RemoteTopic => simple(ac.check_remote_topic(h, id, &rem.topic_data)),
      Fun::RemoteReader => match ac.check_remote_datareader(h, id, &rem.subscription) {
        Ok((b, ro)) => (b, Some(ro), format!("Ok(({}, relay_only={}))", b, ro)),
        Err(e) => (false, None, format!("Err({:?})", e)),
      },
    }
  }

  fn gov_rule_kinds() -> Vec<TopicRuleSpec> {
    let mut v = vec![];
    for expr in ["T*", "*", "[ab]c"] {
      for read in [false, true] {
        for write in [false, true] {
          v.push(TopicRuleSpec { expr, read, write });
        }
      }
    }
    v
  }
  fn grant_designs() -> Vec<(Vec<RuleSpec>, bool)> {
    let d = vec![Dom::Range(3, 6)];
    let r = |allow: bool, p: Vec<CritSpec>, s: Vec<CritSpec>, rl: Vec<CritSpec>| RuleSpec { allow, domains: d.clone(), publish: p, subscribe: s, relay: rl };
    let pool = vec![
      r(true, vec![crit(&["T*"], &[])], vec![], vec![]),
      r(true, vec![], vec![crit(&["T*"], &[])], vec![]),
      r(true, vec![], vec![], vec![crit(&["*"], &[])]),
      r(false, vec![crit(&["T"], &[])], vec![crit(&["T"], &[])], vec![crit(&["T"], &[])]),
      r(false, vec![crit(&["*"], &[])], vec![crit(&["?x"], &[])], vec![]),
      r(true, vec![crit(&["[ab]c"], &["A*"])], vec![crit(&["[ab]c"], &[])], vec![]),
    ];
    let mut lists: Vec<Vec<RuleSpec>> = vec![vec![]];
    for a in &pool {
      lists.push(vec![a.clone()]);
      for b in &pool {
        lists.push(vec![a.clone(), b.clone()]);
      }
    }
    let mut v = vec![];
    for l in lists {
      for default_allow in [false, true] {
        v.push((l.clone(), default_allow));
      }
    }
    v
  }

  struct GovStats {
    n: u64,
    unprot_only: u64,
    grant_only: u64,
    neither: u64,
    relay_only: u64,
    no_grant: u64,
  }

  /// one (governance, permissions document) pair, all functions x topics x domain ids
  fn check_gov_case(ac: &AccessControlBuiltin, h: u32, gov: &[TopicRuleSpec], doc: &[GrantSpec], remotes: &[Remote], qos: &QosPolicies, st: &mut GovStats) {
    let grant = doc.iter().find(|g| g.subject == "alice" && o_valid(g));
    for rem in remotes {
      let topic = rem.topic;
      for id in [3u16, 7] {
        let un_r = o_unprotected(gov, topic, true);
        let un_w = o_unprotected(gov, topic, false);
        for f in FUNS {
          let (real, real_ro, text) = real_entity(ac, h, f, id, rem, qos);
          let ctx = || format!("governance_topic_rules={} permissions={} subject=alice call={:?} domain={} topic={:?}", show_gov(gov), show_doc(doc), f, id, topic);
          let g = match grant {
            Some(g) => g,
            None => {
              // no currently valid grant: the grant clause cannot hold; refused unless left unprotected
              let protected = match f {
                Fun::CreateWriter | Fun::RemoteWriter => !un_w,
                Fun::CreateReader | Fun::RemoteReader => !un_r,
                Fun::CreateTopic | Fun::RemoteTopic => !un_w && !un_r,
              };
              if protected {
                assert!(!real, "XC-WITNESS label=c18.governance {}: returned {} (allowed) but the access is protected and the subject has no currently valid grant", ctx(), text);
                st.no_grant += 1;
              }
              st.n += 1;
              continue;
            }
          };
          let v = |a: Act| o_check(&g.rules, g.default_allow, a, id, topic, &[]).0;
          let writer_ok = un_w || v(Act::Publish);
          let reader_ok = un_r || v(Act::Subscribe);
          let (want, want_ro, unprot, by_grant) = match f {
            Fun::CreateWriter | Fun::RemoteWriter => (writer_ok, None, un_w, v(Act::Publish)),
            Fun::CreateReader => (reader_ok, None, un_r, v(Act::Subscribe)),
            Fun::CreateTopic | Fun::RemoteTopic => (writer_ok || reader_ok, None, un_w || un_r, v(Act::Publish) || v(Act::Subscribe)),
            Fun::RemoteReader => {
              let relay_only = !reader_ok && v(Act::Relay);
              (reader_ok || relay_only, Some(relay_only), un_r, v(Act::Subscribe) || v(Act::Relay))
            }
          };
          assert!(
            real == want,
            "XC-WITNESS label=c18.governance {}: returned {} but governance leaves the access {} and the grant decision is publish={} subscribe={} relay={} => {}",
            ctx(), text, if unprot { "UNPROTECTED" } else { "protected" },
            ad(v(Act::Publish)), ad(v(Act::Subscribe)), ad(v(Act::Relay)), if want { "allowed" } else { "refused" }
          );
          if let (Some(w), Some(r)) = (want_ro, real_ro) {
            assert!(
              r == w,
              "XC-WITNESS label=c18.governance.relay_only {}: returned {} but read access is {} / subscribe={} relay={} => relay_only must be {}",
              ctx(), text, if un_r { "UNPROTECTED" } else { "protected" }, ad(v(Act::Subscribe)), ad(v(Act::Relay)), w
            );
            if w { st.relay_only += 1 }
          }
          match (unprot, by_grant) {
            (true, false) => st.unprot_only += 1,
            (false, true) => st.grant_only += 1,
            (false, false) => st.neither += 1,
            _ => {}
          }
          st.n += 1;
        }
      }
    }
  }

  fn all_gov_lists() -> Vec<Vec<TopicRuleSpec>> {
    let kinds = gov_rule_kinds();
    let mut govs: Vec<Vec<TopicRuleSpec>> = vec![vec![]];
    for a in &kinds {
      govs.push(vec![*a]);
      for b in &kinds {
        govs.push(vec![*a, *b]);
      }
    }
    govs.sort_by_key(|g| g.len()); // shortest witness first
    govs
  }

  #[test]
  fn xc_governance_unprotected_or_granted() {
    let names = Names::new();
    let now = Utc::now(); // the plugin reads the real clock; every window below is >= 10 years away from it
    let qos = QosPolicies::qos_none();
    let remotes: Vec<Remote> = ["T", "Tx", "bc", "zz"].into_iter().map(mk_remote).collect();
    let designs = grant_designs();
    let docs: Vec<Vec<GrantSpec>> = designs
      .iter()
      .map(|(rules, default_allow)| vec![GrantSpec { subject: "alice", window: (-10 * YEAR, 10 * YEAR), rules: rules.clone(), default_allow: *default_allow }])
      .collect();
    let real_docs: Vec<DomainParticipantPermissions> = docs.iter().map(|d| mk_doc(d, &names, now)).collect();
    let mut st = GovStats { n: 0, unprot_only: 0, grant_only: 0, neither: 0, relay_only: 0, no_grant: 0 };
    for gov in all_gov_lists() {
      let dr = mk_domain_rule(&gov);
      let mut ac = AccessControlBuiltin::new();
      for (i, rd) in real_docs.iter().enumerate() {
        let h = (i + 1) as u32;
        ac.domain_rules.insert(h, dr.clone());
        ac.domain_participant_permissions.insert(h, (names.alice.clone(), rd.clone()));
      }
      for (i, d) in docs.iter().enumerate() {
        check_gov_case(&ac, (i + 1) as u32, &gov, d, &remotes, &qos, &mut st);
      }
    }
    assert!(
      st.n > 600_000 && st.unprot_only > 50_000 && st.grant_only > 50_000 && st.neither > 50_000 && st.relay_only > 1_000,
      "vacuity guard: {} cases, {} unprotected only, {} granted only, {} neither, {} relay-only", st.n, st.unprot_only, st.grant_only, st.neither, st.relay_only
    );
  }

  #[test]
  fn xc_governance_uses_currently_valid_grant() {
    let names = Names::new();
    let now = Utc::now();
    let qos = QosPolicies::qos_none();
    let remotes: Vec<Remote> = ["T", "Tx", "bc", "zz"].into_iter().map(mk_remote).collect();
    let rw = |expr, read, write| TopicRuleSpec { expr, read, write };
    let govs: Vec<Vec<TopicRuleSpec>> = vec![
      vec![],
      vec![rw("*", true, true)],
      vec![rw("*", false, false)],
      vec![rw("*", true, false)],
      vec![rw("T*", false, true), rw("*", true, true)],
    ];
    let current = (-10 * YEAR, 10 * YEAR);
    let past = (-20 * YEAR, -10 * YEAR);
    let future = (10 * YEAR, 20 * YEAR);
    let flat = |subject, window, default_allow| GrantSpec { subject, window, rules: vec![], default_allow };
    let mut st = GovStats { n: 0, unprot_only: 0, grant_only: 0, neither: 0, relay_only: 0, no_grant: 0 };
    let mut n_docs = 0u64;
    for (rules, default_allow) in grant_designs() {
      let g = |window| GrantSpec { subject: "alice", window, rules: rules.clone(), default_allow };
      let docs: Vec<Vec<GrantSpec>> = vec![
        vec![flat("alice", past, true), g(current)],  // expired allow-everything grant kept in front of the renewal
        vec![flat("alice", past, false), g(current)], // expired deny-everything grant in front
        vec![flat("alice", future, true), g(current)], // pre-provisioned future grant in front
        vec![flat("bob", current, true), g(current), flat("bob", current, false)], // another subject's grants around
        vec![flat("bob", current, false), flat("alice", past, true), flat("alice", future, false), g(current)],
        vec![g(past), flat("bob", current, true), flat("alice", future, true)], // no currently valid grant
      ];
      for gov in &govs {
        let dr = mk_domain_rule(gov);
        let mut ac = AccessControlBuiltin::new();
        for (i, d) in docs.iter().enumerate() {
          let h = (i + 1) as u32;
          ac.domain_rules.insert(h, dr.clone());
          ac.domain_participant_permissions.insert(h, (names.alice.clone(), mk_doc(d, &names, now)));
        }
        for (i, d) in docs.iter().enumerate() {
          check_gov_case(&ac, (i + 1) as u32, gov, d, &remotes, &qos, &mut st);
          n_docs += 1;
        }
      }
    }
    assert!(
      n_docs >= 2_580 && st.n > 100_000 && st.grant_only > 10_000 && st.neither > 10_000 && st.no_grant > 2_000,
      "vacuity guard: {} documents, {} cases, {} granted only, {} neither, {} refused without valid grant", n_docs, st.n, st.grant_only, st.neither, st.no_grant
    );
  }
}
