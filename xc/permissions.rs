//@ append: src/security/access_control/access_control_builtin/domain_participant_permissions_document.rs
// Executable contract of the rule-evaluation layer of the builtin access control plugin (C18) —
// bounded stand-in / witness search on the REAL code with the REAL glob matcher (the Kani harnesses
// stub it, and no harness covers Grant::check_action / AccessControlBuiltin::check_entity).
// Oracle, written from the property statement + DDS Security 1.1 9.4.1.3 / 9.4.1.2.7 on plain spec
// data (strings / tuples), never on the Rust types under test:
//   * file-name patterns: an own tiny fnmatch (`*`, `?`, `[...]` with ranges and `!`), no flags;
//   * the default partition is "" on both sides: an entity that names no partition is in [""], a
//     criterion without a partitions section lists [""];
//   * a criterion matches iff SOME topic expression matches the topic and EVERY entity partition is
//     matched by SOME partition expression;
//   * a rule applies iff SOME entry of its domain set contains the domain id (id: equal, range:
//     min <= id <= max, open ranges) and SOME criterion OF THE QUERIED ACTION KIND matches;
//   * check_action = verdict of the FIRST applicable rule, else the grant's default;
//   * find_grant = (statement) a grant of the subject whose validity contains `now`, none iff there
//     is none; (clause of obligation c18.find_grant) the FIRST such grant;
//   * governance: the first topic rule whose expression matches the topic decides; the access is
//     unprotected iff that rule has enable_read_access_control (reader) / enable_write_access_control
//     (writer) = false; no matching topic rule = not left unprotected;
//     writer allowed  <=> write unprotected || grant allows publish
//     reader allowed  <=> read unprotected  || grant allows subscribe
//     topic allowed   <=> a writer or a reader on it would be allowed (interpretation of "that access")
//     remote reader   =  (reader allowed || relay allowed,  relay_only = !reader allowed && relay allowed)
//     "allowed" = Ok(true); Ok(false) and Err both count as refused.
// Bound:
//   criteria: every criterion with 1..=2 topic expressions (ordered, distinct) from {T, T*, ?x, [ab]c, *}
//     and a partitions section from {absent, [A*], ["", P], [*]} (100), as publish / subscribe / relay
//     criterion; topics {T, Tx, ax, bc, zz, ""}; entity partitions {[], [""], [Ab], [P], [Ab,P]};
//   rules: domain sets {[5], [3..6], [1, 8..9, 12..], [..2, 7]} x every id at a boundary +-1 (and 65535),
//     criteria lists of length 0..=2 (43 lists) in the queried kind, the two other kinds empty or
//     match-everything decoys, all 3 x 3 (rule kind, queried kind) pairs, all topics / entity partitions;
//   grants: every rule list of length 0..=3 over a pool of 24 rules (2 verdicts x 3 domain sets x 4
//     criteria layouts) x both defaults (28850 grants) x 3 actions x 4 domain ids x 4 topics x 3
//     entity partition lists;
//   find_grant: every document of 1..=3 grants over 2 subjects x 5 validity windows (expired 1 s ago,
//     ends in 1 s, starts now, starts in 1 s, around now), queried for 3 subjects (one unknown);
//     the instant not_after itself is NOT tested (half-open vs. closed is an assumption of C18);
//   governance: every topic-rule list of length 0..=2 over {T*, *, [ab]c} x read flag x write flag
//     (157 lists) x every grant with 0..=2 rules from a pool of 6 x both defaults (86) x
//     {check_create_datawriter, _datareader, _topic, check_remote_datawriter, _datareader, _topic}
//     x 4 topics x 2 domain ids; plus 6 document layouts (expired / future / foreign grants in front
//     of the valid one, no valid grant) x 86 grants x 5 governance lists.  Validity windows there are
//     >= 10 years away from the real clock (get_grant reads Utc::now()).
//   validity strings (C18, tests xc_validity_*): through the real from_xml + find_grant: 2 windows (across
//     29 February / a year end) x 7 x 7 UTC-offset notations {Z, +00:00, +05:00, -08:00, +14:00, none,
//     +05:30} for not_before / not_after x 12 instants (true edges +-1 s, edges misread as UTC wall
//     clock +-1 s, +-1 h, middle); through the real plugin (real clock): 4 windows with an edge 1 h
//     from now x 7 x 7 notations.  Oracle: seconds since epoch by hand (no chrono);
//   security attributes (C17, tests attrs_*, registered in obligations/C17.json): through the real
//     DomainGovernanceDocument::from_xml (unsigned) + get_datawriter/_datareader/_topic_sec_attributes:
//     5 metadata kinds x 3 data kinds x 16 enable_* flag combinations, the rule between two decoy
//     rules; get_participant_sec_attributes: 5 x 5 x 5 rtps / discovery / liveliness kinds x 4 flag
//     combinations; raw plugin mask bits (tables 60 / 62) and the decoded plugin attributes.
//   expressions through the XML path (C18, tests xc_expressions_*): see the comment in front of them.
// Not covered (stay outside): S/MIME signature verification, XML parsing of rules / criteria, data tags (none on either
//   side), builtin topic names, entity partitions in the plugin calls (callers pass none), and the
//   corner "no currently valid grant + topic left unprotected" (the code refuses with Err, the
//   statement read literally allows; a permissions handle only exists for a participant that had a
//   valid grant when it was validated) — for a participant without valid grant only "protected =>
//   refused" is required.
#[cfg(test)]
mod verif_xc_permissions {
  use std::time::Instant;

  use chrono::{Duration, TimeZone};

  use super::{
    super::{
      domain_governance_document::{BasicProtectionKind, DomainRule, ProtectionKind, TopicRule},
      types::{BuiltinPluginEndpointSecurityAttributes, BuiltinPluginParticipantSecurityAttributes},
      AccessControlBuiltin,
    },
    *,
  };
  use crate::{
    dds::qos::QosPolicies,
    discovery::sedp_messages::{
      DiscoveredReaderData, DiscoveredWriterData, PublicationBuiltinTopicData,
      TopicBuiltinTopicData, WriterProxy,
    },
    security::{
      access_control::{LocalEntityAccessControl, ParticipantAccessControl, RemoteEntityAccessControl},
      types::{PublicationBuiltinTopicDataSecure, SubscriptionBuiltinTopicDataSecure},
    },
    structure::guid::{EntityKind, GUID},
  };

  // ------------------------------------------------------------------ spec data (oracle side)
  #[derive(Clone, PartialEq)]
  struct CritSpec {
    topics: Vec<&'static str>,
    parts: Vec<&'static str>, // empty = no <partitions> section
  }
  #[derive(Clone, Copy, PartialEq)]
  enum Dom {
    Id(u16),
    Range(u16, u16),
    Min(u16),
    Max(u16),
  }
  #[derive(Clone)]
  struct RuleSpec {
    allow: bool,
    domains: Vec<Dom>,
    publish: Vec<CritSpec>,
    subscribe: Vec<CritSpec>,
    relay: Vec<CritSpec>,
  }
  #[derive(Clone)]
  struct GrantSpec {
    subject: &'static str,
    window: (i64, i64), // validity [now + .0 s, now + .1 s)
    rules: Vec<RuleSpec>,
    default_allow: bool,
  }
  #[derive(Clone, Copy, PartialEq, Debug)]
  enum Act {
    Publish,
    Subscribe,
    Relay,
  }
  const ACTS: [Act; 3] = [Act::Publish, Act::Subscribe, Act::Relay];

  fn ad(b: bool) -> &'static str {
    if b { "ALLOW" } else { "DENY" }
  }
  fn show_crits(cs: &[CritSpec]) -> String {
    let v: Vec<String> = cs
      .iter()
      .map(|c| {
        if c.parts.is_empty() {
          format!("topics{:?}", c.topics)
        } else {
          format!("topics{:?}+partitions{:?}", c.topics, c.parts)
        }
      })
      .collect();
    format!("[{}]", v.join(", "))
  }
  fn show_rule(r: &RuleSpec) -> String {
    let d: Vec<String> = r
      .domains
      .iter()
      .map(|d| match d {
        Dom::Id(v) => format!("{}", v),
        Dom::Range(a, b) => format!("{}..={}", a, b),
        Dom::Min(a) => format!("{}..", a),
        Dom::Max(b) => format!("..={}", b),
      })
      .collect();
    format!(
      "{}{{domains[{}] publish{} subscribe{} relay{}}}",
      ad(r.allow),
      d.join(","),
      show_crits(&r.publish),
      show_crits(&r.subscribe),
      show_crits(&r.relay)
    )
  }
  fn show_rules(rs: &[RuleSpec]) -> String {
    let v: Vec<String> = rs.iter().map(show_rule).collect();
    format!("[{}]", v.join("; "))
  }
  fn show_grant(g: &GrantSpec) -> String {
    format!(
      "grant{{subject {} validity now{:+}s..now{:+}s rules{} default {}}}",
      g.subject,
      g.window.0,
      g.window.1,
      show_rules(&g.rules),
      ad(g.default_allow)
    )
  }
  fn show_doc(d: &[GrantSpec]) -> String {
    let v: Vec<String> = d.iter().map(show_grant).collect();
    format!("[{}]", v.join(" | "))
  }

  // ------------------------------------------------------------------ oracle
  // file-name pattern matching (fnmatch without flags), written independently of the glob crate
  fn fnm(p: &[char], s: &[char]) -> bool {
    match p.split_first() {
      None => s.is_empty(),
      Some((&'*', rest)) => (0..=s.len()).any(|k| fnm(rest, &s[k..])),
      Some((&'?', rest)) => !s.is_empty() && fnm(rest, &s[1..]),
      Some((&'[', rest)) => {
        let (neg, body) = match rest.split_first() {
          Some((&'!', r)) => (true, r),
          _ => (false, rest),
        };
        // a ']' directly after the opening is an ordinary member
        match (1..body.len()).find(|&i| body[i] == ']') {
          None => !s.is_empty() && s[0] == '[' && fnm(rest, &s[1..]),
          Some(close) => {
            if s.is_empty() {
              return false;
            }
            let set = &body[..close];
            let mut hit = false;
            let mut i = 0;
            while i < set.len() {
              if i + 2 < set.len() && set[i + 1] == '-' {
                if set[i] <= s[0] && s[0] <= set[i + 2] {
                  hit = true;
                }
                i += 3;
              } else {
                if set[i] == s[0] {
                  hit = true;
                }
                i += 1;
              }
            }
            hit != neg && fnm(&body[close + 1..], &s[1..])
          }
        }
      }
      Some((c, rest)) => !s.is_empty() && s[0] == *c && fnm(rest, &s[1..]),
    }
  }
  fn fnmatch(p: &str, s: &str) -> bool {
    fnm(&p.chars().collect::<Vec<_>>(), &s.chars().collect::<Vec<_>>())
  }

  fn o_dom(d: &Dom, id: u16) -> bool {
    match *d {
      Dom::Id(v) => id == v,
      Dom::Range(a, b) => a <= id && id <= b,
      Dom::Min(a) => a <= id,
      Dom::Max(b) => id <= b,
    }
  }
  fn o_crit(c: &CritSpec, topic: &str, entity_parts: &[&str]) -> bool {
    let default_partition = [""];
    let exprs: &[&str] = if c.parts.is_empty() { &default_partition } else { &c.parts };
    let ents: &[&str] = if entity_parts.is_empty() { &default_partition } else { entity_parts };
    c.topics.iter().any(|e| fnmatch(e, topic))
      && ents.iter().all(|p| exprs.iter().any(|e| fnmatch(e, p)))
  }
  fn o_kind(r: &RuleSpec, act: Act) -> &[CritSpec] {
    match act {
      Act::Publish => &r.publish,
      Act::Subscribe => &r.subscribe,
      Act::Relay => &r.relay,
    }
  }
  fn o_applies(r: &RuleSpec, act: Act, id: u16, topic: &str, parts: &[&str]) -> bool {
    r.domains.iter().any(|d| o_dom(d, id)) && o_kind(r, act).iter().any(|c| o_crit(c, topic, parts))
  }
  /// (verdict, index of the deciding rule or None for the default)
  fn o_check(
    rules: &[RuleSpec],
    default_allow: bool,
    act: Act,
    id: u16,
    topic: &str,
    parts: &[&str],
  ) -> (bool, Option<usize>) {
    for (i, r) in rules.iter().enumerate() {
      if o_applies(r, act, id, topic, parts) {
        return (r.allow, Some(i));
      }
    }
    (default_allow, None)
  }
  fn o_valid(g: &GrantSpec) -> bool {
    g.window.0 <= 0 && 0 < g.window.1
  }

  // ------------------------------------------------------------------ real objects from spec data
  fn pat(s: &str) -> Pattern {
    Pattern::new(s).unwrap()
  }
  fn mk_crit(c: &CritSpec) -> Criterion {
    Criterion {
      topics: c.topics.iter().map(|s| pat(s)).collect(),
      partitions: c.parts.iter().map(|s| pat(s)).collect(),
      data_tags: vec![],
    }
  }
  fn mk_rule(r: &RuleSpec) -> Rule {
    Rule {
      verdict: if r.allow { AllowOrDeny::Allow } else { AllowOrDeny::Deny },
      domains: r
        .domains
        .iter()
        .map(|d| match *d {
          Dom::Id(v) => DomainIds::Value(v),
          Dom::Range(a, b) => DomainIds::Range(a, b),
          Dom::Min(a) => DomainIds::Min(a),
          Dom::Max(b) => DomainIds::Max(b),
        })
        .collect(),
      publish: r.publish.iter().map(mk_crit).collect(),
      subscribe: r.subscribe.iter().map(mk_crit).collect(),
      relay: r.relay.iter().map(mk_crit).collect(),
    }
  }
  fn mk_action(a: Act) -> Action {
    match a {
      Act::Publish => Action::Publish,
      Act::Subscribe => Action::Subscribe,
      Act::Relay => Action::Relay,
    }
  }
  struct Names {
    alice: DistinguishedName,
    bob: DistinguishedName,
    carol: DistinguishedName,
  }
  impl Names {
    fn new() -> Self {
      Names {
        alice: DistinguishedName::parse("CN=alice,O=xc").unwrap(),
        bob: DistinguishedName::parse("CN=bob,O=xc").unwrap(),
        carol: DistinguishedName::parse("CN=carol,O=xc").unwrap(),
      }
    }
    fn get(&self, s: &str) -> DistinguishedName {
      match s {
        "alice" => self.alice.clone(),
        "bob" => self.bob.clone(),
        "carol" => self.carol.clone(),
        _ => unreachable!(),
      }
    }
  }
  fn mk_grant_with(g: &GrantSpec, rules: Vec<Rule>, names: &Names, now: DateTime<Utc>) -> Grant {
    Grant {
      subject_name: names.get(g.subject),
      validity: (now + Duration::seconds(g.window.0))..(now + Duration::seconds(g.window.1)),
      rules,
      default_action: if g.default_allow { AllowOrDeny::Allow } else { AllowOrDeny::Deny },
    }
  }
  fn mk_grant(g: &GrantSpec, names: &Names, now: DateTime<Utc>) -> Grant {
    mk_grant_with(g, g.rules.iter().map(mk_rule).collect(), names, now)
  }
  fn mk_doc(d: &[GrantSpec], names: &Names, now: DateTime<Utc>) -> DomainParticipantPermissions {
    DomainParticipantPermissions {
      grants: d.iter().map(|g| mk_grant(g, names, now)).collect(),
      original_string: String::new(),
    }
  }
  fn real_check(g: &Grant, act: Act, id: u16, topic: &str, parts: &[&str]) -> bool {
    g.check_action(mk_action(act), id, topic, parts, &[]).into()
  }

  // ------------------------------------------------------------------ enumeration domains
  const TOPIC_EXPRS: [&str; 5] = ["T", "T*", "?x", "[ab]c", "*"];
  const PART_SECTIONS: [&[&str]; 4] = [&[], &["A*"], &["", "P"], &["*"]];
  const TOPICS: [&str; 6] = ["T", "Tx", "ax", "bc", "zz", ""];
  const ENTITY_PARTS: [&[&str]; 5] = [&[], &[""], &["Ab"], &["P"], &["Ab", "P"]];
  const YEAR: i64 = 365 * 24 * 3600;

  fn crit(topics: &[&'static str], parts: &[&'static str]) -> CritSpec {
    CritSpec { topics: topics.to_vec(), parts: parts.to_vec() }
  }
  fn all_criteria() -> Vec<CritSpec> {
    let mut topic_lists: Vec<Vec<&'static str>> = vec![];
    for a in TOPIC_EXPRS {
      topic_lists.push(vec![a]);
    }
    for a in TOPIC_EXPRS {
      for b in TOPIC_EXPRS {
        if a != b {
          topic_lists.push(vec![a, b]);
        }
      }
    }
    let mut v = vec![];
    for t in &topic_lists {
      for p in PART_SECTIONS {
        v.push(CritSpec { topics: t.clone(), parts: p.to_vec() });
      }
    }
    v
  }
  fn with_kind(act: Act, l: Vec<CritSpec>, o1: Vec<CritSpec>, o2: Vec<CritSpec>) -> [Vec<CritSpec>; 3] {
    // returns [publish, subscribe, relay] with `l` in the slot of `act` and o1, o2 in the others
    match act {
      Act::Publish => [l, o1, o2],
      Act::Subscribe => [o1, l, o2],
      Act::Relay => [o1, o2, l],
    }
  }
  fn one_rule_grant(r: RuleSpec) -> GrantSpec {
    // the default is the opposite of the rule's verdict: the decision shows whether the rule applied
    GrantSpec { subject: "alice", window: (-YEAR, YEAR), default_allow: !r.allow, rules: vec![r] }
  }

  // ------------------------------------------------------------------ tests
  #[test]
  fn xc_fnmatch_oracle_selfcheck() {
    // the oracle's pattern semantics on the textbook cases (guards the oracle, not the code)
    let yes = [("T", "T"), ("T*", "T"), ("T*", "Tx"), ("?x", "ax"), ("[ab]c", "bc"), ("*", ""), ("", ""),
               ("[!a]x", "bx"), ("[a-c]", "b"), ("A*", "Ab"), ("*b", "Ab")];
    let no = [("T", "Tx"), ("T", ""), ("?x", "x"), ("?x", "axx"), ("[ab]c", "cc"), ("[ab]c", "abc"), ("", "P"),
              ("[!a]x", "ax"), ("[a-c]", "d"), ("A*", "P"), ("A*", "")];
    for (p, s) in yes {
      assert!(fnmatch(p, s), "oracle fnmatch({:?},{:?}) must hold", p, s);
    }
    for (p, s) in no {
      assert!(!fnmatch(p, s), "oracle fnmatch({:?},{:?}) must not hold", p, s);
    }
  }

  #[test]
  fn xc_criterion_patterns_and_partitions() {
    let names = Names::new();
    let now = Utc.with_ymd_and_hms(2024, 6, 1, 0, 0, 0).unwrap();
    let mut n = 0u64;
    let (mut n_match, mut n_nomatch) = (0u64, 0u64);
    for c in all_criteria() {
      for kind in ACTS {
        let [publish, subscribe, relay] = with_kind(kind, vec![c.clone()], vec![], vec![]);
        let r = RuleSpec { allow: true, domains: vec![Dom::Range(0, 65535)], publish, subscribe, relay };
        let gs = one_rule_grant(r);
        let g = mk_grant(&gs, &names, now);
        for act in ACTS {
          for topic in TOPICS {
            for parts in ENTITY_PARTS {
              let want = act == kind && o_crit(&c, topic, parts);
              let real = real_check(&g, act, 7, topic, parts);
              assert!(
                real == want,
                "XC-WITNESS label=c18.criterion rule={} default=DENY action={:?} domain=7 topic={:?} entity_partitions={:?}: \
                 check_action says {} but the {:?} criterion {} (file-name pattern semantics, default partition \"\" on both sides) => {}",
                show_rule(&gs.rules[0]), act, topic, parts, ad(real), kind,
                if act != kind { "is of another action kind" } else if want { "matches topic and all entity partitions" } else { "does not match topic and all entity partitions" },
                ad(want)
              );
              if want { n_match += 1 } else { n_nomatch += 1 }
              n += 1;
            }
          }
        }
      }
    }
    assert!(n >= 27_000 && n_match > 3_000 && n_nomatch > 3_000, "vacuity guard: {} cases, {} matching, {} not", n, n_match, n_nomatch);
  }

  fn domain_sets() -> Vec<(Vec<Dom>, Vec<u16>)> {
    vec![
      (vec![Dom::Id(5)], vec![4, 5, 6]),
      (vec![Dom::Range(3, 6)], vec![2, 3, 4, 5, 6, 7]),
      (vec![Dom::Id(1), Dom::Range(8, 9), Dom::Min(12)], vec![0, 1, 2, 7, 8, 9, 10, 11, 12, 13, 65535]),
      (vec![Dom::Max(2), Dom::Id(7)], vec![0, 1, 2, 3, 6, 7, 8, 65535]),
    ]
  }

  #[test]
  fn xc_rule_applicability() {
    let names = Names::new();
    let now = Utc.with_ymd_and_hms(2024, 6, 1, 0, 0, 0).unwrap();
    // criteria lists of the queried kind: [], 12 singletons, 30 ordered pairs of 6
    let six = [
      crit(&["T"], &[]),
      crit(&["T*"], &["A*"]),
      crit(&["?x", "T"], &["", "P"]),
      crit(&["[ab]c"], &["*"]),
      crit(&["*"], &["A*"]),
      crit(&["zz*", "?x"], &[]),
    ];
    let mut lists: Vec<Vec<CritSpec>> = vec![vec![]];
    for c in &six {
      lists.push(vec![c.clone()]);
    }
    for c in [crit(&["*"], &[]), crit(&["*"], &["*"]), crit(&["T*", "[ab]c"], &["", "P"]), crit(&["?x"], &["A*"]),
              crit(&["T"], &["*"]), crit(&["[ab]c", "T"], &[])] {
      lists.push(vec![c]);
    }
    for a in &six {
      for b in &six {
        if a != b {
          lists.push(vec![a.clone(), b.clone()]);
        }
      }
    }
    let everything = crit(&["*"], &["*"]);
    let decoys: [(Vec<CritSpec>, Vec<CritSpec>); 4] = [
      (vec![], vec![]),
      (vec![everything.clone()], vec![]),
      (vec![], vec![everything.clone()]),
      (vec![everything.clone()], vec![everything.clone()]),
    ];
    let mut n = 0u64;
    let (mut n_app, mut n_dom_only, mut n_crit_only) = (0u64, 0u64, 0u64);
    let mut flip = false;
    for (domains, ids) in domain_sets() {
      for kind in ACTS {
        for (o1, o2) in &decoys {
          for l in &lists {
            flip = !flip;
            let [publish, subscribe, relay] = with_kind(kind, l.clone(), o1.clone(), o2.clone());
            let r = RuleSpec { allow: flip, domains: domains.clone(), publish, subscribe, relay };
            let gs = one_rule_grant(r);
            let g = mk_grant(&gs, &names, now);
            let r = &gs.rules[0];
            for &id in &ids {
              for topic in TOPICS {
                for parts in ENTITY_PARTS {
                  // the rule's own kind sees the enumerated list, the two other kinds see the decoys
                  for act in ACTS {
                  let applies = o_applies(r, act, id, topic, parts);
                  let want = if applies { r.allow } else { gs.default_allow };
                  let real = real_check(&g, act, id, topic, parts);
                  assert!(
                    real == want,
                    "XC-WITNESS label=c18.rule rule={} default={} action={:?} domain={} topic={:?} entity_partitions={:?}: \
                     check_action says {} but the rule {} (domain set {} the id, {:?} criteria {}) => {}",
                    show_rule(r), ad(gs.default_allow), act, id, topic, parts, ad(real),
                    if applies { "applies" } else { "does not apply" },
                    if r.domains.iter().any(|d| o_dom(d, id)) { "contains" } else { "does not contain" },
                    act,
                    if o_kind(r, act).iter().any(|c| o_crit(c, topic, parts)) { "match" } else { "do not match" },
                    ad(want)
                  );
                  let dom_ok = r.domains.iter().any(|d| o_dom(d, id));
                  let crit_ok = o_kind(r, act).iter().any(|c| o_crit(c, topic, parts));
                  if applies { n_app += 1 } else if dom_ok { n_dom_only += 1 } else if crit_ok { n_crit_only += 1 }
                  n += 1;
                  }
                }
              }
            }
          }
        }
      }
    }
    assert!(
      n > 1_000_000 && n_app > 50_000 && n_dom_only > 50_000 && n_crit_only > 50_000,
      "vacuity guard: {} cases, {} applicable, {} domain only, {} criteria only", n, n_app, n_dom_only, n_crit_only
    );
  }

  fn rule_pool() -> Vec<RuleSpec> {
    let layouts: [[Vec<CritSpec>; 3]; 4] = [
      [vec![crit(&["T*"], &[])], vec![crit(&["?x"], &["A*"])], vec![]],
      [vec![crit(&["[ab]c"], &["", "P"])], vec![crit(&["T"], &[]), crit(&["*"], &["*"])], vec![crit(&["T*"], &["*"])]],
      [vec![crit(&["*"], &["*"])], vec![], vec![crit(&["?x", "T"], &[])]],
      [vec![], vec![crit(&["T*", "[ab]c"], &["A*"])], vec![crit(&["*"], &["", "P"])]],
    ];
    let mut v = vec![];
    for allow in [true, false] {
      for domains in [vec![Dom::Range(3, 6)], vec![Dom::Id(1), Dom::Range(5, 9)], vec![Dom::Id(5)]] {
        for [p, s, r] in &layouts {
          v.push(RuleSpec { allow, domains: domains.clone(), publish: p.clone(), subscribe: s.clone(), relay: r.clone() });
        }
      }
    }
    v
  }

  #[test]
  fn xc_first_applicable_rule_else_default() {
    let names = Names::new();
    let now = Utc.with_ymd_and_hms(2024, 6, 1, 0, 0, 0).unwrap();
    let pool = rule_pool();
    let real_pool: Vec<Rule> = pool.iter().map(mk_rule).collect();
    // queries
    let mut queries: Vec<(Act, u16, &'static str, &'static [&'static str])> = vec![];
    for act in ACTS {
      for id in [1u16, 4, 5, 7] {
        for topic in ["T", "Tx", "bc", "zz"] {
          let plists: [&'static [&'static str]; 3] = [&[], &["Ab"], &["Ab", "P"]];
          for parts in plists {
            queries.push((act, id, topic, parts));
          }
        }
      }
    }
    // oracle: applicability of every pool rule to every query (from the spec data only)
    let app: Vec<Vec<bool>> = pool
      .iter()
      .map(|r| queries.iter().map(|&(a, id, t, p)| o_applies(r, a, id, t, p)).collect())
      .collect();
    // all index lists of length 0..=3
    let k = pool.len();
    let mut lists: Vec<Vec<usize>> = vec![vec![]];
    for a in 0..k {
      lists.push(vec![a]);
      for b in 0..k {
        lists.push(vec![a, b]);
        for c in 0..k {
          lists.push(vec![a, b, c]);
        }
      }
    }
    lists.sort_by_key(|l| l.len()); // shortest witness first
    let mut n = 0u64;
    let (mut n_default, mut n_first, mut n_later, mut n_conflict) = (0u64, 0u64, 0u64, 0u64);
    for l in &lists {
      for default_allow in [false, true] {
        let gs = GrantSpec { subject: "alice", window: (-YEAR, YEAR), rules: vec![], default_allow };
        let g = mk_grant_with(&gs, l.iter().map(|&i| real_pool[i].clone()).collect(), &names, now);
        for (qi, &(act, id, topic, parts)) in queries.iter().enumerate() {
          let decider = l.iter().position(|&i| app[i][qi]);
          let want = match decider {
            Some(pos) => pool[l[pos]].allow,
            None => default_allow,
          };
          let real = real_check(&g, act, id, topic, parts);
          if real != want {
            let rules: Vec<RuleSpec> = l.iter().map(|&i| pool[i].clone()).collect();
            // cross-check the table against the direct oracle before blaming the code
            let (w2, d2) = o_check(&rules, default_allow, act, id, topic, parts);
            assert!(w2 == want && d2 == decider, "oracle table inconsistent");
            let applicable: Vec<usize> = (0..l.len()).filter(|&p| app[l[p]][qi]).collect();
            match decider {
              Some(pos) => panic!(
                "XC-WITNESS label=c18.first_rule rules={} default={} action={:?} domain={} topic={:?} entity_partitions={:?}: \
                 check_action says {} but the applicable rules are #{:?} (0-based) and the FIRST of them, #{}, says {}",
                show_rules(&rules), ad(default_allow), act, id, topic, parts, ad(real), applicable, pos, ad(want)
              ),
              None => panic!(
                "XC-WITNESS label=c18.default rules={} default={} action={:?} domain={} topic={:?} entity_partitions={:?}: \
                 check_action says {} but no rule applies, so the grant's default {} decides",
                show_rules(&rules), ad(default_allow), act, id, topic, parts, ad(real), ad(want)
              ),
            }
          }
          match decider {
            None => n_default += 1,
            Some(0) => n_first += 1,
            Some(_) => n_later += 1,
          }
          if let Some(pos) = decider {
            if l.iter().enumerate().any(|(p, &i)| p > pos && app[i][qi] && pool[i].allow != want) {
              n_conflict += 1;
            }
          }
          n += 1;
        }
      }
    }
    assert!(
      n > 4_000_000 && n_default > 100_000 && n_first > 100_000 && n_later > 100_000 && n_conflict > 50_000,
      "vacuity guard: {} cases, {} default, {} first rule, {} later rule, {} with a later applicable rule of the other verdict",
      n, n_default, n_first, n_later, n_conflict
    );
  }

  #[test]
  fn xc_find_grant_subject_and_validity() {
    let names = Names::new();
    let now = Utc.with_ymd_and_hms(2024, 6, 1, 12, 0, 0).unwrap();
    let windows: [(i64, i64); 5] = [
      (-10 * YEAR, -1),   // expired a second ago
      (-10 * YEAR, 1),    // ends in a second
      (0, 10 * YEAR),     // starts right now
      (1, 10 * YEAR),     // starts in a second
      (-YEAR, YEAR),      // around now
    ];
    let mut kinds: Vec<GrantSpec> = vec![];
    for subject in ["alice", "bob"] {
      for window in windows {
        kinds.push(GrantSpec { subject, window, rules: vec![], default_allow: false });
      }
    }
    let k = kinds.len();
    let mut docs: Vec<Vec<usize>> = vec![];
    for a in 0..k {
      docs.push(vec![a]);
      for b in 0..k {
        docs.push(vec![a, b]);
        for c in 0..k {
          docs.push(vec![a, b, c]);
        }
      }
    }
    docs.sort_by_key(|d| d.len()); // shortest witness first
    let mut n = 0u64;
    let (mut n_none, mut n_first, mut n_later, mut n_skipped_invalid_same_subject) = (0u64, 0u64, 0u64, 0u64);
    for d in &docs {
      let spec: Vec<GrantSpec> = d.iter().map(|&i| kinds[i].clone()).collect();
      let doc = mk_doc(&spec, &names, now);
      for who in ["alice", "bob", "carol"] {
        let good: Vec<usize> = (0..spec.len()).filter(|&i| spec[i].subject == who && o_valid(&spec[i])).collect();
        let real = doc.find_grant(&names.get(who), &now);
        let real_idx = real.map(|g| doc.grants.iter().position(|x| std::ptr::eq(x, g)).unwrap());
        match real_idx {
          None => assert!(
            good.is_empty(),
            "XC-WITNESS label=c18.find_grant document={} subject={} now=now: find_grant found no grant but grant #{} (0-based) is for this subject and currently valid",
            show_doc(&spec), who, good[0]
          ),
          Some(i) => {
            assert!(
              good.contains(&i),
              "XC-WITNESS label=c18.find_grant document={} subject={} now=now: find_grant returned grant #{} which is {} (currently valid grants of the subject: {:?})",
              show_doc(&spec), who, i,
              if spec[i].subject != who { "for another subject" } else { "not valid now" }, good
            );
            assert!(
              i == good[0],
              "XC-WITNESS label=c18.find_grant.first document={} subject={} now=now: find_grant returned grant #{} but the FIRST currently valid grant of the subject is #{}",
              show_doc(&spec), who, i, good[0]
            );
          }
        }
        match good.first() {
          None => n_none += 1,
          Some(0) => n_first += 1,
          Some(&f) => {
            n_later += 1;
            if (0..f).any(|j| spec[j].subject == who) {
              n_skipped_invalid_same_subject += 1;
            }
          }
        }
        n += 1;
      }
    }
    assert!(
      n >= 3_330 && n_none > 500 && n_first > 300 && n_later > 300 && n_skipped_invalid_same_subject > 100,
      "vacuity guard: {} cases, {} none, {} first, {} later, {} behind an invalid grant of the same subject",
      n, n_none, n_first, n_later, n_skipped_invalid_same_subject
    );
  }

  // ------------------------------------------------------------------ governance side
  #[derive(Clone, Copy, PartialEq, Debug)]
  struct TopicRuleSpec {
    expr: &'static str,
    read: bool,  // enable_read_access_control
    write: bool, // enable_write_access_control
  }
  fn show_gov(g: &[TopicRuleSpec]) -> String {
    let v: Vec<String> = g
      .iter()
      .map(|t| format!("{{topic_expression {:?} enable_read_access_control={} enable_write_access_control={}}}", t.expr, t.read, t.write))
      .collect();
    format!("[{}]", v.join(", "))
  }
  /// governance leaves the read (or write) access to the topic unprotected
  fn o_unprotected(gov: &[TopicRuleSpec], topic: &str, read: bool) -> bool {
    match gov.iter().find(|t| fnmatch(t.expr, topic)) {
      Some(t) => !(if read { t.read } else { t.write }),
      None => false,
    }
  }
  fn mk_domain_rule(gov: &[TopicRuleSpec]) -> DomainRule {
    DomainRule {
      domains: vec![DomainIds::Min(0)],
      allow_unauthenticated_participants: false,
      enable_join_access_control: true,
      discovery_protection_kind: ProtectionKind::None,
      liveliness_protection_kind: ProtectionKind::None,
      rtps_protection_kind: ProtectionKind::None,
      topic_access_rules: gov
        .iter()
        .map(|t| TopicRule {
          topic_expression: pat(t.expr),
          enable_discovery_protection: false,
          enable_liveliness_protection: false,
          enable_read_access_control: t.read,
          enable_write_access_control: t.write,
          metadata_protection_kind: ProtectionKind::None,
          data_protection_kind: BasicProtectionKind::None,
        })
        .collect(),
    }
  }
  #[derive(Clone, Copy, PartialEq, Debug)]
  enum Fun {
    CreateWriter,
    CreateReader,
    CreateTopic,
    RemoteWriter,
    RemoteReader,
    RemoteTopic,
  }
  const FUNS: [Fun; 6] = [Fun::CreateWriter, Fun::CreateReader, Fun::CreateTopic, Fun::RemoteWriter, Fun::RemoteReader, Fun::RemoteTopic];
  struct Remote {
    topic: &'static str,
    publication: PublicationBuiltinTopicDataSecure,
    subscription: SubscriptionBuiltinTopicDataSecure,
    topic_data: TopicBuiltinTopicData,
  }
  fn mk_remote(topic: &'static str) -> Remote {
    let wguid = GUID::dummy_test_guid(EntityKind::WRITER_NO_KEY_USER_DEFINED);
    Remote {
      topic,
      publication: PublicationBuiltinTopicDataSecure {
        discovered_writer_data: DiscoveredWriterData {
          last_updated: Instant::now(),
          writer_proxy: WriterProxy::new(wguid, vec![], vec![]),
          publication_topic_data: PublicationBuiltinTopicData::new(wguid, None, topic.to_string(), "xc_type".to_string(), None),
        },
        data_tags: None,
      },
      subscription: SubscriptionBuiltinTopicDataSecure {
        discovered_reader_data: DiscoveredReaderData::default(topic.to_string(), "xc_type".to_string()),
        data_tags: None,
      },
      topic_data: TopicBuiltinTopicData::new(None, topic.to_string(), "xc_type".to_string(), &QosPolicies::qos_none()),
    }
  }
  /// (allowed, relay_only if the function reports it, "Err" / "Ok(..)" text)
  fn real_entity(ac: &AccessControlBuiltin, h: u32, f: Fun, id: u16, rem: &Remote, qos: &QosPolicies) -> (bool, Option<bool>, String) {
    let simple = |r: crate::security::SecurityResult<bool>| match r {
      Ok(b) => (b, None, format!("Ok({})", b)),
      Err(e) => (false, None, format!("Err({:?})", e)),
    };
    match f {
      Fun::CreateWriter => simple(ac.check_create_datawriter(h, id, rem.topic.to_string(), qos)),
      Fun::CreateReader => simple(ac.check_create_datareader(h, id, rem.topic.to_string(), qos)),
      Fun::CreateTopic => simple(ac.check_create_topic(h, id, rem.topic.to_string(), qos)),
      Fun::RemoteWriter => simple(ac.check_remote_datawriter(h, id, &rem.publication)),
      Fun::RemoteTopic => simple(ac.check_remote_topic(h, id, &rem.topic_data)),
      Fun::RemoteReader => match ac.check_remote_datareader(h, id, &rem.subscription) {
        Ok((b, ro)) => (b, Some(ro), format!("Ok(({}, relay_only={}))", b, ro)),
        Err(e) => (false, None, format!("Err({:?})", e)),
      },
    }
  }

  fn gov_rule_kinds() -> Vec<TopicRuleSpec> {
    let mut v = vec![];
    for expr in ["T*", "*", "[ab]c"] {
      for read in [false, true] {
        for write in [false, true] {
          v.push(TopicRuleSpec { expr, read, write });
        }
      }
    }
    v
  }
  fn grant_designs() -> Vec<(Vec<RuleSpec>, bool)> {
    let d = vec![Dom::Range(3, 6)];
    let r = |allow: bool, p: Vec<CritSpec>, s: Vec<CritSpec>, rl: Vec<CritSpec>| RuleSpec { allow, domains: d.clone(), publish: p, subscribe: s, relay: rl };
    let pool = vec![
      r(true, vec![crit(&["T*"], &[])], vec![], vec![]),
      r(true, vec![], vec![crit(&["T*"], &[])], vec![]),
      r(true, vec![], vec![], vec![crit(&["*"], &[])]),
      r(false, vec![crit(&["T"], &[])], vec![crit(&["T"], &[])], vec![crit(&["T"], &[])]),
      r(false, vec![crit(&["*"], &[])], vec![crit(&["?x"], &[])], vec![]),
      r(true, vec![crit(&["[ab]c"], &["A*"])], vec![crit(&["[ab]c"], &[])], vec![]),
    ];
    let mut lists: Vec<Vec<RuleSpec>> = vec![vec![]];
    for a in &pool {
      lists.push(vec![a.clone()]);
      for b in &pool {
        lists.push(vec![a.clone(), b.clone()]);
      }
    }
    let mut v = vec![];
    for l in lists {
      for default_allow in [false, true] {
        v.push((l.clone(), default_allow));
      }
    }
    v
  }

  struct GovStats {
    n: u64,
    unprot_only: u64,
    grant_only: u64,
    neither: u64,
    relay_only: u64,
    no_grant: u64,
  }

  /// one (governance, permissions document) pair, all functions x topics x domain ids
  fn check_gov_case(ac: &AccessControlBuiltin, h: u32, gov: &[TopicRuleSpec], doc: &[GrantSpec], remotes: &[Remote], qos: &QosPolicies, st: &mut GovStats) {
    let grant = doc.iter().find(|g| g.subject == "alice" && o_valid(g));
    for rem in remotes {
      let topic = rem.topic;
      for id in [3u16, 7] {
        let un_r = o_unprotected(gov, topic, true);
        let un_w = o_unprotected(gov, topic, false);
        for f in FUNS {
          let (real, real_ro, text) = real_entity(ac, h, f, id, rem, qos);
          let ctx = || format!("governance_topic_rules={} permissions={} subject=alice call={:?} domain={} topic={:?}", show_gov(gov), show_doc(doc), f, id, topic);
          let g = match grant {
            Some(g) => g,
            None => {
              // no currently valid grant: the grant clause cannot hold; refused unless left unprotected
              let protected = match f {
                Fun::CreateWriter | Fun::RemoteWriter => !un_w,
                Fun::CreateReader | Fun::RemoteReader => !un_r,
                Fun::CreateTopic | Fun::RemoteTopic => !un_w && !un_r,
              };
              if protected {
                assert!(!real, "XC-WITNESS label=c18.governance {}: returned {} (allowed) but the access is protected and the subject has no currently valid grant", ctx(), text);
                st.no_grant += 1;
              }
              st.n += 1;
              continue;
            }
          };
          let v = |a: Act| o_check(&g.rules, g.default_allow, a, id, topic, &[]).0;
          let writer_ok = un_w || v(Act::Publish);
          let reader_ok = un_r || v(Act::Subscribe);
          let (want, want_ro, unprot, by_grant) = match f {
            Fun::CreateWriter | Fun::RemoteWriter => (writer_ok, None, un_w, v(Act::Publish)),
            Fun::CreateReader => (reader_ok, None, un_r, v(Act::Subscribe)),
            Fun::CreateTopic | Fun::RemoteTopic => (writer_ok || reader_ok, None, un_w || un_r, v(Act::Publish) || v(Act::Subscribe)),
            Fun::RemoteReader => {
              let relay_only = !reader_ok && v(Act::Relay);
              (reader_ok || relay_only, Some(relay_only), un_r, v(Act::Subscribe) || v(Act::Relay))
            }
          };
          assert!(
            real == want,
            "XC-WITNESS label=c18.governance {}: returned {} but governance leaves the access {} and the grant decision is publish={} subscribe={} relay={} => {}",
            ctx(), text, if unprot { "UNPROTECTED" } else { "protected" },
            ad(v(Act::Publish)), ad(v(Act::Subscribe)), ad(v(Act::Relay)), if want { "allowed" } else { "refused" }
          );
          if let (Some(w), Some(r)) = (want_ro, real_ro) {
            assert!(
              r == w,
              "XC-WITNESS label=c18.governance.relay_only {}: returned {} but read access is {} / subscribe={} relay={} => relay_only must be {}",
              ctx(), text, if un_r { "UNPROTECTED" } else { "protected" }, ad(v(Act::Subscribe)), ad(v(Act::Relay)), w
            );
            if w { st.relay_only += 1 }
          }
          match (unprot, by_grant) {
            (true, false) => st.unprot_only += 1,
            (false, true) => st.grant_only += 1,
            (false, false) => st.neither += 1,
            _ => {}
          }
          st.n += 1;
        }
      }
    }
  }

  fn all_gov_lists() -> Vec<Vec<TopicRuleSpec>> {
    let kinds = gov_rule_kinds();
    let mut govs: Vec<Vec<TopicRuleSpec>> = vec![vec![]];
    for a in &kinds {
      govs.push(vec![*a]);
      for b in &kinds {
        govs.push(vec![*a, *b]);
      }
    }
    govs.sort_by_key(|g| g.len()); // shortest witness first
    govs
  }

  #[test]
  fn xc_governance_unprotected_or_granted() {
    let names = Names::new();
    let now = Utc::now(); // the plugin reads the real clock; every window below is >= 10 years away from it
    let qos = QosPolicies::qos_none();
    let remotes: Vec<Remote> = ["T", "Tx", "bc", "zz"].into_iter().map(mk_remote).collect();
    let designs = grant_designs();
    let docs: Vec<Vec<GrantSpec>> = designs
      .iter()
      .map(|(rules, default_allow)| vec![GrantSpec { subject: "alice", window: (-10 * YEAR, 10 * YEAR), rules: rules.clone(), default_allow: *default_allow }])
      .collect();
    let real_docs: Vec<DomainParticipantPermissions> = docs.iter().map(|d| mk_doc(d, &names, now)).collect();
    let mut st = GovStats { n: 0, unprot_only: 0, grant_only: 0, neither: 0, relay_only: 0, no_grant: 0 };
    for gov in all_gov_lists() {
      let dr = mk_domain_rule(&gov);
      let mut ac = AccessControlBuiltin::new();
      for (i, rd) in real_docs.iter().enumerate() {
        let h = (i + 1) as u32;
        ac.domain_rules.insert(h, dr.clone());
        ac.domain_participant_permissions.insert(h, (names.alice.clone(), rd.clone()));
      }
      for (i, d) in docs.iter().enumerate() {
        check_gov_case(&ac, (i + 1) as u32, &gov, d, &remotes, &qos, &mut st);
      }
    }
    assert!(
      st.n > 600_000 && st.unprot_only > 50_000 && st.grant_only > 50_000 && st.neither > 50_000 && st.relay_only > 1_000,
      "vacuity guard: {} cases, {} unprotected only, {} granted only, {} neither, {} relay-only", st.n, st.unprot_only, st.grant_only, st.neither, st.relay_only
    );
  }

  #[test]
  fn xc_governance_uses_currently_valid_grant() {
    let names = Names::new();
    let now = Utc::now();
    let qos = QosPolicies::qos_none();
    let remotes: Vec<Remote> = ["T", "Tx", "bc", "zz"].into_iter().map(mk_remote).collect();
    let rw = |expr, read, write| TopicRuleSpec { expr, read, write };
    let govs: Vec<Vec<TopicRuleSpec>> = vec![
      vec![],
      vec![rw("*", true, true)],
      vec![rw("*", false, false)],
      vec![rw("*", true, false)],
      vec![rw("T*", false, true), rw("*", true, true)],
    ];
    let current = (-10 * YEAR, 10 * YEAR);
    let past = (-20 * YEAR, -10 * YEAR);
    let future = (10 * YEAR, 20 * YEAR);
    let flat = |subject, window, default_allow| GrantSpec { subject, window, rules: vec![], default_allow };
    let mut st = GovStats { n: 0, unprot_only: 0, grant_only: 0, neither: 0, relay_only: 0, no_grant: 0 };
    let mut n_docs = 0u64;
    for (rules, default_allow) in grant_designs() {
      let g = |window| GrantSpec { subject: "alice", window, rules: rules.clone(), default_allow };
      let docs: Vec<Vec<GrantSpec>> = vec![
        vec![flat("alice", past, true), g(current)],  // expired allow-everything grant kept in front of the renewal
        vec![flat("alice", past, false), g(current)], // expired deny-everything grant in front
        vec![flat("alice", future, true), g(current)], // pre-provisioned future grant in front
        vec![flat("bob", current, true), g(current), flat("bob", current, false)], // another subject's grants around
        vec![flat("bob", current, false), flat("alice", past, true), flat("alice", future, false), g(current)],
        vec![g(past), flat("bob", current, true), flat("alice", future, true)], // no currently valid grant
      ];
      for gov in &govs {
        let dr = mk_domain_rule(gov);
        let mut ac = AccessControlBuiltin::new();
        for (i, d) in docs.iter().enumerate() {
          let h = (i + 1) as u32;
          ac.domain_rules.insert(h, dr.clone());
          ac.domain_participant_permissions.insert(h, (names.alice.clone(), mk_doc(d, &names, now)));
        }
        for (i, d) in docs.iter().enumerate() {
          check_gov_case(&ac, (i + 1) as u32, gov, d, &remotes, &qos, &mut st);
          n_docs += 1;
        }
      }
    }
    assert!(
      n_docs >= 2_580 && st.n > 100_000 && st.grant_only > 10_000 && st.neither > 10_000 && st.no_grant > 2_000,
      "vacuity guard: {} documents, {} cases, {} granted only, {} neither, {} refused without valid grant", n_docs, st.n, st.grant_only, st.neither, st.no_grant
    );
  }
  // ================================================================== validity strings (C18)
  // Oracle: instants as seconds since 1970-01-01T00:00:00Z computed BY HAND (loop over years and
  // months with the Gregorian leap rule), never with chrono: the string Y-M-DTh:m:s<offset> denotes
  // the instant civil_secs(Y,M,D,h,m,s) - offset; without offset the time is UTC (DDS Security 1.1
  // 9.4.1.3.2.2); the grant is valid at `now` iff not_before <= now < not_after (now == not_after is
  // never queried). Checked through the real DomainParticipantPermissions::from_xml + find_grant, and
  // through the real plugin (check_create_datawriter, which reads the real clock) with windows whose
  // edges are 1 h away from the real clock.
  fn is_leap(y: i64) -> bool {
    y % 4 == 0 && (y % 100 != 0 || y % 400 == 0)
  }
  fn month_days(y: i64, m: i64) -> i64 {
    match m {
      1 | 3 | 5 | 7 | 8 | 10 | 12 => 31,
      4 | 6 | 9 | 11 => 30,
      _ => if is_leap(y) { 29 } else { 28 },
    }
  }
  fn civil_secs(y: i64, mo: i64, d: i64, h: i64, mi: i64, sec: i64) -> i64 {
    let mut days = 0i64;
    for yy in 1970..y {
      days += if is_leap(yy) { 366 } else { 365 };
    }
    for mm in 1..mo {
      days += month_days(y, mm);
    }
    days += d - 1;
    days * 86400 + h * 3600 + mi * 60 + sec
  }
  /// inverse of civil_secs (for instants >= 1970)
  fn secs_to_civil(t: i64) -> (i64, i64, i64, i64, i64, i64) {
    let mut days = t.div_euclid(86400);
    let rem = t.rem_euclid(86400);
    let mut y = 1970;
    loop {
      let n = if is_leap(y) { 366 } else { 365 };
      if days < n { break; }
      days -= n;
      y += 1;
    }
    let mut mo = 1;
    loop {
      let n = month_days(y, mo);
      if days < n { break; }
      days -= n;
      mo += 1;
    }
    (y, mo, days + 1, rem / 3600, (rem % 3600) / 60, rem % 60)
  }
  /// (suffix written into the document, offset east of UTC in seconds)
  const OFFSETS: [(&str, i64); 7] = [
    ("Z", 0),
    ("+00:00", 0),
    ("+05:00", 5 * 3600),
    ("-08:00", -8 * 3600),
    ("+14:00", 14 * 3600),
    ("", 0), // no time zone: UTC
    ("+05:30", 5 * 3600 + 1800),
  ];
  /// the wall-clock reading `civil` (seconds, as if UTC) written with the given offset suffix
  fn time_string(civil: i64, suffix: &str) -> String {
    let (y, mo, d, h, mi, s) = secs_to_civil(civil);
    format!("{:04}-{:02}-{:02}T{:02}:{:02}:{:02}{}", y, mo, d, h, mi, s, suffix)
  }
  fn validity_xml(subject: &str, not_before: &str, not_after: &str) -> String {
    format!(
      r#"<?xml version="1.0" encoding="UTF-8"?>
<dds>
  <permissions>
    <grant name="xc">
      <subject_name>{subject}</subject_name>
      <validity>
        <not_before>{not_before}</not_before>
        <not_after>{not_after}</not_after>
      </validity>
      <allow_rule>
        <domains><id>3</id></domains>
        <publish><topics><topic>T</topic></topics></publish>
      </allow_rule>
      <default>DENY</default>
    </grant>
  </permissions>
</dds>
"#
    )
  }

  #[test]
  fn xc_validity_oracle_selfcheck() {
    // guards the oracle's hand arithmetic with published epoch values
    assert_eq!(civil_secs(1970, 1, 1, 0, 0, 0), 0);
    assert_eq!(civil_secs(2000, 3, 1, 0, 0, 0), 951_868_800);
    assert_eq!(civil_secs(2024, 1, 1, 0, 0, 0), 1_704_067_200);
    assert_eq!(civil_secs(2024, 3, 1, 12, 30, 0), 1_709_296_200);
    assert_eq!(civil_secs(2038, 1, 19, 3, 14, 7), 2_147_483_647);
    for t in [0i64, 951_868_799, 951_868_800, 1_709_164_800, 1_709_296_200, 2_147_483_647] {
      let (y, mo, d, h, mi, s) = secs_to_civil(t);
      assert_eq!(civil_secs(y, mo, d, h, mi, s), t);
    }
    assert_eq!(time_string(1_709_296_200, "+05:00"), "2024-03-01T12:30:00+05:00");
  }

  #[test]
  fn xc_validity_strings_denote_instants() {
    let subject = DistinguishedName::parse("CN=alice,O=xc").unwrap();
    // wall-clock readings of the two edges; the window crosses 29 February and a year end
    let windows = [
      (civil_secs(2024, 1, 1, 0, 0, 0), civil_secs(2024, 3, 1, 12, 30, 0)),
      (civil_secs(2023, 12, 31, 23, 59, 59), civil_secs(2025, 1, 1, 0, 0, 1)),
    ];
    let mut n = 0u64;
    let (mut n_valid, mut n_invalid, mut n_shifted_would_differ) = (0u64, 0u64, 0u64);
    for (nb_civil, na_civil) in windows {
      for (nb_suffix, nb_off) in OFFSETS {
        for (na_suffix, na_off) in OFFSETS {
          let nb_text = time_string(nb_civil, nb_suffix);
          let na_text = time_string(na_civil, na_suffix);
          let nb = nb_civil - nb_off; // the instants the strings denote
          let na = na_civil - na_off;
          let xml = validity_xml("CN=alice,O=xc", &nb_text, &na_text);
          let doc = match DomainParticipantPermissions::from_xml(&xml) {
            Ok(d) => d,
            Err(e) => panic!(
              "XC-WITNESS label=c18.validity.parse not_before={:?} not_after={:?}: the permissions document is rejected ({:?}) but both are xsd:dateTime values",
              nb_text, na_text, e
            ),
          };
          // instants around the true edges and around the edges misread as UTC wall clock
          let mut nows = vec![nb - 1, nb, nb + 1, na - 1, na + 1, (nb + na) / 2];
          for e in [nb_civil, na_civil] {
            for t in [e - 1, e + 1] {
              nows.push(t);
            }
          }
          nows.push(nb - 3600);
          nows.push(na + 3600);
          for now in nows {
            if now == na {
              continue; // whether not_after itself is inside is an assumption of C18
            }
            let want = nb <= now && now < na;
            let real = doc.find_grant(&subject, &Utc.timestamp_opt(now, 0).unwrap()).is_some();
            assert!(
              real == want,
              "XC-WITNESS label=c18.validity not_before={:?} (= {} s since epoch) not_after={:?} (= {} s) now={} s ({}): find_grant says the grant is {} but it is {} (valid iff not_before <= now < not_after as instants, UTC offset applied)",
              nb_text, nb, na_text, na, now, time_string(now, "Z"),
              if real { "valid" } else { "not valid" }, if want { "valid" } else { "not valid" }
            );
            if want { n_valid += 1 } else { n_invalid += 1 }
            if (nb_civil <= now && now < na_civil) != want {
              n_shifted_would_differ += 1;
            }
            n += 1;
          }
        }
      }
    }
    assert!(
      n > 1_000 && n_valid > 300 && n_invalid > 300 && n_shifted_would_differ > 100,
      "vacuity guard: {} cases, {} valid, {} not valid, {} where ignoring the offset would change the answer", n, n_valid, n_invalid, n_shifted_would_differ
    );
  }

  #[test]
  fn xc_validity_strings_in_the_plugin() {
    // the plugin reads the real clock: edges are +-1 h from it, the far edge is 10 years away
    let now = std::time::SystemTime::now().duration_since(std::time::UNIX_EPOCH).unwrap().as_secs() as i64;
    let subject = DistinguishedName::parse("CN=alice,O=xc").unwrap();
    let qos = QosPolicies::qos_none();
    let gov = [TopicRuleSpec { expr: "*", read: true, write: true }];
    let far = 10 * YEAR;
    // (not_before instant, not_after instant)
    let windows = [(now - far, now - 3600), (now - far, now + 3600), (now + 3600, now + far), (now - 3600, now + far)];
    let mut n = 0u64;
    let (mut n_valid, mut n_invalid) = (0u64, 0u64);
    for (nb, na) in windows {
      for (nb_suffix, nb_off) in OFFSETS {
        for (na_suffix, na_off) in OFFSETS {
          // the wall-clock reading at offset o of the instant t is t + o
          let nb_text = time_string(nb + nb_off, nb_suffix);
          let na_text = time_string(na + na_off, na_suffix);
          let doc = DomainParticipantPermissions::from_xml(&validity_xml("CN=alice,O=xc", &nb_text, &na_text))
            .unwrap_or_else(|e| panic!("XC-WITNESS label=c18.validity.parse not_before={:?} not_after={:?}: rejected: {:?}", nb_text, na_text, e));
          let mut ac = AccessControlBuiltin::new();
          ac.domain_rules.insert(1, mk_domain_rule(&gov));
          ac.domain_participant_permissions.insert(1, (subject.clone(), doc));
          let want = nb <= now && now < na;
          let r = ac.check_create_datawriter(1, 3, "T".to_string(), &qos);
          let real = matches!(r, Ok(true));
          assert!(
            real == want,
            "XC-WITNESS label=c18.validity.plugin not_before={:?} not_after={:?} real clock={} topic=\"T\" (write-protected, grant allows publish): check_create_datawriter returned {:?} but the grant is {} at this instant",
            nb_text, na_text, time_string(now, "Z"), r.map_err(|e| format!("{:?}", e)), if want { "valid => allowed" } else { "not valid => refused" }
          );
          if want { n_valid += 1 } else { n_invalid += 1 }
          n += 1;
        }
      }
    }
    assert!(n >= 196 && n_valid >= 98 && n_invalid >= 98, "vacuity guard: {} cases, {} valid, {} not", n, n_valid, n_invalid);
  }

  // ================================================================== expressions through the XML path (C18)
  // DDS Security 1.1 9.4.1.3.2.3.1.1 / .1.2: topic and partition expressions use "the syntax and rules
  // of the POSIX fnmatch() function as specified in POSIX 1003.2-1992, Section B.6"; no flag is named,
  // so the oracle `fnm` above is fnmatch with flags = 0: `*` any string (also across `/`), `?` any one
  // character, `[...]` bracket expression with ranges and leading `!` negation (a `]` in first place is
  // a member), a `[` that opens no bracket expression stands for itself, `/` and a leading `.` are
  // ordinary characters, `**` is just two `*`; no backslash escapes / character classes (not in the
  // alphabet). For every expression E and topic T: EITHER from_xml rejects the document (fail closed)
  // OR the rule with E applies to T exactly iff fnmatch(E, T) — checked for E in a deny_rule with
  // default ALLOW (subject alice) and in an allow_rule with default DENY (subject bob) through the real
  // DomainParticipantPermissions::from_xml -> find_grant -> check_action, and for the hand list through
  // the plugin's check_create_datawriter.
  // Bound: every expression of length 1..=4 over {S, a, *, ?, [, ], -, /} (4680), every expression of
  // length 5 over {S, *, [, ], /} (3125) and a hand list; topics: every string of length 0..=3 over the
  // alphabet (585), the expression itself as a literal name, and a hand list.
  const EXPR_ALPHABET: [char; 8] = ['S', 'a', '*', '?', '[', ']', '-', '/'];
  const EXPR_HAND: [&str; 16] = [
    "Secret**", "Sec**Plans", "rt/secret**", "***", "a[", "[a-", "[]", "**", "a/**/b", "[!a]*",
    "Secret*", "[S*", "S[a-]]", "[]a]S", "a**", "**a",
  ];
  const TOPIC_HAND: [&str; 16] = [
    "SecretPlans", "Secret", "Secret**", "Secret*", "Sec**Plans", "SecPlans", "SecXPlans", "rt/secret/x", "rt/secret**",
    "a/b", "a/x/b", "a//b", "a/**/b", "Sa", "b", "a]",
  ];
  fn strings_over(alphabet: &[char], max_len: usize, min_len: usize) -> Vec<String> {
    let mut all: Vec<String> = vec![String::new()];
    let mut layer: Vec<String> = vec![String::new()];
    for _ in 0..max_len {
      let mut next = Vec::with_capacity(layer.len() * alphabet.len());
      for s in &layer {
        for c in alphabet {
          let mut t = s.clone();
          t.push(*c);
          next.push(t);
        }
      }
      all.extend(next.iter().cloned());
      layer = next;
    }
    all.into_iter().filter(|s| s.chars().count() >= min_len).collect()
  }
  fn expr_xml(expr: &str) -> String {
    let grant = |subject: &str, rule: &str, default: &str| {
      format!(
        "<grant name=\"xc\"><subject_name>{}</subject_name>\
         <validity><not_before>2000-01-01T00:00:00Z</not_before><not_after>2100-01-01T00:00:00Z</not_after></validity>\
         <{}><domains><id>3</id></domains><publish><topics><topic>{}</topic></topics></publish></{}>\
         <default>{}</default></grant>",
        subject, rule, expr, rule, default
      )
    };
    format!(
      "<?xml version=\"1.0\" encoding=\"UTF-8\"?>\n<dds><permissions>{}{}</permissions></dds>\n",
      grant("CN=alice,O=xc", "deny_rule", "ALLOW"),
      grant("CN=bob,O=xc", "allow_rule", "DENY")
    )
  }
  /// Expressions for which the UNCHANGED tree is known to disagree with fnmatch (finding candidate,
  /// see xc_expressions_recursive_wildcard): the glob crate reads a path component
  /// `**` followed by `/` as "zero or more directories".
  fn has_recursive_component(e: &str) -> bool {
    e.starts_with("**/") || e.contains("/**/")
  }
  struct ExprStats {
    n: u64,
    accepted: u64,
    rejected: u64,
    applicable: u64,
    not_applicable: u64,
  }
  fn check_expression(e: &str, topics: &[Vec<char>], names: &Names, now: &DateTime<Utc>, st: &mut ExprStats) {
    let doc = match DomainParticipantPermissions::from_xml(&expr_xml(e)) {
      Ok(d) => d,
      Err(_) => {
        st.rejected += 1; // fail closed
        return;
      }
    };
    st.accepted += 1;
    let g_deny = doc.find_grant(&names.alice, now).expect("alice's grant");
    let g_allow = doc.find_grant(&names.bob, now).expect("bob's grant");
    let ec: Vec<char> = e.chars().collect();
    let own = [ec.clone()];
    for tc in topics.iter().chain(own.iter()) {
      let t: String = tc.iter().collect();
      let want = fnm(&ec, tc);
      let deny_applicable = !bool::from(g_deny.check_action(Action::Publish, 3, &t, &[], &[]));
      let allow_applicable = bool::from(g_allow.check_action(Action::Publish, 3, &t, &[], &[]));
      assert!(
        deny_applicable == want,
        "XC-WITNESS label=perm.expr.deny expr={:?} topic={:?} from_xml=Ok applicable={} fnmatch={}: deny_rule with default ALLOW: publish on the topic is {} but the expression {} the topic as a file-name pattern",
        e, t, deny_applicable, want, if deny_applicable { "DENIED" } else { "ALLOWED" }, if want { "matches" } else { "does not match" }
      );
      assert!(
        allow_applicable == want,
        "XC-WITNESS label=perm.expr.allow expr={:?} topic={:?} from_xml=Ok applicable={} fnmatch={}: allow_rule with default DENY: publish on the topic is {} but the expression {} the topic as a file-name pattern",
        e, t, allow_applicable, want, if allow_applicable { "ALLOWED" } else { "DENIED" }, if want { "matches" } else { "does not match" }
      );
      if want { st.applicable += 1 } else { st.not_applicable += 1 }
      st.n += 1;
    }
  }
  fn expression_topics() -> Vec<Vec<char>> {
    let mut topics: Vec<Vec<char>> = strings_over(&EXPR_ALPHABET, 3, 0).iter().map(|s| s.chars().collect()).collect();
    topics.extend(TOPIC_HAND.iter().map(|s| s.chars().collect::<Vec<char>>()));
    topics
  }
  fn all_expressions() -> Vec<String> {
    let mut exprs = strings_over(&EXPR_ALPHABET, 4, 1);
    exprs.extend(strings_over(&['S', '*', '[', ']', '/'], 5, 5));
    exprs.extend(EXPR_HAND.iter().map(|s| s.to_string()));
    exprs
  }

  #[test]
  fn xc_expressions_through_xml() {
    let names = Names::new();
    let now = Utc.with_ymd_and_hms(2024, 6, 1, 0, 0, 0).unwrap();
    let topics = expression_topics();
    let mut st = ExprStats { n: 0, accepted: 0, rejected: 0, applicable: 0, not_applicable: 0 };
    let mut skipped = 0u64;
    for e in all_expressions() {
      if has_recursive_component(&e) {
        skipped += 1; // known divergence of the unchanged tree, kept in the #[ignore]d test below
        continue;
      }
      check_expression(&e, &topics, &names, &now, &mut st);
    }
    assert!(
      st.accepted > 4_000 && st.rejected > 500 && st.applicable > 40_000 && st.not_applicable > 1_000_000 && skipped < 100,
      "vacuity guard: {} accepted, {} rejected, {} applicable, {} not applicable, {} skipped", st.accepted, st.rejected, st.applicable, st.not_applicable, skipped
    );
  }

  // OPEN KNOWN FINDING F22 (known_findings.json; the test is active and reported as KNOWN-FINDING): the glob crate compiles a path
  // component `**` followed by `/` into "zero or more directories", which fnmatch does not know:
  //   expr "**/a"   topic "a"   : applicable=true  fnmatch=false
  //   expr "a/**/b" topic "a/b" : applicable=true  fnmatch=false
  //   expr "**/"    topic "a"   : applicable=true  fnmatch=false   (the `/` is swallowed)
  // i.e. an allow_rule with such an expression covers MORE topics than the signed expression says.
  // On the unchanged tree: 34 of the 46 enumerated expressions of this shape are accepted and all 34
  // disagree, 2083 (expr, topic) pairs, every one "applicable but no fnmatch" (never fewer topics).
  // Run: cargo test --lib --features security xc_expressions_recursive -- --ignored
  #[test]
  fn xc_expressions_recursive_wildcard() {
    let names = Names::new();
    let now = Utc.with_ymd_and_hms(2024, 6, 1, 0, 0, 0).unwrap();
    let topics = expression_topics();
    let mut div: Vec<String> = vec![];
    let (mut n_more, mut n_fewer, mut n_expr) = (0u64, 0u64, 0u64);
    for e in all_expressions() {
      if !has_recursive_component(&e) {
        continue;
      }
      let doc = match DomainParticipantPermissions::from_xml(&expr_xml(&e)) {
        Ok(d) => d,
        Err(_) => continue,
      };
      let g_allow = doc.find_grant(&names.bob, &now).expect("bob's grant");
      let ec: Vec<char> = e.chars().collect();
      let mut first = true;
      for tc in &topics {
        let t: String = tc.iter().collect();
        let want = fnm(&ec, tc);
        let applicable = bool::from(g_allow.check_action(Action::Publish, 3, &t, &[], &[]));
        if applicable != want {
          if applicable { n_more += 1 } else { n_fewer += 1 }
          if first {
            n_expr += 1;
            first = false;
            div.push(format!("expr={:?} topic={:?} applicable={} fnmatch={}", e, t, applicable, want));
          }
        }
      }
    }
    assert!(
      div.is_empty(),
      "XC-WITNESS label=perm.expr.allow {} expressions with a `**/` component accepted by from_xml disagree with fnmatch ({} (expr, topic) pairs applicable but no fnmatch, {} the other way); first topic per expression: {}",
      n_expr, n_more, n_fewer, div.join(" | ")
    );
  }

  #[test]
  fn xc_expressions_in_the_plugin() {
    let names = Names::new();
    let qos = QosPolicies::qos_none();
    let gov = [TopicRuleSpec { expr: "*", read: true, write: true }];
    let mut n = 0u64;
    let mut accepted = 0u64;
    for e in EXPR_HAND {
      if has_recursive_component(e) {
        continue;
      }
      let doc = match DomainParticipantPermissions::from_xml(&expr_xml(e)) {
        Ok(d) => d,
        Err(_) => continue, // fail closed
      };
      accepted += 1;
      let mut ac = AccessControlBuiltin::new();
      for (h, who) in [(1u32, &names.alice), (2u32, &names.bob)] {
        ac.domain_rules.insert(h, mk_domain_rule(&gov));
        ac.domain_participant_permissions.insert(h, (who.clone(), doc.clone()));
      }
      for t in TOPIC_HAND.iter().copied().chain(std::iter::once(e)) {
        let want = fnmatch(e, t);
        let deny_side = matches!(ac.check_create_datawriter(1, 3, t.to_string(), &qos), Ok(true));
        let allow_side = matches!(ac.check_create_datawriter(2, 3, t.to_string(), &qos), Ok(true));
        assert!(
          deny_side == !want,
          "XC-WITNESS label=perm.expr.deny expr={:?} topic={:?} from_xml=Ok applicable={} fnmatch={}: check_create_datawriter on the write-protected topic (deny_rule, default ALLOW) returned allowed={}",
          e, t, !deny_side, want, deny_side
        );
        assert!(
          allow_side == want,
          "XC-WITNESS label=perm.expr.allow expr={:?} topic={:?} from_xml=Ok applicable={} fnmatch={}: check_create_datawriter on the write-protected topic (allow_rule, default DENY) returned allowed={}",
          e, t, allow_side, want, allow_side
        );
        n += 1;
      }
    }
    assert!(accepted >= 5 && n >= 80, "vacuity guard: {} accepted, {} cases", accepted, n);
  }

  // ================================================================== security attributes (C17)
  // Oracle from DDS Security 1.1 (9.4.1.2.5/6, 9.4.2.3-9.4.2.6, tables 60/62): for a protection kind k
  //   protected <=> k != NONE;  encrypted <=> k in {ENCRYPT, ENCRYPT_WITH_ORIGIN_AUTHENTICATION};
  //   origin authenticated <=> k in {SIGN_WITH_ORIGIN_AUTHENTICATION, ENCRYPT_WITH_ORIGIN_AUTHENTICATION};
  //   data_protection_kind d: is_payload_protected <=> d != NONE; is_payload_encrypted and
  //   is_key_protected <=> d == ENCRYPT;  topic flags = the four enable_* elements;
  //   plugin masks: bit 31 valid; endpoint 0x1 submessage encrypted, 0x2 payload encrypted, 0x4
  //   submessage origin authenticated; participant 0x1/0x2/0x4 rtps/discovery/liveliness encrypted,
  //   0x8/0x10/0x20 rtps/discovery/liveliness origin authenticated.
  // Through the real DomainGovernanceDocument::from_xml (unsigned text; the signature stays out) and
  // the real AccessControlBuiltin getters.
  const KINDS: [&str; 5] = ["NONE", "SIGN", "ENCRYPT", "SIGN_WITH_ORIGIN_AUTHENTICATION", "ENCRYPT_WITH_ORIGIN_AUTHENTICATION"];
  const DATA_KINDS: [&str; 3] = ["NONE", "SIGN", "ENCRYPT"];
  fn k_protected(k: &str) -> bool { k != "NONE" }
  fn k_encrypted(k: &str) -> bool { k.starts_with("ENCRYPT") }
  fn k_origin(k: &str) -> bool { k.ends_with("_WITH_ORIGIN_AUTHENTICATION") }
  fn topic_rule_xml(expr: &str, flags: [bool; 4], metadata: &str, data: &str) -> String {
    format!(
      "<topic_rule><topic_expression>{}</topic_expression>\
       <enable_discovery_protection>{}</enable_discovery_protection>\
       <enable_liveliness_protection>{}</enable_liveliness_protection>\
       <enable_read_access_control>{}</enable_read_access_control>\
       <enable_write_access_control>{}</enable_write_access_control>\
       <metadata_protection_kind>{}</metadata_protection_kind>\
       <data_protection_kind>{}</data_protection_kind></topic_rule>",
      expr, flags[0], flags[1], flags[2], flags[3], metadata, data
    )
  }
  fn governance_xml(unauth: bool, join: bool, rtps: &str, discovery: &str, liveliness: &str, topic_rules: &str) -> String {
    format!(
      "<?xml version=\"1.0\" encoding=\"utf-8\"?>\n<dds><domain_access_rules><domain_rule>\
       <domains><id>3</id></domains>\
       <allow_unauthenticated_participants>{}</allow_unauthenticated_participants>\
       <enable_join_access_control>{}</enable_join_access_control>\
       <discovery_protection_kind>{}</discovery_protection_kind>\
       <liveliness_protection_kind>{}</liveliness_protection_kind>\
       <rtps_protection_kind>{}</rtps_protection_kind>\
       <topic_access_rules>{}</topic_access_rules>\
       </domain_rule></domain_access_rules></dds>\n",
      unauth, join, discovery, liveliness, rtps, topic_rules
    )
  }
  fn plugin_with_governance(xml: &str) -> AccessControlBuiltin {
    use super::super::domain_governance_document::DomainGovernanceDocument;
    let dr = DomainGovernanceDocument::from_xml(xml)
      .unwrap_or_else(|e| panic!("XC-WITNESS label=attrs.parse governance={}: rejected: {:?}", xml, e))
      .find_rule(3)
      .expect("domain rule for domain 3")
      .clone();
    let mut ac = AccessControlBuiltin::new();
    ac.domain_rules.insert(1, dr);
    ac
  }

  #[test]
  fn attrs_endpoint_follow_governance_topic_rule() {
    let mut n = 0u64;
    let (mut n_payload_prot, mut n_sub_prot, mut n_sign_only) = (0u64, 0u64, 0u64);
    for (mi, metadata) in KINDS.iter().enumerate() {
      for (di, data) in DATA_KINDS.iter().enumerate() {
        for bits in 0..16u32 {
          let flags = [bits & 1 != 0, bits & 2 != 0, bits & 4 != 0, bits & 8 != 0];
          // decoy rules in front (other topic) and behind (a SHADOWED rule naming the topic literally, then a
          // catch-all) with different values everywhere: the FIRST matching rule in document order applies
          // (DDS Security 9.4.1.2.7), however specific a later one is
          let other_flags = [!flags[0], !flags[1], !flags[2], !flags[3]];
          let rules = format!(
            "{}{}{}{}",
            topic_rule_xml("Other*", other_flags, KINDS[(mi + 2) % 5], DATA_KINDS[(di + 1) % 3]),
            topic_rule_xml("Xc[TU]opic?", flags, metadata, data),
            topic_rule_xml("XcTopic1", other_flags, KINDS[(mi + 3) % 5], DATA_KINDS[(di + 1) % 3]),
            topic_rule_xml("*", other_flags, KINDS[(mi + 1) % 5], DATA_KINDS[(di + 2) % 3])
          );
          let xml = governance_xml(false, true, "NONE", "NONE", "NONE", &rules);
          let ac = plugin_with_governance(&xml);
          let topic = "XcTopic1";
          let ctx = format!(
            "topic_rule{{enable_discovery_protection={} enable_liveliness_protection={} enable_read_access_control={} enable_write_access_control={} metadata_protection_kind={} data_protection_kind={}}} topic={:?}",
            flags[0], flags[1], flags[2], flags[3], metadata, data, topic
          );
          let want_mask: u32 = 0x8000_0000
            | if k_encrypted(metadata) { 0x1 } else { 0 }
            | if *data == "ENCRYPT" { 0x2 } else { 0 }
            | if k_origin(metadata) { 0x4 } else { 0 };
          let want = (
            k_protected(metadata), // is_submessage_protected
            *data != "NONE",       // is_payload_protected
            *data == "ENCRYPT",    // is_key_protected
            flags[2], flags[3], flags[0], flags[1], // read, write, discovery, liveliness
            want_mask,
          );
          for which in ["get_datawriter_sec_attributes", "get_datareader_sec_attributes"] {
            let a = if which == "get_datawriter_sec_attributes" {
              ac.get_datawriter_sec_attributes(1, topic.to_string())
            } else {
              ac.get_datareader_sec_attributes(1, topic.to_string())
            };
            let a = a.unwrap_or_else(|e| panic!("XC-WITNESS label=attrs.endpoint {} call={}: Err({:?}) but the topic has a governance rule", ctx, which, e));
            let t = &a.topic_security_attributes;
            let real = (
              a.is_submessage_protected, a.is_payload_protected, a.is_key_protected,
              t.is_read_protected, t.is_write_protected, t.is_discovery_protected, t.is_liveliness_protected,
              a.plugin_endpoint_attributes.0,
            );
            assert!(
              real == want,
              "XC-WITNESS label=attrs.endpoint {} call={}: (is_submessage_protected, is_payload_protected, is_key_protected, is_read_protected, is_write_protected, is_discovery_protected, is_liveliness_protected, plugin mask) = {:?} ({:#x}) but the governance rule means {:?} ({:#x})",
              ctx, which, real, real.7, want, want.7
            );
            let dec = BuiltinPluginEndpointSecurityAttributes::try_from(a.plugin_endpoint_attributes.clone());
            match dec {
              Ok(d) => assert!(
                (d.is_submessage_encrypted, d.is_submessage_origin_authenticated, d.is_payload_encrypted) == (k_encrypted(metadata), k_origin(metadata), *data == "ENCRYPT"),
                "XC-WITNESS label=attrs.endpoint.plugin {} call={}: decoded (is_submessage_encrypted, is_submessage_origin_authenticated, is_payload_encrypted) = {:?}, required {:?}",
                ctx, which, (d.is_submessage_encrypted, d.is_submessage_origin_authenticated, d.is_payload_encrypted), (k_encrypted(metadata), k_origin(metadata), *data == "ENCRYPT")
              ),
              Err(e) => panic!("XC-WITNESS label=attrs.endpoint.plugin {} call={}: plugin mask does not decode: {:?}", ctx, which, e),
            }
            n += 1;
          }
          let t = ac
            .get_topic_sec_attributes(1, topic)
            .unwrap_or_else(|e| panic!("XC-WITNESS label=attrs.topic {}: Err({:?})", ctx, e));
          let real_t = (t.is_read_protected, t.is_write_protected, t.is_discovery_protected, t.is_liveliness_protected);
          assert!(
            real_t == (flags[2], flags[3], flags[0], flags[1]),
            "XC-WITNESS label=attrs.topic {}: get_topic_sec_attributes (read, write, discovery, liveliness) = {:?}, governance says {:?}",
            ctx, real_t, (flags[2], flags[3], flags[0], flags[1])
          );
          if want.1 { n_payload_prot += 1 }
          if want.0 { n_sub_prot += 1 }
          if *data == "SIGN" { n_sign_only += 1 }
        }
      }
    }
    assert!(n == 480 && n_payload_prot == 160 && n_sub_prot == 192 && n_sign_only == 80, "vacuity guard: {} {} {} {}", n, n_payload_prot, n_sub_prot, n_sign_only);
  }

  #[test]
  fn attrs_participant_follow_governance_domain_rule() {
    let mut n = 0u64;
    for rtps in KINDS {
      for discovery in KINDS {
        for liveliness in KINDS {
          for bits in 0..4u32 {
            let (unauth, join) = (bits & 1 != 0, bits & 2 != 0);
            let rules = topic_rule_xml("*", [false, false, true, true], "NONE", "NONE");
            let xml = governance_xml(unauth, join, rtps, discovery, liveliness, &rules);
            let ac = plugin_with_governance(&xml);
            let ctx = format!(
              "domain_rule{{allow_unauthenticated_participants={} enable_join_access_control={} rtps_protection_kind={} discovery_protection_kind={} liveliness_protection_kind={}}}",
              unauth, join, rtps, discovery, liveliness
            );
            let a = ac
              .get_participant_sec_attributes(1)
              .unwrap_or_else(|e| panic!("XC-WITNESS label=attrs.participant {}: Err({:?})", ctx, e));
            let want_mask: u32 = 0x8000_0000
              | if k_encrypted(rtps) { 0x1 } else { 0 }
              | if k_encrypted(discovery) { 0x2 } else { 0 }
              | if k_encrypted(liveliness) { 0x4 } else { 0 }
              | if k_origin(rtps) { 0x8 } else { 0 }
              | if k_origin(discovery) { 0x10 } else { 0 }
              | if k_origin(liveliness) { 0x20 } else { 0 };
            let want = (unauth, join, k_protected(rtps), k_protected(discovery), k_protected(liveliness), want_mask);
            let real = (
              a.allow_unauthenticated_participants, a.is_access_protected, a.is_rtps_protected,
              a.is_discovery_protected, a.is_liveliness_protected, a.plugin_participant_attributes.0,
            );
            assert!(
              real == want,
              "XC-WITNESS label=attrs.participant {}: (allow_unauthenticated_participants, is_access_protected, is_rtps_protected, is_discovery_protected, is_liveliness_protected, plugin mask) = {:?} ({:#x}) but the governance rule means {:?} ({:#x})",
              ctx, real, real.5, want, want.5
            );
            let d = BuiltinPluginParticipantSecurityAttributes::try_from(a.plugin_participant_attributes.clone())
              .unwrap_or_else(|e| panic!("XC-WITNESS label=attrs.participant.plugin {}: plugin mask does not decode: {:?}", ctx, e));
            let real_d = (d.is_rtps_encrypted, d.is_discovery_encrypted, d.is_liveliness_encrypted,
                          d.is_rtps_origin_authenticated, d.is_discovery_origin_authenticated, d.is_liveliness_origin_authenticated);
            let want_d = (k_encrypted(rtps), k_encrypted(discovery), k_encrypted(liveliness), k_origin(rtps), k_origin(discovery), k_origin(liveliness));
            assert!(
              real_d == want_d,
              "XC-WITNESS label=attrs.participant.plugin {}: decoded (rtps, discovery, liveliness encrypted; rtps, discovery, liveliness origin authenticated) = {:?}, required {:?}",
              ctx, real_d, want_d
            );
            n += 1;
          }
        }
      }
    }
    assert!(n == 500, "vacuity guard: {} cases", n);
  }
}
