//@ append: src/rtps/reader.rs
// Executable contract of the Reader's match bookkeeping (C11; unit matching) — bounded stand-in /
// witness search on ONE real Reader: update_writer_proxy / remove_writer_proxy / participant_lost
// (+ contains_writer, matched_writer_update, RtpsWriterProxy::update_contents behind them).
// Oracle:
//   (property statement) in every history in which each writer GUID keeps the QoS it was announced
//     with: match set == { announced } intersect { compatible };
//   (the clauses of unit matching, for EVERY history) compatible announce of an unknown writer adds it,
//     one SubscriptionMatched(total+1/+1, current=|set|/+1); re-announce of a matched writer: nothing;
//     incompatible announce: set unchanged, one RequestedIncompatibleQos (counter+1/+1, own QoS as
//     requested, the writer's QoS as offered, the violated policy), no match event; dispose of a
//     matched writer removes it, one SubscriptionMatched(total/0, current=|set|/-1); dispose of an
//     unknown writer: nothing; participant lost: exactly the writers with that prefix are removed, one
//     (-1) event each, the k-th with current = |set before| - k; total never decreases;
//     contains_writer(e) == some matched GUID has entity id e;
//   re-announce keeps the proxy's run-time state: all_ackable_before still counts the DATA received
//     before the re-announce; DATA from an unmatched writer creates no match.
// Bound: reader QoS reliable+volatile; writers = 2 participants x 2 entity ids (the SAME two entity ids
//   in both participants) announced with a compatible (reliable) or an incompatible (best-effort) QoS;
//   (1) every sequence of length <= 4 over the 15 operations {announce(g, compatible|incompatible) x 4
//       GUIDs, dispose(g) x 4, participant_lost(P0|P1|a participant never seen)};
//   (2) every sequence of length <= 5 over the 8 operations {announce(g), dispose(g), DATA(g) for
//       g in {P0.a, P1.a}, participant_lost(P0|P1)} with next-in-sequence DATA.
#[cfg(test)]
mod verif_xc_matching_endpoints {
  use std::{any::Any, collections::BTreeSet, fmt, sync::RwLock};

  use super::*;
  use crate::{
    dds::{
      qos::QosPolicyId,
      statusevents::{sync_status_channel, StatusChannelReceiver},
      typedesc::TypeDesc,
    },
    structure::{dds_cache::DDSCache, guid::EntityKind},
  };

  const NAMES: [&str; 4] = ["P0.a", "P0.b", "P1.a", "P1.b"];
  fn prefix(p: usize) -> GuidPrefix {
    GuidPrefix::new(match p {
      0 => b"xcParticip_0",
      1 => b"xcParticip_1",
      _ => b"xcParticip_2", // never announces anything
    })
  }
  fn wguid(w: usize) -> GUID {
    GUID::new(prefix(w / 2), EntityId::new([0, 0, 7 + (w % 2) as u8], EntityKind::WRITER_NO_KEY_USER_DEFINED))
  }
  fn wname(g: GUID) -> String {
    (0..4).find(|&w| wguid(w) == g).map_or(format!("{g:?}"), |w| NAMES[w].to_string())
  }
  fn own_qos() -> QosPolicies {
    QosPolicies::builder()
      .reliability(policy::Reliability::Reliable { max_blocking_time: Duration::from_millis(100) })
      .durability(policy::Durability::Volatile)
      .build()
  }
  // a compatible writer offers RELIABLE, an incompatible one BEST_EFFORT (DDS 2.2.3: offered >= requested)
  fn writer_qos(compatible: bool) -> QosPolicies {
    if compatible {
      QosPolicies::builder()
        .reliability(policy::Reliability::Reliable { max_blocking_time: Duration::from_millis(50) })
        .durability(policy::Durability::TransientLocal)
        .build()
    } else {
      QosPolicies::builder().reliability(policy::Reliability::BestEffort).durability(policy::Durability::Volatile).build()
    }
  }

  #[derive(Clone, Copy, PartialEq, Eq)]
  enum Op {
    Announce(usize, bool), // update_writer_proxy(proxy of writer w, compatible / incompatible QoS)
    Dispose(usize),        // remove_writer_proxy
    PLost(usize),          // participant_lost
    Data(usize),           // DATA submessage from writer w, next sequence number
  }
  impl fmt::Debug for Op {
    fn fmt(&self, f: &mut fmt::Formatter<'_>) -> fmt::Result {
      match *self {
        Op::Announce(w, c) => write!(f, "update_writer_proxy({},{})", NAMES[w], if c { "compatible" } else { "incompatible" }),
        Op::Dispose(w) => write!(f, "remove_writer_proxy({})", NAMES[w]),
        Op::PLost(p) => write!(f, "participant_lost(P{p})"),
        Op::Data(w) => write!(f, "DATA({})", NAMES[w]),
      }
    }
  }

  #[derive(Debug, Clone, PartialEq)]
  enum Obs {
    Matched { g: GUID, total: (i32, i32), current: (i32, i32) },
    Incompat { g: GUID, count: (i32, i32), policy: QosPolicyId, requested_is_own: bool, offered_is_writers: bool },
    Other(String),
  }

  struct Env {
    udp_sender: Rc<UDPSender>,
  }
  struct Harness {
    reader: Reader,
    status: StatusChannelReceiver<DataReaderStatus>,
    _keep: Vec<Box<dyn Any>>,
    // model
    matched: BTreeSet<usize>,    // contract model of the match set
    announced: BTreeSet<usize>,  // property model: announced and not disposed / lost
    qos_of: [Option<bool>; 4],   // the QoS each GUID was announced with (None: never announced)
    keeps_qos: bool,             // no GUID changed its QoS so far
    total: i32,
    incompat: i32,
    next_sn: [i64; 4],           // DATA: next sequence number of a matched writer (= expected ack base)
    trace: Vec<Op>,
  }

  impl Harness {
    fn new(env: &Env) -> Self {
      let dds_cache = Arc::new(RwLock::new(DDSCache::new()));
      let topic_cache_handle = dds_cache.write().unwrap().add_new_topic("xc_topic".to_string(), TypeDesc::new("xc_type".to_string()), &own_qos());
      let (notification_sender, nr) = mio_channel::sync_channel::<()>(100);
      let (nes, poll_event_sender) = mio_source::make_poll_channel().unwrap();
      let (status_sender, status) = sync_status_channel::<DataReaderStatus>(16).unwrap();
      let (participant_status_sender, pr) = sync_status_channel(16).unwrap();
      let (rcs, data_reader_command_receiver) = mio_channel::sync_channel::<ReaderCommand>(10);
      let reader = Reader::new(
        ReaderIngredients {
          guid: GUID::new(prefix(0), EntityId::new([0, 0, 1], EntityKind::READER_NO_KEY_USER_DEFINED)),
          notification_sender,
          status_sender,
          topic_name: "xc_topic".to_string(),
          topic_cache_handle,
          like_stateless: false,
          qos_policy: own_qos(),
          data_reader_command_receiver,
          data_reader_waker: Arc::new(Mutex::new(None)),
          poll_event_sender,
          security_plugins: None,
        },
        Rc::clone(&env.udp_sender),
        mio_extras::timer::Builder::default().build(),
        participant_status_sender,
      );
      Harness {
        reader,
        status,
        _keep: vec![Box::new((dds_cache, nr, nes, pr, rcs))],
        matched: BTreeSet::new(),
        announced: BTreeSet::new(),
        qos_of: [None; 4],
        keeps_qos: true,
        total: 0,
        incompat: 0,
        next_sn: [1; 4],
        trace: vec![],
      }
    }

    fn drain(&self) -> Vec<Obs> {
      let mut v = vec![];
      while let Ok(s) = self.status.try_recv() {
        v.push(match s {
          DataReaderStatus::SubscriptionMatched { total, current, writer } => Obs::Matched {
            g: writer,
            total: (total.count(), total.count_change()),
            current: (current.count(), current.count_change()),
          },
          DataReaderStatus::RequestedIncompatibleQos { count, last_policy_id, writer, requested_qos, offered_qos } => Obs::Incompat {
            g: writer,
            count: (count.count(), count.count_change()),
            policy: last_policy_id,
            requested_is_own: *requested_qos == own_qos(),
            offered_is_writers: *offered_qos == writer_qos(false),
          },
          other => Obs::Other(format!("{other:?}")),
        });
      }
      v
    }

    fn step(&mut self, op: Op) {
      self.trace.push(op);
      let names = |s: &BTreeSet<usize>| s.iter().map(|&w| NAMES[w]).collect::<Vec<_>>();
      let pre = self.matched.clone();
      let pre_total = self.total;
      // ---- model + expected events (in order; for participant_lost any order of the lost writers)
      let mut exp_incompat: Option<usize> = None;
      let label = match op {
        Op::Announce(w, true) => {
          if self.qos_of[w] == Some(false) { self.keeps_qos = false; }
          self.qos_of[w] = Some(true);
          self.announced.insert(w);
          if self.matched.insert(w) { self.total += 1; self.next_sn[w] = 1; "match.add" } else { "match.readd" }
        }
        Op::Announce(w, false) => {
          if self.qos_of[w] == Some(true) { self.keeps_qos = false; }
          self.qos_of[w] = Some(false);
          self.announced.insert(w);
          self.incompat += 1;
          exp_incompat = Some(w);
          "match.incompat"
        }
        Op::Dispose(w) => {
          self.announced.remove(&w);
          self.qos_of[w] = None; // a later announce is a new life of the endpoint
          if self.matched.remove(&w) { "match.remove" } else { "match.unknown" }
        }
        Op::PLost(p) => {
          self.announced.retain(|&w| w / 2 != p);
          self.matched.retain(|&w| w / 2 != p);
          for w in 0..4 { if w / 2 == p { self.qos_of[w] = None; } }
          "match.lost.events"
        }
        Op::Data(_) => "match.frame",
      };
      // ---- the real reader
      let snapshot: Vec<(GUID, String)> = self.reader.matched_writers.iter().map(|(g, p)| (*g, format!("{p:?}"))).collect();
      match op {
        // (`let _ =`: independent of what the functions return)
        Op::Announce(w, c) => { let _ = self.reader.update_writer_proxy(RtpsWriterProxy::new(wguid(w), vec![], vec![], EntityId::UNKNOWN), &writer_qos(c)); }
        Op::Dispose(w) => { let _ = self.reader.remove_writer_proxy(wguid(w)); }
        Op::PLost(p) => { let _ = self.reader.participant_lost(prefix(p)); }
        Op::Data(w) => {
          let sn = if self.matched.contains(&w) { self.next_sn[w] } else { 1 };
          let mr_state = MessageReceiverState { source_guid_prefix: wguid(w).prefix, ..Default::default() };
          let data = Data { reader_id: self.reader.entity_id(), writer_id: wguid(w).entity_id, writer_sn: SequenceNumber::new(sn), ..Default::default() };
          self.reader.handle_data_msg(data, BitFlags::<DATA_Flags>::from_flag(DATA_Flags::Data), &mr_state);
          if self.matched.contains(&w) { self.next_sn[w] += 1; }
        }
      }
      let t = &self.trace;
      // ---- match set
      let real: BTreeSet<usize> = (0..4).filter(|&w| self.reader.matched_writers.contains_key(&wguid(w))).collect();
      assert!(self.reader.matched_writers.len() == real.len(), "XC-WITNESS label=match.frame ops={:?}: the match map holds GUIDs nobody announced: {:?}", t, self.reader.matched_writers.keys().collect::<Vec<_>>());
      let set_label = if matches!(op, Op::PLost(_)) { "match.lost.set" } else { label };
      assert!(real == self.matched, "XC-WITNESS label={} ops={:?}: match set is {:?}, required {:?} (before the last operation: {:?})", set_label, t, names(&real), names(&self.matched), names(&pre));
      if self.keeps_qos {
        let want: BTreeSet<usize> = self.announced.iter().copied().filter(|&w| self.qos_of[w] == Some(true)).collect();
        assert!(real == want, "XC-WITNESS label=match.lemma.set ops={:?}: match set is {:?} but the announced, QoS-compatible writers are {:?}", t, names(&real), names(&want));
      }
      for e in 0..2u8 {
        let entity = EntityId::new([0, 0, 7 + e], EntityKind::WRITER_NO_KEY_USER_DEFINED);
        let want = self.matched.iter().any(|&w| wguid(w).entity_id == entity);
        assert!(self.reader.contains_writer(entity) == want, "XC-WITNESS label=match.contains ops={:?}: contains_writer({:?}) = {}, match set {:?}", t, entity, !want, names(&self.matched));
      }
      assert!(!self.reader.contains_writer(EntityId::new([0, 0, 9], EntityKind::WRITER_NO_KEY_USER_DEFINED)), "XC-WITNESS label=match.contains ops={:?}: contains_writer(entity id nobody has) = true", t);
      // ---- counters
      assert!(self.reader.writer_match_count_total >= pre_total, "XC-WITNESS label=match.total.mono ops={:?}: total went from {} to {}", t, pre_total, self.reader.writer_match_count_total);
      assert!(self.reader.writer_match_count_total == self.total, "XC-WITNESS label={} ops={:?}: total match counter is {}, required {} (one per new match, never decreasing)", label, t, self.reader.writer_match_count_total, self.total);
      assert!(self.reader.offered_incompatible_qos_count == self.incompat, "XC-WITNESS label=match.incompat.count ops={:?}: incompatible-QoS counter is {}, required {} (one per incompatible announce)", t, self.reader.offered_incompatible_qos_count, self.incompat);
      // ---- status events of this step
      let obs = self.drain();
      let mut cur = pre.len() as i32;
      let mut pending_out: BTreeSet<usize> = pre.difference(&self.matched).copied().collect();
      let mut pending_in: BTreeSet<usize> = self.matched.difference(&pre).copied().collect();
      let expect = format!("{} SubscriptionMatched(-1) for {:?}, {} SubscriptionMatched(+1) for {:?}, {} RequestedIncompatibleQos", pending_out.len(), names(&pending_out), pending_in.len(), names(&pending_in), exp_incompat.is_some() as u8);
      let mut tot = pre_total;
      let mut n_incompat = 0;
      for o in &obs {
        match o {
          Obs::Matched { g, total, current } => {
            let w = (0..4).find(|&w| wguid(w) == *g);
            if w.is_some_and(|w| pending_out.remove(&w)) {
              cur -= 1;
              assert!(*current == (cur, -1) && *total == (tot, 0), "XC-WITNESS label=match.status.count ops={:?}: unmatch event for {} says current={:?} total={:?}; required current=({},-1) total=({},0)", t, wname(*g), current, total, cur, tot);
            } else if w.is_some_and(|w| pending_in.remove(&w)) {
              cur += 1;
              tot += 1;
              assert!(*current == (cur, 1) && *total == (tot, 1), "XC-WITNESS label=match.status.count ops={:?}: match event for {} says current={:?} total={:?}; required current=({},1) total=({},1)", t, wname(*g), current, total, cur, tot);
            } else {
              panic!("XC-WITNESS label={} ops={:?}: event {:?} for {} whose membership did not change; expected {}; events of the last operation: {:?}", label, t, o, wname(*g), expect, obs);
            }
          }
          Obs::Incompat { g, count, policy, requested_is_own, offered_is_writers } => {
            n_incompat += 1;
            assert!(n_incompat == 1 && exp_incompat.is_some_and(|w| wguid(w) == *g), "XC-WITNESS label={} ops={:?}: unexpected incompatible-QoS event for {}; expected {}; events of the last operation: {:?}", label, t, wname(*g), expect, obs);
            assert!(*count == (self.incompat, 1) && *policy == QosPolicyId::Reliability && *requested_is_own && *offered_is_writers,
              "XC-WITNESS label=match.status.incompat ops={:?}: event says count={:?} policy={:?} requested-is-own-QoS={} offered-is-the-writer's-QoS={}; required count=({},1) policy=Reliability true true", t, count, policy, requested_is_own, offered_is_writers, self.incompat);
          }
          Obs::Other(s) => panic!("XC-WITNESS label={} ops={:?}: unexpected status event {}; expected {}", label, t, s, expect),
        }
      }
      assert!(pending_out.is_empty() && pending_in.is_empty() && n_incompat == exp_incompat.is_some() as i32,
        "XC-WITNESS label={} ops={:?}: status events of the last operation are {:?}; expected {} (match set before {:?}, after {:?})", label, t, obs, expect, names(&pre), names(&self.matched));
      // ---- run-time state of every matched proxy
      for &w in &self.matched {
        let base = i64::from(self.reader.matched_writers[&wguid(w)].all_ackable_before());
        assert!(base == self.next_sn[w], "XC-WITNESS label=match.readd.frame ops={:?}: proxy of {} has all_ackable_before = {}, but {} DATA in sequence were received since it was matched (required {})", t, NAMES[w], base, self.next_sn[w] - 1, self.next_sn[w]);
      }
      // ---- frame: no operation touches the proxy of another writer; a re-announce (same locators)
      //      and a dispose / participant loss leave every remaining proxy exactly as it was
      for (g, before) in &snapshot {
        if let Some(p) = self.reader.matched_writers.get(g) {
          let touched = matches!(op, Op::Data(w) if wguid(w) == *g);
          let after = format!("{p:?}");
          assert!(touched || after == *before, "XC-WITNESS label={} ops={:?}: the last operation changed the proxy of {}: before {} after {}",
            if matches!(op, Op::Announce(w, _) if wguid(w) == *g) { "match.readd.frame" } else { "match.frame" }, t, wname(*g), before, after);
        }
      }
    }
  }

  fn enumerate(env: &Env, ops: &[Op], max_len: usize) -> (u64, u64) {
    // all sequences of length 1..=max_len, shortest first (-> minimal witnesses); each on a fresh Reader
    let (mut n, mut n_consistent) = (0u64, 0u64);
    for len in 1..=max_len {
      let mut idx = vec![0usize; len];
      'seqs: loop {
        let mut h = Harness::new(env);
        for &i in &idx { h.step(ops[i]); }
        n += 1;
        if h.keeps_qos { n_consistent += 1; }
        let mut k = len;
        loop {
          if k == 0 { break 'seqs; }
          k -= 1;
          idx[k] += 1;
          if idx[k] < ops.len() { break; }
          idx[k] = 0;
        }
      }
    }
    (n, n_consistent)
  }

  #[test]
  fn xc_reader_match_set_and_events_len4() {
    let env = Env { udp_sender: Rc::new(UDPSender::new(0).unwrap()) };
    let mut ops = vec![];
    for w in 0..4 { ops.push(Op::Announce(w, true)); ops.push(Op::Announce(w, false)); }
    for w in 0..4 { ops.push(Op::Dispose(w)); }
    for p in 0..3 { ops.push(Op::PLost(p)); }
    let (n, n_consistent) = enumerate(&env, &ops, 4);
    assert!(n == 15 + 225 + 3375 + 50625, "vacuity guard: {} sequences", n);
    assert!(n_consistent > 40_000, "vacuity guard: only {} histories in which every writer keeps its QoS", n_consistent);
  }

  #[test]
  fn xc_reader_reannounce_keeps_runtime_state_len5() {
    let env = Env { udp_sender: Rc::new(UDPSender::new(0).unwrap()) };
    let mut ops = vec![];
    for w in [0, 2] { ops.push(Op::Announce(w, true)); ops.push(Op::Dispose(w)); ops.push(Op::Data(w)); }
    ops.push(Op::PLost(0));
    ops.push(Op::PLost(1));
    let (n, _) = enumerate(&env, &ops, 5);
    assert!(n == 8 + 64 + 512 + 4096 + 32768, "vacuity guard: {} sequences", n);
  }
}
