//@ append: src/rtps/reader.rs
// Executable contract for C09 on the DATAFRAG path — bounded stand-in / witness search on the REAL Reader.
// Oracle (from the property statement): a change that cannot be turned into a sample is skipped and never prevents
//   later changes of the same writer from being delivered.  A fragmented sample whose Lifespan has expired when its
//   DATAFRAGs arrive is such a change (every repair carries the same source timestamp): after the sample and one
//   repair round, and a fresh DATA #2 behind it, the RELIABLE hand-over bound of the writer must be 3 (#1 skipped,
//   #2 deliverable).  The pinned tree dropped the fragments and left #1 missing for ever: finding F26, fixed in /repo.
// Bound: one writer, Lifespan 1 s, INFO_TS 10 s old (expired) or current (control), sample #1 = 2 fragments sent
//   twice, sample #2 = one DATA.

#[cfg(test)]
mod verif_xc_lifespan_frag {
  // A fragmented sample whose lifespan has expired when its DATAFRAGs arrive cannot be turned into a sample any
  // more.  The property (C09) says such a change is skipped and never prevents later changes of the same writer
  // from being delivered: the sequence number must become "not available" for the RELIABLE stream (like a GAP),
  // otherwise the reader asks for it for ever, gets the same expired fragments again and holds back everything
  // behind it.
  use std::sync::RwLock;

  use bytes::Bytes;

  use crate::{
    dds::{
      qos::policy::{Lifespan, Reliability},
      statusevents::sync_status_channel,
      typedesc::TypeDesc,
    },
    structure::{dds_cache::DDSCache, guid::EntityKind},
    QosPolicyBuilder,
  };
  use super::*;

  const FRAGMENT_SIZE: u16 = 8;

  fn fragment(writer_guid: GUID, sn: SequenceNumber, fragment_number: u32) -> DataFrag {
    let mut payload = vec![0u8; usize::from(FRAGMENT_SIZE)];
    if fragment_number == 1 {
      payload[1] = 0x01; // CDR_LE representation identifier
    }
    DataFrag {
      reader_id: EntityId::UNKNOWN,
      writer_id: writer_guid.entity_id,
      writer_sn: sn,
      fragment_starting_num: FragmentNumber::new(fragment_number),
      fragments_in_submessage: 1,
      data_size: u32::from(FRAGMENT_SIZE) * 2,
      fragment_size: FRAGMENT_SIZE,
      inline_qos: None,
      serialized_payload: Bytes::from(payload),
    }
  }

  fn history(expired: bool) -> (SequenceNumber, SequenceNumber) {
    let dds_cache = Arc::new(RwLock::new(DDSCache::new()));
    let topic_name = "verif_xc_lifespan_frag";
    let qos = QosPolicyBuilder::new()
      .reliability(Reliability::Reliable { max_blocking_time: Duration::from_millis(100) })
      .lifespan(Lifespan { duration: Duration::from_secs(1) })
      .build();
    let topic_cache_handle = dds_cache.write().unwrap().add_new_topic(topic_name.to_string(), TypeDesc::new("test_type".to_string()), &qos);
    let (notification_sender, _notification_receiver) = mio_channel::sync_channel::<()>(100);
    let (_notification_event_source, notification_event_sender) = mio_source::make_poll_channel().unwrap();
    let (status_sender, _status_receiver) = sync_status_channel::<DataReaderStatus>(4).unwrap();
    let (participant_status_sender, _participant_status_receiver) = sync_status_channel(16).unwrap();
    let (_reader_command_sender, reader_command_receiver) = mio_channel::sync_channel::<ReaderCommand>(10);
    let reader_ing = ReaderIngredients {
      guid: GUID::dummy_test_guid(EntityKind::READER_NO_KEY_USER_DEFINED),
      notification_sender,
      status_sender,
      topic_name: topic_name.to_string(),
      topic_cache_handle: topic_cache_handle.clone(),
      like_stateless: false,
      qos_policy: qos.clone(),
      data_reader_command_receiver: reader_command_receiver,
      data_reader_waker: Arc::new(Mutex::new(None)),
      poll_event_sender: notification_event_sender,
      security_plugins: None,
    };
    let mut reader = Reader::new(reader_ing, Rc::new(UDPSender::new(0).unwrap()), mio_extras::timer::Builder::default().build(), participant_status_sender);
    let writer_guid = GUID::dummy_test_guid(EntityKind::WRITER_NO_KEY_USER_DEFINED);
    reader.matched_writer_add(writer_guid, EntityId::UNKNOWN, vec![], vec![], &qos);

    // sample #1: two DATAFRAGs behind an INFO_TS that is 10 s old (lifespan 1 s) - or fresh (control)
    let now = Timestamp::now();
    let old_state = MessageReceiverState {
      source_guid_prefix: writer_guid.prefix,
      source_timestamp: Some(if expired { now - Duration::from_secs(10) } else { now }),
      ..Default::default()
    };
    let flags = BitFlags::<DATAFRAG_Flags>::from_flag(DATAFRAG_Flags::Endianness);
    // the writer sends the sample, and sends it again when the reader asks for it
    for _round in 0..2 {
      for f in 1..=2 {
        reader.handle_datafrag_msg(&fragment(writer_guid, SequenceNumber::new(1), f), flags, &old_state);
      }
    }
    // sample #2: an ordinary fresh DATA
    let fresh_state = MessageReceiverState { source_guid_prefix: writer_guid.prefix, source_timestamp: Some(Timestamp::now()), ..Default::default() };
    let data = Data {
      reader_id: EntityId::UNKNOWN,
      writer_id: writer_guid.entity_id,
      writer_sn: SequenceNumber::new(2),
      inline_qos: None,
      serialized_payload: Some(Bytes::from(vec![0u8, 1, 0, 0, 1, 2, 3, 4])),
    };
    reader.handle_data_msg(data, BitFlags::<DATA_Flags>::from_flag(DATA_Flags::Endianness) | DATA_Flags::Data, &fresh_state);

    let frontier = reader.matched_writer(writer_guid).unwrap().all_ackable_before();
    // what a RELIABLE DataReader that has read nothing yet would be handed: the sequence numbers inside the window
    let handed: Vec<SequenceNumber> = topic_cache_handle
      .lock()
      .unwrap()
      .get_changes_in_range_reliable(&BTreeMap::new())
      .map(|(_, cc)| cc.sequence_number)
      .collect();
    let marker = handed.last().map_or(SequenceNumber::new(1), |s| s.plus_1());
    (frontier, marker)
  }

  #[test]
  fn xc_lifespan_control_fresh_fragments() {
    let (frontier, marker) = history(false);
    assert!(frontier == SequenceNumber::new(3) && marker == SequenceNumber::new(3), "harness: fresh fragments: frontier {:?} marker {:?}", frontier, marker);
  }

  #[test]
  fn xc_lifespan_expired_fragmented_sample_is_skipped() {
    let (frontier, marker) = history(true);
    assert!(
      frontier == SequenceNumber::new(3) && marker == SequenceNumber::new(3),
      "XC-WITNESS label=frag.glue.expired.skip history: RELIABLE reader with Lifespan 1 s; sample #1 arrives as 2 DATAFRAGs behind a 10 s old INFO_TS, twice (original and repair); sample #2 arrives as fresh DATA: the reader's hand-over bound for the writer is {:?} (topic cache marker {:?}), expected 3 - the expired sample is neither delivered nor skipped, #2 is held back behind it for ever",
      frontier, marker
    );
  }
}
