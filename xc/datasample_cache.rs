//@ append: src/dds/with_key/datasample_cache.rs
// Executable contract of DataSampleCache (C08) — bounded stand-in for the history-dependent part
// that no deductive unit reaches: add_sample (instance state machine, generation counting,
// KeepLast eviction), select_keys_for_access / select_instance_keys_for_access /
// sort_by_sequence_number, read_by_keys / take_by_keys / read_bare_by_keys / take_bare_by_keys
// (incl. record_instance_generation_viewed / mark_instances_viewed).
// Needs xc/readcondition_masks.rs (constructor for arbitrary mask triples) in the same overlay.
//
// Oracle = an independent model of DDS 1.4 section 2.2.2.5.1, written from the property statement:
//   per instance: instance_state (ALIVE on a value, NOT_ALIVE_DISPOSED on a dispose; the cache has no
//     input that produces NOT_ALIVE_NO_WRITERS), disposed_generation_count incremented on the
//     NOT_ALIVE_DISPOSED -> ALIVE transition only, counts start at 0 for a never-seen instance;
//     view_state NEW until a read/take has returned a sample of the instance's newest generation
//     (the newest generation accessed never decreases), NEW again after a rebirth;
//   per sample: snapshot of the counts at reception; sample_state NOT_READ until returned by a read;
//   ranks by the formulas of 2.2.2.5.1.6: sample_rank = number of samples OF THE SAME INSTANCE that
//     follow in the returned collection, generation_rank relative to the most recently received
//     sample of the same instance in the collection (MRSIC), absolute_generation_rank relative to
//     the most recent sample of the instance that was received (MRS);
//   take removes exactly what it returns and nothing is ever returned twice by take; read removes
//     nothing; an add never touches another instance;
//   KeepLast(depth): after an add never more than depth samples of the instance are available, the
//     depth most recently received ones are (unless taken), nothing taken or evicted comes back.
//     Whether an older, still untaken sample may stay while fewer than depth are available is not
//     fixed by the property; there the model follows the cache. (The cache evicts it: take_by_keys
//     leaves the timestamps of taken samples in InstanceMetaData::instance_samples, so taken samples
//     keep counting against depth — e.g. KeepLast(2): value(k1,w2), value(k1,w1), take(not_read,max=1),
//     value(k1,w1) leaves 1 sample available, not 2. Recorded as an observation, not asserted.)
//   A read condition selects exactly the samples whose sample state, view state and instance state
//     are in the masks; within a result the samples of one writer are in ascending sequence-number
//     order (nothing else is required of the order, so for a truncated access (max_samples = 1) the
//     model follows the sample the cache chose, after checking that it is a matching one and the
//     lowest matching sequence number of its writer).
//   View state is compared on the most recent available sample of each instance only (property
//   statement); for selection by view-state mask the model uses, for older samples, the cache's
//   per-generation refinement (a sample is NEW iff its generation is newer than the newest
//   generation accessed), which coincides with the DDS instance view state on the most recent sample.
//
// Bound: 2 instances (keys 1, 2), 2 writers (w1 numbers its samples 1,2,3.. in order of reception,
//   w2 is received in reverse order 9,8,7.. so that per-writer sorting is exercised), receive
//   timestamps strictly increasing in order of reception, History in {KeepLast(1), KeepLast(2),
//   KeepAll}; EVERY operation sequence (breadth first, so witnesses are shortest)
//   - core, length <= 5 over 14 operations {value(k,w) x4, dispose(k1 by w1), dispose(k2 by w2),
//     read/take x any/not_read, read(any,max 1), take(not_read,max 1), read_instance(k1,not_read),
//     take_instance(k1,any)};
//   - masks, length <= 4 over 34 operations: the 6 adds, read/take x 8 mask triples (any, not_read,
//     READ, NEW, NOT_NEW, ALIVE, NOT_ALIVE_DISPOSED, NOT_READ+NEW+ALIVE), read_instance/take_instance
//     x {k1,k2} x {any, not_read}, read/take with max_samples 1 x {any, not_read};
//   - bare, length <= 5 over 12 operations: the 6 adds, read_bare/take_bare x any/not_read (the
//     variants behind the iterators), read(any), take(any).
//   After every operation the set of available samples is compared, after every read/take the exact
//   set of returned samples (identity = writer + sequence number), payload, order and the SampleInfo.
//   Each (History, alphabet) pair is enumerated once per process; the tests report disjoint label sets
//   (xc_cache_core_* / masks_* / bare_*: everything but view state and ranks; xc_cache_view_state; the
//   three rank tests are #[ignore]d, see there).
// Found with this contract: F13 (mark_instances_viewed overwrote last_generation_accessed with a lower
//   generation: dispose(k1), value(k1), read(any), read(any,max=1), read(any) reported NEW again).
#[cfg(test)]
mod verif_xc_datasample_cache {
  use std::{
    collections::{BTreeMap, BTreeSet},
    fmt,
    sync::OnceLock,
  };

  use super::*;
  use crate::{
    dds::readcondition::verif_xc_readcondition_masks::from_bits,
    structure::guid::{EntityId, EntityKind, GuidPrefix},
    test::random_data::RandomData,
  };

  const SS_READ: u32 = 0b01;
  const SS_NOT_READ: u32 = 0b10;
  const VS_NEW: u32 = 0b01;
  const VS_NOT_NEW: u32 = 0b10;
  const IS_ALIVE: u32 = 0b001;
  const IS_DISPOSED: u32 = 0b010;
  const ALL: usize = usize::MAX;

  type Id = (usize, i64); // (writer index 0/1, sequence number)

  #[derive(Clone, Copy, PartialEq, Eq)]
  struct Cond {
    ss: u32,
    vs: u32,
    is: u32,
  }
  const ANY: Cond = Cond { ss: 3, vs: 3, is: 7 };
  const NOT_READ: Cond = Cond { ss: SS_NOT_READ, vs: 3, is: 7 };

  impl fmt::Debug for Cond {
    fn fmt(&self, f: &mut fmt::Formatter<'_>) -> fmt::Result {
      if *self == ANY {
        return write!(f, "any");
      }
      if *self == NOT_READ {
        return write!(f, "not_read");
      }
      let ss = ["-", "READ", "NOT_READ", "*"][self.ss as usize];
      let vs = ["-", "NEW", "NOT_NEW", "*"][self.vs as usize];
      let is = ["-", "ALIVE", "DISPOSED", "ALIVE|DISPOSED", "NO_WRITERS", "ALIVE|NO_WRITERS", "NOT_ALIVE", "*"][self.is as usize];
      write!(f, "sample={} view={} instance={}", ss, vs, is)
    }
  }

  #[derive(Clone, Copy, PartialEq, Eq)]
  enum Op {
    Val { key: i64, w: usize },
    Dis { key: i64, w: usize },
    // bare = the variant without SampleInfo behind DataReader::iterator() / into_iterator()
    Acc { take: bool, bare: bool, inst: Option<i64>, cond: Cond, max: usize },
  }

  impl fmt::Debug for Op {
    fn fmt(&self, f: &mut fmt::Formatter<'_>) -> fmt::Result {
      match self {
        Op::Val { key, w } => write!(f, "value(k{},w{})", key, w + 1),
        Op::Dis { key, w } => write!(f, "dispose(k{},w{})", key, w + 1),
        Op::Acc { take, bare, inst, cond, max } => {
          write!(f, "{}{}", if *take { "take" } else { "read" }, if *bare { "_bare" } else { "" })?;
          if let Some(k) = inst {
            write!(f, "_instance(k{},{:?}", k, cond)?;
          } else {
            write!(f, "({:?}", cond)?;
          }
          if *max != ALL {
            write!(f, ",max={}", max)?;
          }
          write!(f, ")")
        }
      }
    }
  }

  // ---------------------------------------------------------------- the real cache

  fn guid(w: usize) -> GUID {
    let n = w as u8 + 1;
    GUID {
      prefix: GuidPrefix::new(&[n; 12]),
      entity_id: EntityId::create_custom_entity_id([n; 3], EntityKind::WRITER_WITH_KEY_USER_DEFINED),
    }
  }
  fn ts(recv: usize) -> Timestamp {
    Timestamp::from_ticks(1_000_000 + recv as u64)
  }
  fn recv_of(t: Timestamp) -> usize {
    (t.to_ticks() - 1_000_000) as usize
  }
  fn label(id: Id) -> String {
    format!("w{}#{}", id.0 + 1, id.1)
  }
  fn names<'a>(ids: impl IntoIterator<Item = &'a Id>) -> String {
    format!("[{}]", ids.into_iter().map(|id| label(*id)).collect::<Vec<_>>().join(", "))
  }
  // w1: 1,2,3..  (in order);  w2: 9,8,7.. (every later reception is an earlier sequence number)
  fn sn_for(w: usize, nth: i64) -> i64 {
    if w == 0 {
      1 + nth
    } else {
      9 - nth
    }
  }

  struct Real {
    cache: DataSampleCache<RandomData>,
    recv: usize,
    adds_of: [i64; 2],
  }

  #[derive(Debug)]
  struct Got {
    id: Option<Id>, // None: a dispose returned by a bare access (it carries only the key)
    key: i64,
    payload: Option<(i64, String)>, // Some((a, b)) for a value, None for a dispose
    info: Option<SampleInfo>,       // None for a bare access
  }

  fn got_of(info: Option<&SampleInfo>, v: Sample<&RandomData, &i64>) -> Got {
    let (key, payload) = match v {
      Sample::Value(d) => (d.key(), Some((d.a, d.b.clone()))),
      Sample::Dispose(k) => (*k, None),
    };
    let id = match info {
      Some(info) => {
        let w = if info.publication_handle() == guid(0) {
          0
        } else if info.publication_handle() == guid(1) {
          1
        } else {
          99
        };
        Some((w, i64::from(info.sequence_number)))
      }
      // bare value: identified by its payload (b is unique per sample)
      None => payload.as_ref().and_then(|(_a, b)| {
        (0..2).flat_map(|w| (1..10).map(move |sn| (w, sn))).find(|id| label(*id) == *b)
      }),
    };
    Got { id, key, payload, info: info.cloned() }
  }

  fn reref<'a>(v: &'a Sample<&'a RandomData, i64>) -> Sample<&'a RandomData, &'a i64> {
    match v {
      Sample::Value(d) => Sample::Value(*d),
      Sample::Dispose(k) => Sample::Dispose(k),
    }
  }

  impl Real {
    fn new(h: policy::History) -> Self {
      let mut qos = QosPolicies::qos_none();
      qos.history = Some(h);
      Real { cache: DataSampleCache::new(qos), recv: 0, adds_of: [0, 0] }
    }

    fn available(&self) -> BTreeSet<usize> {
      self.cache.select_keys_for_access(ReadCondition::any()).into_iter().map(|(t, _k)| recv_of(t)).collect()
    }

    fn apply(&mut self, op: Op) -> Option<Vec<Got>> {
      match op {
        Op::Val { key, w } | Op::Dis { key, w } => {
          let id = (w, sn_for(w, self.adds_of[w]));
          self.adds_of[w] += 1;
          let sample = if matches!(op, Op::Val { .. }) {
            Sample::Value(RandomData { a: key, b: label(id) })
          } else {
            Sample::Dispose(key)
          };
          self.cache.fill_from_deserialized_cache_change(DeserializedCacheChange {
            receive_instant: ts(self.recv),
            writer_guid: guid(w),
            sequence_number: SequenceNumber::from(id.1),
            write_options: WriteOptions::default(),
            sample,
          });
          self.recv += 1;
          None
        }
        Op::Acc { take, bare, inst, cond, max } => {
          let rc = if cond == ANY {
            ReadCondition::any()
          } else if cond == NOT_READ {
            ReadCondition::not_read()
          } else {
            from_bits(cond.ss, cond.vs, cond.is)
          };
          // exactly what DataReader::{read, take, read_instance, take_instance, read_bare, take_bare} do
          let mut keys = match inst {
            None => self.cache.select_keys_for_access(rc),
            Some(k) => self.cache.select_instance_keys_for_access(&k, rc),
          };
          keys.truncate(max);
          Some(match (take, bare) {
            (true, false) => self.cache.take_by_keys(&keys).iter().map(|ds| got_of(Some(ds.sample_info()), ds.value().as_ref())).collect(),
            (false, false) => self.cache.read_by_keys(&keys).iter().map(|ds| got_of(Some(ds.sample_info()), reref(ds.value()))).collect(),
            (true, true) => self.cache.take_bare_by_keys(&keys).iter().map(|s| got_of(None, s.as_ref())).collect(),
            (false, true) => self.cache.read_bare_by_keys(&keys).iter().map(|s| got_of(None, reref(s))).collect(),
          })
        }
      }
    }
  }

  // ---------------------------------------------------------------- the model (DDS 1.4 2.2.2.5.1)

  #[derive(Clone, Debug)]
  struct MSample {
    id: Id,
    key: i64,
    value: bool,
    recv: usize,
    dgc: i32,
    nwgc: i32,
    read: bool,
  }
  impl MSample {
    fn total(&self) -> i32 {
      self.dgc + self.nwgc
    }
  }

  #[derive(Clone, Debug)]
  struct MInst {
    alive: bool, // else NOT_ALIVE_DISPOSED
    dgc: i32,
    nwgc: i32,
    viewed: Option<i32>,  // newest generation a read/take has returned a sample of
    received: Vec<usize>, // every sample ever received for the instance, by order of reception
  }
  impl MInst {
    fn total(&self) -> i32 {
      self.dgc + self.nwgc
    }
    fn is_new(&self) -> bool {
      self.viewed.map_or(true, |v| self.total() > v)
    }
  }

  #[derive(Clone)]
  struct Model {
    depth: Option<usize>,
    avail: Vec<MSample>, // in order of reception
    inst: BTreeMap<i64, MInst>,
    taken: BTreeSet<Id>,
    taken_recv: BTreeSet<usize>,
    n_recv: usize,
    adds_of: [i64; 2],
  }

  type Diffs = Vec<(&'static str, String)>;

  impl Model {
    fn new(h: policy::History) -> Self {
      let depth = match h {
        policy::History::KeepAll => None,
        policy::History::KeepLast { depth } => Some(depth as usize),
      };
      Model { depth, avail: vec![], inst: BTreeMap::new(), taken: BTreeSet::new(), taken_recv: BTreeSet::new(), n_recv: 0, adds_of: [0, 0] }
    }

    // Reception of a sample. `real` = what the cache offers afterwards. Checks the History clause
    // and follows the cache where the property leaves a choice.
    fn add(&mut self, key: i64, w: usize, value: bool, real: &BTreeSet<usize>, d: &mut Diffs) -> bool {
      let id = (w, sn_for(w, self.adds_of[w]));
      self.adds_of[w] += 1;
      let recv = self.n_recv;
      self.n_recv += 1;
      let i = self
        .inst
        .entry(key)
        .and_modify(|i| {
          if !i.alive && value {
            i.dgc += 1; // NOT_ALIVE_DISPOSED -> ALIVE
          }
          i.alive = value;
        })
        // never-seen instance: counts start at zero, the instance is NEW
        .or_insert(MInst { alive: value, dgc: 0, nwgc: 0, viewed: None, received: vec![] });
      i.received.push(recv);
      let (dgc, nwgc) = (i.dgc, i.nwgc); // snapshot at reception
      self.avail.push(MSample { id, key, value, recv, dgc, nwgc, read: false });

      let before_k: BTreeSet<usize> = self.avail.iter().filter(|s| s.key == key).map(|s| s.recv).collect();
      let before_other: BTreeSet<usize> = self.avail.iter().filter(|s| s.key != key).map(|s| s.recv).collect();
      let real_k: BTreeSet<usize> = real.difference(&before_other).copied().collect();
      let real_other: BTreeSet<usize> = real.intersection(&before_other).copied().collect();
      let must: BTreeSet<usize> = {
        let r = &self.inst[&key].received;
        let last = match self.depth {
          Some(dp) => &r[r.len().saturating_sub(dp)..],
          None => &r[..],
        };
        last.iter().copied().filter(|x| !self.taken_recv.contains(x)).collect()
      };
      let mut ok = true;
      if real_other != before_other {
        d.push(("c08.keeplast", format!("receiving a sample of instance k{} changed what is available of the other instance: {:?} -> {:?} (by order of reception, 0-based)", key, before_other, real_other)));
        ok = false;
      }
      if !real_k.is_subset(&before_k) {
        d.push(("c08.keeplast", format!("after the add, samples {:?} of instance k{} are available, but only {:?} were neither taken nor evicted (by order of reception, 0-based)", real_k, key, before_k)));
        ok = false;
      }
      if let Some(dp) = self.depth {
        if real_k.len() > dp {
          d.push(("c08.keeplast", format!("{} samples {:?} of instance k{} remain available with KeepLast({})", real_k.len(), real_k, key, dp)));
          ok = false;
        }
      }
      if !must.is_subset(&real_k) {
        d.push(("c08.keeplast", format!("of instance k{} the samples {:?} are available; the {} most recently received, untaken ones {:?} must be (by order of reception, 0-based)", key, real_k, self.depth.map_or("all".to_string(), |x| x.to_string()), must)));
        ok = false;
      }
      if ok {
        self.avail.retain(|s| real.contains(&s.recv));
      }
      ok
    }

    // view state of a sample for the purpose of selection / reporting (see header)
    fn sample_is_new(&self, s: &MSample) -> bool {
      self.inst[&s.key].viewed.map_or(true, |v| s.total() > v)
    }

    fn matches(&self, s: &MSample, inst: Option<i64>, c: Cond) -> bool {
      let i = &self.inst[&s.key];
      inst.map_or(true, |k| k == s.key)
        && (c.ss & if s.read { SS_READ } else { SS_NOT_READ }) != 0
        && (c.vs & if self.sample_is_new(s) { VS_NEW } else { VS_NOT_NEW }) != 0
        && (c.is & if i.alive { IS_ALIVE } else { IS_DISPOSED }) != 0
    }

    // Compare the result of a read/take with the model and apply it. Returns false if the cache and
    // the model have diverged in a way that makes continuing below this node meaningless.
    fn access(&mut self, take: bool, bare: bool, inst: Option<i64>, cond: Cond, max: usize, got: &[Got], d: &mut Diffs) -> bool {
      let cand: Vec<MSample> = self.avail.iter().filter(|s| self.matches(s, inst, cond)).cloned().collect();
      let cand_ids: BTreeSet<Id> = cand.iter().map(|s| s.id).collect();

      if bare {
        // no SampleInfo: values are identified by payload, disposes only by key -> compare as multisets
        assert!(max == ALL);
        let mut got_desc: Vec<String> = got.iter().map(|g| g.id.map_or(format!("dispose(k{})", g.key), label)).collect();
        let mut want_desc: Vec<String> = cand.iter().map(|s| if s.value { label(s.id) } else { format!("dispose(k{})", s.key) }).collect();
        let order_got: Vec<Id> = got.iter().filter_map(|g| g.id).collect();
        got_desc.sort();
        want_desc.sort();
        if got_desc != want_desc {
          d.push(("c08.select", format!("returned {:?}, the samples matching the condition are {:?}", got_desc, want_desc)));
          return false;
        }
        for g in got {
          if let (Some(id), Some(p)) = (g.id, &g.payload) {
            if *p != (g.key, label(id)) || cand.iter().find(|s| s.id == id).map(|s| s.key) != Some(g.key) {
              d.push(("c08.payload", format!("{} returned with key k{} payload {:?}", label(id), g.key, p)));
            }
          }
        }
        for w in 0..2 {
          let sns: Vec<i64> = order_got.iter().filter(|id| id.0 == w).map(|id| id.1).collect();
          if sns.windows(2).any(|p| p[0] >= p[1]) {
            d.push(("c08.order", format!("values of writer w{} appear in the order {:?} within the result", w + 1, sns)));
          }
        }
        if take {
          if let Some(twice) = cand_ids.iter().find(|id| self.taken.contains(id)) {
            d.push(("c08.take.once", format!("take returned {} which an earlier take had already returned", label(*twice))));
            return false;
          }
        }
        let ids: Vec<Id> = cand.iter().map(|s| s.id).collect();
        self.effect(take, &ids);
        return true;
      }

      let got_ids: Vec<Id> = got.iter().map(|g| g.id.unwrap()).collect();
      let got_set: BTreeSet<Id> = got_ids.iter().copied().collect();
      if got_set.len() != got_ids.len() {
        d.push(("c08.select", format!("a sample appears twice in one result: {}", names(&got_ids))));
        return false;
      }
      if take {
        if let Some(twice) = got_ids.iter().find(|id| self.taken.contains(id)) {
          d.push(("c08.take.once", format!("take returned {} which an earlier take had already returned; result {}", label(*twice), names(&got_ids))));
          return false;
        }
      }
      if max == ALL {
        if got_set != cand_ids {
          d.push(("c08.select", format!("returned {}, the samples matching the condition are {}", names(&got_ids), names(&cand_ids))));
          return false;
        }
      } else {
        if got_ids.len() != std::cmp::min(max, cand.len()) || !got_set.is_subset(&cand_ids) {
          d.push(("c08.select", format!("returned {}, expected {} of the matching samples {}", names(&got_ids), std::cmp::min(max, cand.len()), names(&cand_ids))));
          return false;
        }
        // a truncated result must not skip a lower sequence number of the same writer
        for id in &got_ids {
          if let Some(skipped) = cand_ids.iter().find(|c| c.0 == id.0 && c.1 < id.1 && !got_set.contains(c)) {
            d.push(("c08.order", format!("truncated result {} contains {} but skips the matching lower sequence number {} of the same writer", names(&got_ids), label(*id), label(*skipped))));
          }
        }
      }
      for w in 0..2 {
        let sns: Vec<i64> = got_ids.iter().filter(|id| id.0 == w).map(|id| id.1).collect();
        if sns.windows(2).any(|p| p[0] >= p[1]) {
          d.push(("c08.order", format!("samples of writer w{} appear in the sequence-number order {:?} within the result {}", w + 1, sns, names(&got_ids))));
        }
      }

      // SampleInfo and payload of every returned sample
      for (pos, g) in got.iter().enumerate() {
        let gid = g.id.unwrap();
        let info = g.info.as_ref().unwrap();
        let s = self.avail.iter().find(|s| s.id == gid).unwrap();
        let i = &self.inst[&s.key];
        let what = label(gid);
        let want_payload = if s.value { Some((s.key, label(s.id))) } else { None };
        if g.key != s.key || g.payload != want_payload {
          d.push(("c08.payload", format!("{} was received as {} of instance k{}, returned with key k{} payload {:?}", what, if s.value { "a value" } else { "a dispose" }, s.key, g.key, g.payload)));
        }
        if info.write_options != WriteOptions::default() {
          d.push(("c08.payload", format!("{}: write options changed: {:?}", what, info.write_options)));
        }
        let want_ss = if s.read { SampleState::Read } else { SampleState::NotRead };
        if info.sample_state() != want_ss {
          d.push(("c08.info.sample_state", format!("{} reported {:?}, but it {}", what, info.sample_state(), if s.read { "was returned by a read before" } else { "was never returned by a read" })));
        }
        let want_is = if i.alive { InstanceState::Alive } else { InstanceState::NotAliveDisposed };
        if info.instance_state() != want_is {
          d.push(("c08.info.instance_state", format!("{} (instance k{}) reported {:?}, the instance is {:?}", what, s.key, info.instance_state(), want_is)));
        }
        if (info.disposed_generation_count(), info.no_writers_generation_count()) != (s.dgc, s.nwgc) {
          d.push(("c08.info.generation_counts", format!("{} (instance k{}) reported disposed/no_writers generation counts {}/{}, at its reception they were {}/{}", what, s.key, info.disposed_generation_count(), info.no_writers_generation_count(), s.dgc, s.nwgc)));
        }
        // view state: compared on the most recent available sample of the instance
        let most_recent = self.avail.iter().filter(|x| x.key == s.key).map(|x| x.recv).max().unwrap();
        if s.recv == most_recent {
          let want_vs = if i.is_new() { ViewState::New } else { ViewState::NotNew };
          if info.view_state() != want_vs {
            d.push(("c08.info.view_state", format!("{} (most recent sample of instance k{}, generation {}) reported {:?}; newest generation returned by an earlier read/take: {:?}, so the instance is {:?}", what, s.key, i.total(), info.view_state(), i.viewed, want_vs)));
          }
        }
        // ranks (2.2.2.5.1.6)
        let want_rank = got[pos + 1..].iter().filter(|x| x.key == s.key).count() as i32;
        if info.sample_rank() != want_rank {
          d.push(("c08.info.sample_rank", format!("{} reported sample_rank {}, but {} samples of instance k{} follow it in the result {}", what, info.sample_rank(), want_rank, s.key, names(&got_ids))));
        }
        let mrsic = self.avail.iter().filter(|x| x.key == s.key && got_set.contains(&x.id)).max_by_key(|x| x.recv).unwrap();
        if info.generation_rank() != mrsic.total() - s.total() {
          d.push(("c08.info.generation_rank", format!("{} (generation {}) reported generation_rank {}; the most recent sample of instance k{} in the result {} is {} of generation {}, so it is {}", what, s.total(), info.generation_rank(), s.key, names(&got_ids), label(mrsic.id), mrsic.total(), mrsic.total() - s.total())));
        }
        if info.absolute_generation_rank() != i.total() - s.total() {
          d.push(("c08.info.absolute_generation_rank", format!("{} (generation {}) reported absolute_generation_rank {}; the most recent sample received for instance k{} is of generation {}, so it is {}", what, s.total(), info.absolute_generation_rank(), s.key, i.total(), i.total() - s.total())));
        }
      }
      self.effect(take, &got_ids);
      true
    }

    fn effect(&mut self, take: bool, ids: &[Id]) {
      for id in ids {
        let p = self.avail.iter().position(|s| s.id == *id).unwrap();
        let (key, total) = (self.avail[p].key, self.avail[p].total());
        let i = self.inst.get_mut(&key).unwrap();
        i.viewed = Some(i.viewed.map_or(total, |v| std::cmp::max(v, total)));
        if take {
          self.taken_recv.insert(self.avail[p].recv);
          self.avail.remove(p);
          self.taken.insert(*id);
        } else {
          self.avail[p].read = true;
        }
      }
    }

    fn check_available_after_access(&self, real: &BTreeSet<usize>, take: bool, d: &mut Diffs) -> bool {
      let want: BTreeSet<usize> = self.avail.iter().map(|s| s.recv).collect();
      if *real == want {
        return true;
      }
      let lbl = if take { "c08.take.removes" } else { "c08.read.keeps" };
      d.push((lbl, format!("available afterwards (by order of reception, 0-based): {:?}, expected {:?}", real, want)));
      false
    }
  }

  // ---------------------------------------------------------------- enumeration

  fn adds() -> Vec<Op> {
    vec![
      Op::Val { key: 1, w: 0 },
      Op::Val { key: 1, w: 1 },
      Op::Val { key: 2, w: 0 },
      Op::Val { key: 2, w: 1 },
      Op::Dis { key: 1, w: 0 },
      Op::Dis { key: 2, w: 1 },
    ]
  }

  fn acc(take: bool, inst: Option<i64>, cond: Cond, max: usize) -> Op {
    Op::Acc { take, bare: false, inst, cond, max }
  }

  fn core_ops() -> Vec<Op> {
    let mut v = adds();
    for take in [false, true] {
      for cond in [ANY, NOT_READ] {
        v.push(acc(take, None, cond, ALL));
      }
    }
    v.push(acc(false, None, ANY, 1));
    v.push(acc(true, None, NOT_READ, 1));
    v.push(acc(false, Some(1), NOT_READ, ALL));
    v.push(acc(true, Some(1), ANY, ALL));
    v
  }

  fn mask_ops() -> Vec<Op> {
    let mut v = adds();
    let conds = [
      ANY,
      NOT_READ,
      Cond { ss: SS_READ, vs: 3, is: 7 },
      Cond { ss: 3, vs: VS_NEW, is: 7 },
      Cond { ss: 3, vs: VS_NOT_NEW, is: 7 },
      Cond { ss: 3, vs: 3, is: IS_ALIVE },
      Cond { ss: 3, vs: 3, is: IS_DISPOSED },
      Cond { ss: SS_NOT_READ, vs: VS_NEW, is: IS_ALIVE },
    ];
    for take in [false, true] {
      for cond in conds {
        v.push(acc(take, None, cond, ALL));
      }
      for k in [1, 2] {
        for cond in [ANY, NOT_READ] {
          v.push(acc(take, Some(k), cond, ALL));
        }
      }
      for cond in [ANY, NOT_READ] {
        v.push(acc(take, None, cond, 1));
      }
    }
    v
  }

  fn bare_ops() -> Vec<Op> {
    let mut v = adds();
    for take in [false, true] {
      for cond in [ANY, NOT_READ] {
        v.push(Op::Acc { take, bare: true, inst: None, cond, max: ALL });
      }
      v.push(acc(take, None, ANY, ALL));
    }
    v
  }

  fn hist_name(h: policy::History) -> String {
    match h {
      policy::History::KeepAll => "KeepAll".to_string(),
      policy::History::KeepLast { depth } => format!("KeepLast({})", depth),
    }
  }

  struct Outcome {
    witnesses: BTreeMap<&'static str, String>, // first (= a shortest) witness per label
    n: u64,
    n_nonempty: u64,
  }

  // Breadth-first over all operation sequences of length <= max_len.
  fn explore(h: policy::History, ops: &[Op], max_len: usize) -> Outcome {
    let mut witnesses: BTreeMap<&'static str, String> = BTreeMap::new();
    let mut frontier: Vec<(Vec<Op>, Model)> = vec![(vec![], Model::new(h))];
    let (mut n, mut n_nonempty) = (0u64, 0u64);
    for len in 1..=max_len {
      let mut next: Vec<(Vec<Op>, Model)> = vec![];
      for (prefix, model) in &frontier {
        for &op in ops {
          n += 1;
          let mut real = Real::new(h);
          for &p in prefix {
            real.apply(p);
          }
          let got = real.apply(op);
          let avail = real.available();
          let mut m = model.clone();
          let mut diffs: Diffs = vec![];
          let ok = match op {
            Op::Val { key, w } => m.add(key, w, true, &avail, &mut diffs),
            Op::Dis { key, w } => m.add(key, w, false, &avail, &mut diffs),
            Op::Acc { take, bare, inst, cond, max } => {
              let got = got.unwrap();
              if !got.is_empty() {
                n_nonempty += 1;
              }
              m.access(take, bare, inst, cond, max, &got, &mut diffs) && m.check_available_after_access(&avail, take, &mut diffs)
            }
          };
          assert!(real.recv == m.n_recv && real.adds_of == m.adds_of);
          for (lbl, msg) in diffs {
            witnesses.entry(lbl).or_insert_with(|| {
              let mut t = prefix.clone();
              t.push(op);
              format!("XC-WITNESS label={} history={} ops={:?}: {}", lbl, hist_name(h), t, msg)
            });
          }
          // ok == false: the sets of samples have diverged, nothing below this node is meaningful
          if ok && len < max_len {
            let mut t = prefix.clone();
            t.push(op);
            next.push((t, m));
          }
        }
      }
      frontier = next;
    }
    Outcome { witnesses, n, n_nonempty }
  }

  const HISTS: [policy::History; 3] = [policy::History::KeepLast { depth: 1 }, policy::History::KeepLast { depth: 2 }, policy::History::KeepAll];
  const CORE: usize = 0;
  const MASKS: usize = 1;
  const BARE: usize = 2;

  // each (alphabet, History) pair is enumerated once per test process
  fn outcome(alphabet: usize, hist: usize) -> &'static Outcome {
    static CELLS: [[OnceLock<Outcome>; 3]; 3] = [const { [const { OnceLock::new() }; 3] }; 3];
    CELLS[alphabet][hist].get_or_init(|| match alphabet {
      CORE => explore(HISTS[hist], &core_ops(), 5),
      MASKS => explore(HISTS[hist], &mask_ops(), 4),
      _ => explore(HISTS[hist], &bare_ops(), 5),
    })
  }

  fn decide(cells: &[(usize, usize)], wanted: &dyn Fn(&str) -> bool) {
    let mut lines: Vec<String> = vec![];
    let mut seen: BTreeSet<&'static str> = BTreeSet::new();
    for &(a, h) in cells {
      let o = outcome(a, h);
      // (a divergence of the sets of samples prunes the tree below it; it is reported by the test
      // that decides its label, so the guard applies to complete enumerations only)
      if o.witnesses.is_empty() {
        let min = [500_000, 1_000_000, 200_000][a];
        assert!(o.n >= min, "vacuity guard: only {} operation sequences enumerated", o.n);
        assert!(o.n_nonempty * 10 >= o.n, "vacuity guard: only {} of {} sequences end in a non-empty read/take", o.n_nonempty, o.n);
      }
      for (lbl, w) in &o.witnesses {
        if wanted(lbl) && seen.insert(lbl) {
          lines.push(w.clone());
        }
      }
    }
    if !lines.is_empty() {
      panic!("{}", lines.join("\n"));
    }
  }

  fn is_rank(l: &str) -> bool {
    l.ends_with("_rank")
  }
  fn is_view(l: &str) -> bool {
    l == "c08.info.view_state"
  }
  // take at most once / removes, read keeps and marks, instance state, generation counts, selection,
  // per-writer order, KeepLast, payload
  fn is_core(l: &str) -> bool {
    !is_rank(l) && !is_view(l)
  }
  const EVERY_CELL: [(usize, usize); 9] = [(CORE, 0), (CORE, 1), (CORE, 2), (MASKS, 0), (MASKS, 1), (MASKS, 2), (BARE, 0), (BARE, 1), (BARE, 2)];

  #[test]
  fn xc_cache_core_len5_keeplast1() {
    decide(&[(CORE, 0)], &is_core);
  }
  #[test]
  fn xc_cache_core_len5_keeplast2() {
    decide(&[(CORE, 1)], &is_core);
  }
  #[test]
  fn xc_cache_core_len5_keepall() {
    decide(&[(CORE, 2)], &is_core);
  }
  #[test]
  fn xc_cache_masks_len4_keeplast1() {
    decide(&[(MASKS, 0)], &is_core);
  }
  #[test]
  fn xc_cache_masks_len4_keeplast2() {
    decide(&[(MASKS, 1)], &is_core);
  }
  #[test]
  fn xc_cache_masks_len4_keepall() {
    decide(&[(MASKS, 2)], &is_core);
  }
  #[test]
  fn xc_cache_bare_len5() {
    decide(&[(BARE, 0), (BARE, 1), (BARE, 2)], &is_core);
  }
  #[test]
  fn xc_cache_view_state() {
    decide(&EVERY_CELL, &is_view);
  }
  // DDS 1.4 deviations observed, outside the C08 statement as given (it names sample state, view
  // state, instance state and the generation counts, not the ranks): never run under ./check; run
  // by hand with `cargo test --lib verif_xc_datasample_cache -- --ignored`. On the pinned tree:
  //  sample_rank counts the samples that follow in the WHOLE result, not those of the same instance
  //    (value(k1,w1), value(k2,w1), read(any): w1#1 reports 1, 2.2.2.5.1.6 says 0);
  //  generation_rank is relative to the newest generation of the instance of the LAST sample of the
  //    result, not to the MRSIC of the sample's own instance (KeepLast(1): value(k1,w1),
  //    dispose(k2,w2), value(k2,w1), read(any): w1#1 reports 1, not 0; one instance: dispose(k1),
  //    read(any), value(k1), take(not_read), read(any): the dispose reports 1, not 0);
  //  absolute_generation_rank is relative to the newest sample still in the cache, of ANY instance,
  //    not to the most recent sample received for the sample's instance (same two sequences: 1 not 0,
  //    0 not 1).
  #[test]
  #[ignore = "DDS 1.4 deviation observed, outside the C08 statement as given"]
  fn xc_cache_sample_rank() {
    decide(&EVERY_CELL, &|l| l == "c08.info.sample_rank");
  }
  #[test]
  #[ignore = "DDS 1.4 deviation observed, outside the C08 statement as given"]
  fn xc_cache_generation_rank() {
    decide(&EVERY_CELL, &|l| l == "c08.info.generation_rank");
  }
  #[test]
  #[ignore = "DDS 1.4 deviation observed, outside the C08 statement as given"]
  fn xc_cache_absolute_generation_rank() {
    decide(&EVERY_CELL, &|l| l == "c08.info.absolute_generation_rank");
  }
}
