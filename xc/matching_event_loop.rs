//@ append: src/rtps/dp_event_loop.rs
// Executable contract of the discovery fan-out in DPEventLoop (C11) — bounded STAND-IN for code no
// deductive unit reaches: remote_writer_discovered / remote_writer_lost / remote_reader_discovered /
// remote_reader_lost / remote_participant_lost over ALL local endpoints, incl. the topic comparison.
// Oracle (written from the property statement, not from the code):
//   announced = set of remote endpoints announced and neither disposed nor lost with their participant;
//   matched(L) = { r in announced | r is of the opposite kind, on L's topic, RxO-compatible with L }
//   (RxO for the two policies used here, DDS 2.2.3: offered >= requested, BEST_EFFORT < RELIABLE,
//   VOLATILE < TRANSIENT_LOCAL);  after EVERY event and for EVERY local endpoint L:
//   * the real match set of L equals matched(L),
//   * the status channel of L received exactly one Subscription/PublicationMatched event per endpoint
//     that entered or left matched(L) (current.count = size of the set at that point, change +1/-1;
//     total.count = number of matches ever made, change +1/0, never decreasing), exactly one
//     Requested/OfferedIncompatibleQos event (own QoS, remote QoS, a really violated policy, counter
//     +1) and NO match event for an incompatible announce on L's topic, and nothing otherwise.
// Bound: a real DPEventLoop with 3 local readers + 3 local writers (2 readers + 2 writers on topic T1
//   — so that every remote endpoint on T1 can be matched by TWO local endpoints at once —,
//   1 reader + 1 writer on T2, different QoS) and 2 participants x (writer T1, writer T2, reader T1);
//   2 QoS assignments (mixed compatible/incompatible; all compatible), fixed per endpoint;
//   alphabet = 16 events (4 writer announces, 4 writer disposes, 2 reader announces, 2 reader
//   disposes, 2 participant losses x {participant gone from the DiscoveryDB, participant ALREADY BACK
//   in the DiscoveryDB (re-announced by SPDP before the event loop handled the loss; its endpoints not
//   re-announced)}); the harness plays Discovery on the real DiscoveryDB the event loop reads
//   (update_participant before an announce, remove_participant [+ update_participant] before a loss);
//   (1) every event sequence of length <= 3 on a FRESH event loop, followed by disposing every remote
//       endpoint one by one (reveals stale matches);
//   (2) every event sequence of length 4 in long histories (one event loop per QoS assignment and half
//       of the alphabet for the first event),
//       the sequences separated by a reset made of alphabet events (alternately participant losses
//       and single disposes) after which all match sets are empty again.
// Observation: Reader::contains_writer for readers (remote entity ids are pairwise distinct);
//   Writer::local_readers for writers — participant 0 carries the local participant's own GUID prefix
//   (endpoints of the own participant are discovered through the same path), participant 1 is foreign;
//   a foreign reader's membership is observed through the event counts and the dispose events.
#[cfg(test)]
mod verif_xc_matching_event_loop {
  use std::{any::Any, collections::BTreeSet, fmt, sync::Mutex};

  use mio_extras::channel as mio_channel;

  use super::*;
  use crate::{
    dds::{
      qos::{
        policy::{Durability, Reliability},
        QosPolicies, QosPolicyId,
      },
      statusevents::{
        sync_status_channel, DataReaderStatus, DataWriterStatus, StatusChannelReceiver,
      },
      typedesc::TypeDesc,
      with_key::simpledatareader::ReaderCommand,
    },
    discovery::{
      sedp_messages::{
        PublicationBuiltinTopicData, ReaderProxy, SubscriptionBuiltinTopicData, WriterProxy,
      },
      SpdpDiscoveredParticipantData,
    },
    mio_source,
    rtps::writer::WriterCommand,
    structure::guid::EntityKind,
  };

  const T1: &str = "xc_topic_1";
  const T2: &str = "xc_topic_2";
  const TYPE: &str = "xc_type";

  // ---------------------------------------------------------------- static scenario
  #[derive(Clone, Copy, Debug, PartialEq, Eq)]
  struct Q {
    reliable: bool,
    transient_local: bool,
  }
  const fn q(reliable: bool, transient_local: bool) -> Q {
    Q { reliable, transient_local }
  }
  fn qos(q: Q) -> QosPolicies {
    QosPolicies::builder()
      .reliability(if q.reliable {
        Reliability::Reliable { max_blocking_time: crate::Duration::from_millis(100) }
      } else {
        Reliability::BestEffort
      })
      .durability(if q.transient_local { Durability::TransientLocal } else { Durability::Volatile })
      .build()
  }
  // ORACLE for request/offered compatibility (DDS 2.2.3 table): the violated policies
  fn rxo_violations(offered: Q, requested: Q) -> Vec<QosPolicyId> {
    let mut v = vec![];
    if requested.transient_local && !offered.transient_local { v.push(QosPolicyId::Durability); }
    if requested.reliable && !offered.reliable { v.push(QosPolicyId::Reliability); }
    v
  }

  struct Local {
    name: &'static str,
    is_reader: bool,
    topic: &'static str,
    q: Q,
    key: u8,
  }
  const NL: usize = 6;
  const LOCALS: [Local; NL] = [
    Local { name: "LR0(T1,best-effort,volatile)", is_reader: true, topic: T1, q: q(false, false), key: 1 },
    Local { name: "LR1(T1,reliable,volatile)", is_reader: true, topic: T1, q: q(true, false), key: 2 },
    Local { name: "LR2(T2,reliable,transient-local)", is_reader: true, topic: T2, q: q(true, true), key: 3 },
    Local { name: "LW0(T1,reliable,volatile)", is_reader: false, topic: T1, q: q(true, false), key: 4 },
    Local { name: "LW1(T2,reliable,transient-local)", is_reader: false, topic: T2, q: q(true, true), key: 5 },
    Local { name: "LW2(T1,reliable,transient-local)", is_reader: false, topic: T1, q: q(true, true), key: 6 },
  ];
  struct Remote {
    name: &'static str,
    participant: usize,
    is_reader: bool,
    topic: &'static str,
    key: u8,
  }
  const REMOTES: [Remote; 6] = [
    Remote { name: "P0.w1", participant: 0, is_reader: false, topic: T1, key: 0x11 },
    Remote { name: "P0.w2", participant: 0, is_reader: false, topic: T2, key: 0x12 },
    Remote { name: "P0.r1", participant: 0, is_reader: true, topic: T1, key: 0x13 },
    Remote { name: "P1.w1", participant: 1, is_reader: false, topic: T1, key: 0x21 },
    Remote { name: "P1.w2", participant: 1, is_reader: false, topic: T2, key: 0x22 },
    Remote { name: "P1.r1", participant: 1, is_reader: true, topic: T1, key: 0x23 },
  ];
  // QoS of the remote endpoints ("keeps the QoS it was announced with": fixed per assignment)
  type Cfg = [Q; 6];
  const CFGS: [Cfg; 2] = [
    // mixed: P0.w1 ok for LR0+LR1; P0.w2 volatile -> LR2 refuses (durability); P0.r1 ok for LW0;
    //        P1.w1 best-effort -> ok for LR0, refused by LR1 (reliability); P1.w2 ok for LR2;
    //        P1.r1 wants transient-local -> LW0 (volatile) is refused (durability), LW2 is fine
    [q(true, false), q(true, false), q(true, false), q(false, true), q(true, true), q(true, true)],
    // everything compatible with everything
    [q(true, true), q(true, true), q(false, false), q(true, true), q(true, true), q(false, false)],
  ];

  fn prefix(p: usize) -> GuidPrefix {
    GuidPrefix::new(if p == 0 { b"xcParticip_0" } else { b"xcParticip_1" })
  }
  fn eid(key: u8, is_reader: bool) -> EntityId {
    EntityId::new(
      [0, 0, key],
      if is_reader { EntityKind::READER_NO_KEY_USER_DEFINED } else { EntityKind::WRITER_NO_KEY_USER_DEFINED },
    )
  }
  fn rguid(r: usize) -> GUID {
    GUID::new(prefix(REMOTES[r].participant), eid(REMOTES[r].key, REMOTES[r].is_reader))
  }
  fn lguid(l: usize) -> GUID {
    GUID::new(prefix(0), eid(LOCALS[l].key, LOCALS[l].is_reader))
  }
  fn rname(g: GUID) -> String {
    (0..REMOTES.len()).find(|&r| rguid(r) == g).map_or(format!("{g:?}"), |r| REMOTES[r].name.to_string())
  }

  #[derive(Clone, Copy, PartialEq, Eq)]
  enum Ev {
    Announce(usize), // remote_writer_discovered / remote_reader_discovered
    Dispose(usize),  // remote_writer_lost / remote_reader_lost
    // remote_participant_lost(p); bool = what the DiscoveryDB says about p when the event loop gets to
    // the notification: false = p is gone (Discovery removed it), true = p is ALREADY BACK (Discovery
    // handled 'p lost' and a new SPDP announcement of p before the event loop drained its queue; the
    // endpoints of p have not been announced again)
    PLost(usize, bool),
  }
  impl fmt::Debug for Ev {
    fn fmt(&self, f: &mut fmt::Formatter<'_>) -> fmt::Result {
      match *self {
        Ev::Announce(r) => write!(f, "remote_{}_discovered({})", if REMOTES[r].is_reader { "reader" } else { "writer" }, REMOTES[r].name),
        Ev::Dispose(r) => write!(f, "remote_{}_lost({})", if REMOTES[r].is_reader { "reader" } else { "writer" }, REMOTES[r].name),
        Ev::PLost(p, false) => write!(f, "remote_participant_lost(P{p})"),
        Ev::PLost(p, true) => write!(f, "remote_participant_lost(P{p})[P{p} already back in the DiscoveryDB, endpoints not re-announced]"),
      }
    }
  }
  fn alphabet() -> Vec<Ev> {
    let mut v = vec![];
    for r in 0..REMOTES.len() { v.push(Ev::Announce(r)); }
    for r in 0..REMOTES.len() { v.push(Ev::Dispose(r)); }
    for p in 0..2 { v.push(Ev::PLost(p, false)); v.push(Ev::PLost(p, true)); }
    v
  }

  // ---------------------------------------------------------------- the model (oracle)
  struct Model {
    cfg: Cfg,
    announced: BTreeSet<usize>,
    total: [i32; NL],    // matches ever made, per local endpoint
    incompat: [i32; NL], // incompatible announces ever seen, per local endpoint
  }
  impl Model {
    fn violations(&self, l: usize, r: usize) -> Vec<QosPolicyId> {
      if LOCALS[l].is_reader { rxo_violations(self.cfg[r], LOCALS[l].q) } else { rxo_violations(LOCALS[l].q, self.cfg[r]) }
    }
    fn concerns(l: usize, r: usize) -> bool {
      LOCALS[l].is_reader != REMOTES[r].is_reader && LOCALS[l].topic == REMOTES[r].topic
    }
    fn matched(&self, l: usize) -> BTreeSet<usize> {
      self.announced.iter().copied().filter(|&r| Self::concerns(l, r) && self.violations(l, r).is_empty()).collect()
    }
    fn apply(&mut self, e: Ev) {
      match e {
        Ev::Announce(r) => { self.announced.insert(r); }
        Ev::Dispose(r) => { self.announced.remove(&r); }
        Ev::PLost(p, _) => self.announced.retain(|&r| REMOTES[r].participant != p), // whatever the DB says
      }
    }
  }

  // ---------------------------------------------------------------- the real thing
  #[derive(Debug, Clone, PartialEq)]
  enum Obs {
    Matched { g: GUID, total: (i32, i32), current: (i32, i32) },
    Incompat { g: GUID, count: (i32, i32), policy: QosPolicyId, own_ok: bool, remote: (Option<Reliability>, Option<Durability>) },
    Other(String),
  }
  enum StatusRx {
    R(StatusChannelReceiver<DataReaderStatus>),
    W(StatusChannelReceiver<DataWriterStatus>),
  }

  struct Harness {
    ev: DPEventLoop,
    db: Arc<RwLock<DiscoveryDB>>, // the DiscoveryDB the event loop reads; the harness plays Discovery
    spdp: [SpdpDiscoveredParticipantData; 2],
    model: Model,
    status: Vec<StatusRx>,
    last_total_seen: [i32; NL],
    history: Vec<Ev>, // since the last state in which everything was empty
    origin: String,
    _keep: Vec<Box<dyn Any>>, // the far ends of all channels stay alive
  }

  impl Harness {
    fn new(cfg: Cfg) -> Self {
      let mut keep: Vec<Box<dyn Any>> = vec![];
      let dds_cache = Arc::new(RwLock::new(DDSCache::new()));
      let (s1, add_reader_receiver) = mio_channel::channel::<ReaderIngredients>();
      let (s2, remove_reader_receiver) = mio_channel::channel::<GUID>();
      let (s3, add_writer_receiver) = mio_channel::channel::<WriterIngredients>();
      let (s4, remove_writer_receiver) = mio_channel::channel::<GUID>();
      let (s5, stop_poll_receiver) = mio_channel::channel::<EventLoopCommand>();
      let (s6, discovery_update_notification_receiver) = mio_channel::channel::<DiscoveryNotificationType>();
      let (discovery_command_sender, r7) = mio_channel::sync_channel::<DiscoveryCommand>(64);
      let (spdp_liveness_sender, r8) = mio_channel::sync_channel::<GuidPrefix>(8);
      let (participant_status_sender, r9) = sync_status_channel::<DomainParticipantStatusEvent>(256).unwrap();
      let (discovery_db_event_sender, r10) = mio_channel::sync_channel::<()>(4);
      keep.push(Box::new((s1, s2, s3, s4, s5, s6, r7, r8, r9, r10)));
      let participant_guid = GUID::new(prefix(0), EntityId::PARTICIPANT);
      let discovery_db = Arc::new(RwLock::new(DiscoveryDB::new(
        participant_guid,
        discovery_db_event_sender,
        participant_status_sender.clone(),
      )));
      let mut ev = DPEventLoop::new(
        DomainInfo { domain_participant_guid: participant_guid, domain_id: 0, participant_id: 0 },
        Arc::clone(&dds_cache),
        HashMap::new(),
        Arc::clone(&discovery_db),
        prefix(0),
        TokenReceiverPair { token: ADD_READER_TOKEN, receiver: add_reader_receiver },
        TokenReceiverPair { token: REMOVE_READER_TOKEN, receiver: remove_reader_receiver },
        TokenReceiverPair { token: ADD_WRITER_TOKEN, receiver: add_writer_receiver },
        TokenReceiverPair { token: REMOVE_WRITER_TOKEN, receiver: remove_writer_receiver },
        stop_poll_receiver,
        discovery_update_notification_receiver,
        discovery_command_sender,
        spdp_liveness_sender,
        participant_status_sender,
        None,
      );
      let mut status = vec![];
      for (l, loc) in LOCALS.iter().enumerate() {
        if loc.is_reader {
          let topic_cache_handle = dds_cache.write().unwrap().add_new_topic(
            loc.topic.to_string(),
            TypeDesc::new(TYPE.to_string()),
            &qos(loc.q),
          );
          let (notification_sender, nr) = mio_channel::sync_channel::<()>(100);
          let (nes, poll_event_sender) = mio_source::make_poll_channel().unwrap();
          let (status_sender, status_receiver) = sync_status_channel::<DataReaderStatus>(16).unwrap();
          let (rcs, data_reader_command_receiver) = mio_channel::sync_channel::<ReaderCommand>(10);
          keep.push(Box::new((nr, nes, rcs)));
          ev.add_local_reader(ReaderIngredients {
            guid: lguid(l),
            notification_sender,
            status_sender,
            topic_cache_handle,
            topic_name: loc.topic.to_string(),
            like_stateless: false,
            qos_policy: qos(loc.q),
            data_reader_command_receiver,
            data_reader_waker: Arc::new(Mutex::new(None)),
            poll_event_sender,
            security_plugins: None,
          });
          status.push(StatusRx::R(status_receiver));
        } else {
          let (wcs, writer_command_receiver) = mio_channel::sync_channel::<WriterCommand>(10);
          let (status_sender, status_receiver) = sync_status_channel::<DataWriterStatus>(16).unwrap();
          keep.push(Box::new(wcs));
          ev.add_local_writer(WriterIngredients {
            guid: lguid(l),
            writer_command_receiver,
            writer_command_receiver_waker: Arc::new(Mutex::new(None)),
            topic_name: loc.topic.to_string(),
            like_stateless: false,
            qos_policies: qos(loc.q),
            status_sender,
            security_plugins: None,
          });
          status.push(StatusRx::W(status_receiver));
        }
      }
      let template = crate::test::test_data::spdp_participant_data().unwrap();
      let spdp = [0, 1].map(|p| SpdpDiscoveredParticipantData { participant_guid: GUID::new(prefix(p), EntityId::PARTICIPANT), ..template.clone() });
      Harness {
        ev,
        db: discovery_db,
        spdp,
        model: Model { cfg, announced: BTreeSet::new(), total: [0; NL], incompat: [0; NL] },
        status,
        last_total_seen: [0; NL],
        history: vec![],
        origin: "a fresh event loop".to_string(),
        _keep: keep,
      }
    }

    fn apply_real(&mut self, e: Ev) {
      let cfg = &self.model.cfg;
      // what Discovery did to the DiscoveryDB before it sent the notification
      match e {
        Ev::Announce(r) => { self.db.write().unwrap().update_participant(&self.spdp[REMOTES[r].participant]); }
        Ev::Dispose(_) => {}
        Ev::PLost(p, back_again) => {
          self.db.write().unwrap().remove_participant(prefix(p), true);
          if back_again { self.db.write().unwrap().update_participant(&self.spdp[p]); }
          assert!(self.db.read().unwrap().find_participant_proxy(prefix(p)).is_some() == back_again);
        }
      }
      match e {
        Ev::Announce(r) if REMOTES[r].is_reader => {
          let g = rguid(r);
          let _ = self.ev.remote_reader_discovered(&DiscoveredReaderData {
            reader_proxy: ReaderProxy::new(g, false, vec![], vec![]),
            subscription_topic_data: SubscriptionBuiltinTopicData::new(
              g,
              Some(GUID::new(g.prefix, EntityId::PARTICIPANT)),
              REMOTES[r].topic.to_string(),
              TYPE.to_string(),
              &qos(cfg[r]),
              None,
            ),
            content_filter: None,
          });
        }
        Ev::Announce(r) => {
          let g = rguid(r);
          let _ = self.ev.remote_writer_discovered(&DiscoveredWriterData {
            last_updated: Instant::now(),
            writer_proxy: WriterProxy::new(g, vec![], vec![]),
            publication_topic_data: PublicationBuiltinTopicData::new_with_qos(
              g,
              Some(GUID::new(g.prefix, EntityId::PARTICIPANT)),
              REMOTES[r].topic.to_string(),
              TYPE.to_string(),
              &qos(cfg[r]),
              None,
            ),
          });
        }
        // (`let _ =`: independent of what the functions return)
        Ev::Dispose(r) if REMOTES[r].is_reader => { let _ = self.ev.remote_reader_lost(rguid(r)); }
        Ev::Dispose(r) => { let _ = self.ev.remote_writer_lost(rguid(r)); }
        Ev::PLost(p, back_again) => {
          let _ = self.ev.remote_participant_lost(prefix(p));
          // the ParticipantUpdated notification that follows in the queue
          if back_again { let _ = self.ev.update_participant(prefix(p)); }
        }
      }
    }

    fn drain(&self, l: usize) -> Vec<Obs> {
      let own = qos(LOCALS[l].q);
      let mut v = vec![];
      match &self.status[l] {
        StatusRx::R(rx) => {
          while let Ok(s) = rx.try_recv() {
            v.push(match s {
              DataReaderStatus::SubscriptionMatched { total, current, writer } => Obs::Matched {
                g: writer,
                total: (total.count(), total.count_change()),
                current: (current.count(), current.count_change()),
              },
              DataReaderStatus::RequestedIncompatibleQos { count, last_policy_id, writer, requested_qos, offered_qos } => Obs::Incompat {
                g: writer,
                count: (count.count(), count.count_change()),
                policy: last_policy_id,
                own_ok: *requested_qos == own,
                remote: (offered_qos.reliability(), offered_qos.durability()),
              },
              other => Obs::Other(format!("{other:?}")),
            });
          }
        }
        StatusRx::W(rx) => {
          while let Ok(s) = rx.try_recv() {
            v.push(match s {
              DataWriterStatus::PublicationMatched { total, current, reader } => Obs::Matched {
                g: reader,
                total: (total.count(), total.count_change()),
                current: (current.count(), current.count_change()),
              },
              DataWriterStatus::OfferedIncompatibleQos { count, last_policy_id, reader, requested_qos, offered_qos } => Obs::Incompat {
                g: reader,
                count: (count.count(), count.count_change()),
                policy: last_policy_id,
                own_ok: *offered_qos == own,
                remote: (requested_qos.reliability(), requested_qos.durability()),
              },
              other => Obs::Other(format!("{other:?}")),
            });
          }
        }
      }
      v
    }

    // which remote endpoints the REAL local endpoint l is matched with, as far as it can be observed
    // directly: (observed members, the remote endpoints the observation is conclusive for)
    fn real_set(&self, l: usize) -> (BTreeSet<usize>, Vec<usize>) {
      if LOCALS[l].is_reader {
        let rd = &self.ev.message_receiver.available_readers[&lguid(l).entity_id];
        let all: Vec<usize> = (0..REMOTES.len()).collect();
        (all.iter().copied().filter(|&r| rd.contains_writer(rguid(r).entity_id)).collect(), all)
      } else {
        let wr = &self.ev.writers[&lguid(l).entity_id];
        let own: Vec<usize> = (0..REMOTES.len()).filter(|&r| REMOTES[r].participant == 0).collect();
        let seen = wr.local_readers();
        (own.iter().copied().filter(|&r| seen.contains(&rguid(r).entity_id)).collect(), own)
      }
    }

    fn ctx(&self) -> String {
      format!("qos={} start=[{}] events={:?}", if self.model.cfg == CFGS[0] { "mixed" } else { "all-compatible" }, self.origin, self.history)
    }

    // one discovery event on the real event loop and on the model, then the full comparison
    fn step(&mut self, e: Ev) {
      let pre: Vec<BTreeSet<usize>> = (0..LOCALS.len()).map(|l| self.model.matched(l)).collect();
      self.model.apply(e);
      self.apply_real(e);
      self.history.push(e);
      let names = |s: &BTreeSet<usize>| s.iter().map(|&r| REMOTES[r].name).collect::<Vec<_>>();
      for l in 0..LOCALS.len() {
        let post = self.model.matched(l);
        let lname = LOCALS[l].name;
        // ---- the match set
        let (real, conclusive) = self.real_set(l);
        let want: BTreeSet<usize> = post.iter().copied().filter(|r| conclusive.contains(r)).collect();
        let set_label = if matches!(e, Ev::PLost(..)) { "match.lost.set" } else { "match.lemma.set" };
        assert!(real == want, "XC-WITNESS label={} {} local={}: matched with {:?} but the announced, compatible endpoints on its topic are {:?}",
          set_label, self.ctx(), lname, names(&real), names(&want));
        // ---- the status events of this step
        let obs = self.drain(l);
        let incompat_r = match e {
          Ev::Announce(r) if Model::concerns(l, r) && !self.model.violations(l, r).is_empty() => Some(r),
          _ => None,
        };
        let label = match e {
          Ev::Announce(r) if !Model::concerns(l, r) => "match.topic",
          Ev::Announce(_) if incompat_r.is_some() => "match.incompat",
          Ev::Announce(_) if pre[l] == post => "match.readd",
          Ev::Announce(_) => "match.add",
          Ev::Dispose(_) if pre[l] == post => "match.unknown",
          Ev::Dispose(_) => "match.remove",
          Ev::PLost(..) => "match.lost.events",
        };
        let mut cur = pre[l].len() as i32;
        let mut pending_out: BTreeSet<usize> = pre[l].difference(&post).copied().collect();
        let mut pending_in: BTreeSet<usize> = post.difference(&pre[l]).copied().collect();
        let mut incompat_seen = 0;
        let (exp_out, exp_in) = (pending_out.clone(), pending_in.clone());
        let expect = || format!("{} Matched(-1) for {:?}, {} Matched(+1) for {:?}, {} IncompatibleQos{}",
          exp_out.len(), names(&exp_out), exp_in.len(), names(&exp_in),
          incompat_r.is_some() as u8, incompat_r.map_or(String::new(), |r| format!(" for {}", REMOTES[r].name)));
        for o in &obs {
          match o {
            Obs::Matched { g, total, current } => {
              let r = (0..REMOTES.len()).find(|&r| rguid(r) == *g);
              assert!(total.0 >= self.last_total_seen[l], "XC-WITNESS label=match.total.mono {} local={}: total count went from {} to {}", self.ctx(), lname, self.last_total_seen[l], total.0);
              self.last_total_seen[l] = total.0;
              if r.is_some_and(|r| pending_out.remove(&r)) {
                cur -= 1;
                assert!(*current == (cur, -1) && *total == (self.model.total[l], 0),
                  "XC-WITNESS label=match.status.count {} local={}: unmatch event for {} says current={:?} total={:?}, required current=({},-1) [size of the match set] total=({},0)",
                  self.ctx(), lname, rname(*g), current, total, cur, self.model.total[l]);
              } else if r.is_some_and(|r| pending_in.remove(&r)) {
                cur += 1;
                self.model.total[l] += 1;
                assert!(*current == (cur, 1) && *total == (self.model.total[l], 1),
                  "XC-WITNESS label=match.status.count {} local={}: match event for {} says current={:?} total={:?}, required current=({},1) [size of the match set] total=({},1)",
                  self.ctx(), lname, rname(*g), current, total, cur, self.model.total[l]);
              } else {
                panic!("XC-WITNESS label={} {} local={}: matched-status event {:?} for {} although its membership in the match set did not change (set before {:?}, after {:?}); expected {}; all events of this step: {:?}",
                  label, self.ctx(), lname, o, rname(*g), names(&pre[l]), names(&post), expect(), obs);
              }
            }
            Obs::Incompat { g, count, policy, own_ok, remote } => {
              incompat_seen += 1;
              let r = incompat_r.filter(|&r| rguid(r) == *g && incompat_seen == 1);
              assert!(r.is_some(), "XC-WITNESS label={} {} local={}: unexpected incompatible-QoS event for {}; expected {}; all events of this step: {:?}", label, self.ctx(), lname, rname(*g), expect(), obs);
              let r = r.unwrap();
              self.model.incompat[l] += 1;
              let rq = qos(self.model.cfg[r]);
              assert!(*count == (self.model.incompat[l], 1) && self.model.violations(l, r).contains(policy) && *own_ok && *remote == (rq.reliability(), rq.durability()),
                "XC-WITNESS label=match.status.incompat {} local={}: incompatible-QoS event for {} says count={:?} policy={:?} own-QoS-is-mine={} remote-QoS={:?}; required count=({},1), policy in {:?}, own QoS on the own side, remote QoS {:?}",
                self.ctx(), lname, rname(*g), count, policy, own_ok, remote, self.model.incompat[l], self.model.violations(l, r), (rq.reliability(), rq.durability()));
            }
            Obs::Other(s) => panic!("XC-WITNESS label={} {} local={}: unexpected status event {}; expected {}", label, self.ctx(), lname, s, expect()),
          }
        }
        assert!(pending_out.is_empty() && pending_in.is_empty() && incompat_seen == incompat_r.is_some() as i32,
          "XC-WITNESS label={} {} local={}: status events of the last step are {:?}; expected {} (match set before {:?}, after {:?})",
          label, self.ctx(), lname, obs, expect(), names(&pre[l]), names(&post));
      }
    }

    // back to "nothing announced", by events of the alphabet (each one checked like any other)
    fn reset(&mut self, by_participant: bool, n_done: u64) {
      if by_participant {
        self.step(Ev::PLost(0, n_done % 4 == 0));
        self.step(Ev::PLost(1, n_done % 8 < 4));
      } else {
        for r in 0..REMOTES.len() { self.step(Ev::Dispose(r)); }
      }
      assert!(self.model.announced.is_empty());
      self.history.clear();
      self.origin = format!("one event loop after {} earlier sequences, last reset by {} (all match sets empty; match totals so far {:?}, incompatible-QoS counts {:?})",
        n_done, if by_participant { "participant losses" } else { "single disposes" }, self.model.total, self.model.incompat);
    }
  }

  // (1) every sequence of length <= 3 from the initial state, each on a fresh event loop, then
  //     every remote endpoint is disposed one by one
  fn fresh_len3(cfg: Cfg) {
    let abc = alphabet();
    let mut n = 0u64;
    let mut n_match_changes = 0u64;
    for len in 0..=3usize {
      // shortest first, so that a witness is minimal
      for code in 0..abc.len().pow(len as u32) {
        let mut h = Harness::new(cfg);
        let mut c = code;
        for _ in 0..len {
          h.step(abc[c % abc.len()]);
          c /= abc.len();
        }
        for r in 0..REMOTES.len() { h.step(Ev::Dispose(r)); }
        n += 1;
        n_match_changes += h.model.total.iter().map(|&t| t as u64).sum::<u64>();
      }
    }
    assert!(n == 1 + 16 + 16 * 16 + 16 * 16 * 16, "vacuity guard: only {} sequences enumerated", n);
    assert!(n_match_changes > 2_500, "vacuity guard: only {} matches were made", n_match_changes);
  }
  #[test]
  fn xc_evloop_fresh_len3_mixed_qos() { fresh_len3(CFGS[0]); }
  #[test]
  fn xc_evloop_fresh_len3_all_compatible() { fresh_len3(CFGS[1]); }

  // (2) every sequence of length 4, as one long history on one event loop (two halves by first event)
  fn history_len4(cfg: Cfg, half: usize) {
    let abc = alphabet();
    let mut n = 0u64;
    let mut h = Harness::new(cfg);
    for &e1 in &abc[half * 8..half * 8 + 8] {
      for &e2 in &abc {
        for &e3 in &abc {
          for &e4 in &abc {
            h.step(e1);
            h.step(e2);
            h.step(e3);
            h.step(e4);
            n += 1;
            h.reset(n % 2 == 0, n);
          }
        }
      }
    }
    assert!(n == 8 * 16 * 16 * 16, "vacuity guard: only {} sequences enumerated", n);
    assert!((0..NL).all(|l| if l == 4 { h.model.total[l] == 0 } else { h.model.total[l] > 500 }),
      "vacuity guard: match totals {:?} (LW1 on T2 can never match: no remote reader on T2)", h.model.total);
    assert!(cfg != CFGS[0] || h.model.incompat.iter().filter(|&&c| c > 500).count() >= 3,
      "vacuity guard: incompatible counts {:?}", h.model.incompat);
  }
  #[test]
  fn xc_evloop_history_len4_mixed_qos_a() { history_len4(CFGS[0], 0); }
  #[test]
  fn xc_evloop_history_len4_mixed_qos_b() { history_len4(CFGS[0], 1); }
  #[test]
  fn xc_evloop_history_len4_all_compatible_a() { history_len4(CFGS[1], 0); }
  #[test]
  fn xc_evloop_history_len4_all_compatible_b() { history_len4(CFGS[1], 1); }
}
