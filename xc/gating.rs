//@ append: src/security/security_plugins.rs
// Executable contract of the security gating of the receive path (C17) — bounded stand-in / witness
// search on the REAL MessageReceiver with the real builtin security plugins (feature `security`).
// Oracle (from the property statement, history independent): a message addressed to local
//   endpoint E is handed to E  <=>  every protection level that the governance requires for E and
//   that applies to the message is present on it:
//     RTPS level      required iff the participant is rtps-protected and E is not one of the three
//                     bootstrap endpoints (participant discovery, stateless auth, volatile key exchange)
//     submessage level required iff E was registered submessage-protected
//     payload level   required iff E was registered payload-protected and the message has a payload
//   (so plaintext never reaches a protected endpoint, correctly protected traffic is delivered, and
//   traffic for endpoints that need nothing keeps flowing) — whatever arrived BEFORE on the same
//   receiver.
// Observation: DATA = the sample appears in the reader's history cache; HEARTBEAT / GAP = the
//   reader signals progress on its notification channel; ACKNACK = it arrives on the writer channel.
// Bound: the 8 combinations (rtps, submessage, payload protected); 6 local reader/writer pairs
//   {user topic A with the enumerated attributes, user topic B unprotected (its reader also knows
//   the peer's topic-A writer), SPDP and stateless (never protected), volatile-secure and SEDP
//   subscriptions (non exempt builtin) with the enumerated submessage flag}; message kinds {DATA, DATA with reader
//   id UNKNOWN, HEARTBEAT, GAP, ACKNACK}, one submessage per message, every subset of the REQUIRED
//   protection levels applied by the peer's real crypto plugin (payload / submessage level only
//   towards topic A, RTPS level towards every non-exempt endpoint); arrival orders: every message
//   first on a fresh receiver, EVERY ordered pair of messages, and every triple
//   (protected, any, protected) with the first ranging over all correctly protected messages and
//   the last over 4 of them (DATA to B, DATA / ACKNACK / HEARTBEAT to A).
#[cfg(test)]
mod verif_xc_gating {
  use std::{
    rc::Rc,
    sync::{Arc, Mutex, RwLock},
  };

  use enumflags2::BitFlags;
  use mio_extras::channel as mio_channel;
  use speedy::{Endianness, Writable};

  use crate::{
    dds::{
      statusevents::{sync_status_channel, DataReaderStatus},
      typedesc::TypeDesc,
      with_key::simpledatareader::ReaderCommand,
    },
    messages::{
      header::Header,
      protocol_id::ProtocolId,
      protocol_version::ProtocolVersion,
      submessages::{
        elements::serialized_payload::SerializedPayload,
        submessage_flag::FromEndianness,
        submessages::*,
      },
      vendor_id::VendorId,
    },
    mio_source,
    network::udp_sender::UDPSender,
    rtps::{
      message::MessageBuilder,
      message_receiver::MessageReceiver,
      reader::{Reader, ReaderIngredients},
    },
    security::{
      access_control::access_control_builtin::types::{
        BuiltinPluginEndpointSecurityAttributes, BuiltinPluginParticipantSecurityAttributes,
      },
      cryptographic::cryptographic_plugin::{CryptoKeyExchange, CryptoKeyFactory, CryptoTransform},
      AccessControlBuiltin, AuthenticationBuiltin, CryptographicBuiltin,
    },
    structure::{
      dds_cache::DDSCache,
      guid::EntityKind,
      sequence_number::{SequenceNumber, SequenceNumberSet},
    },
    RepresentationIdentifier,
  };
  use super::*;

  const LOCAL: [u8; 12] = [0x01, 0x03, 0x00, 0x0c, 0x29, 0x2d, 0x31, 0xa2, 0x28, 0x20, 0x02, 0x08];
  const PEER: [u8; 12] = [0x01, 0x0f, 0x99, 0x06, 0x78, 0x34, 0x00, 0x00, 0x01, 0x00, 0x00, 0x00];

  // ---------------- the enumerated domain ----------------
  #[derive(Clone, Copy, Debug, PartialEq)]
  struct Cfg {
    rtps: bool,
    sub: bool,
    pay: bool,
  }

  const N_DEST: usize = 6;
  const A: usize = 0;
  const B: usize = 1;
  const DEST_NAME: [&str; N_DEST] = [
    "user topic A",
    "unprotected user topic B",
    "SPDP (bootstrap)",
    "stateless auth (bootstrap)",
    "volatile key exchange (bootstrap)",
    "SEDP subscriptions (builtin, not exempt)",
  ];
  fn exempt(d: usize) -> bool {
    (2..=4).contains(&d)
  }
  fn local_reader_id(d: usize) -> EntityId {
    match d {
      0 => EntityId::create_custom_entity_id([0, 0, 1], EntityKind::READER_WITH_KEY_USER_DEFINED),
      1 => EntityId::create_custom_entity_id([0, 0, 2], EntityKind::READER_WITH_KEY_USER_DEFINED),
      2 => EntityId::SPDP_BUILTIN_PARTICIPANT_READER,
      3 => EntityId::P2P_BUILTIN_PARTICIPANT_STATELESS_READER,
      4 => EntityId::P2P_BUILTIN_PARTICIPANT_VOLATILE_SECURE_READER,
      _ => EntityId::SEDP_BUILTIN_SUBSCRIPTIONS_READER,
    }
  }
  fn local_writer_id(d: usize) -> EntityId {
    match d {
      0 => EntityId::create_custom_entity_id([0, 0, 1], EntityKind::WRITER_WITH_KEY_USER_DEFINED),
      1 => EntityId::create_custom_entity_id([0, 0, 2], EntityKind::WRITER_WITH_KEY_USER_DEFINED),
      2 => EntityId::SPDP_BUILTIN_PARTICIPANT_WRITER,
      3 => EntityId::P2P_BUILTIN_PARTICIPANT_STATELESS_WRITER,
      4 => EntityId::P2P_BUILTIN_PARTICIPANT_VOLATILE_SECURE_WRITER,
      _ => EntityId::SEDP_BUILTIN_SUBSCRIPTIONS_WRITER,
    }
  }
  // the peer's endpoints talking to local pair d carry the counterpart ids
  fn peer_writer_id(d: usize) -> EntityId {
    match d {
      0 => EntityId::create_custom_entity_id([0, 1, 1], EntityKind::WRITER_WITH_KEY_USER_DEFINED),
      1 => EntityId::create_custom_entity_id([0, 1, 2], EntityKind::WRITER_WITH_KEY_USER_DEFINED),
      _ => local_writer_id(d),
    }
  }
  fn peer_reader_id(d: usize) -> EntityId {
    match d {
      0 => EntityId::create_custom_entity_id([0, 1, 1], EntityKind::READER_WITH_KEY_USER_DEFINED),
      1 => EntityId::create_custom_entity_id([0, 1, 2], EntityKind::READER_WITH_KEY_USER_DEFINED),
      _ => local_reader_id(d),
    }
  }

  #[derive(Clone, Copy, Debug, PartialEq)]
  enum Kind {
    Data,
    DataToUnknownReader,
    Heartbeat,
    Gap,
    AckNack,
  }
  const KINDS: [Kind; 5] = [
    Kind::Data,
    Kind::DataToUnknownReader,
    Kind::Heartbeat,
    Kind::Gap,
    Kind::AckNack,
  ];
  impl Kind {
    fn has_payload(self) -> bool {
      matches!(self, Kind::Data | Kind::DataToUnknownReader)
    }
  }

  #[derive(Clone, Copy, PartialEq)]
  struct Msg {
    dest: usize,
    kind: Kind,
    // protection applied by the sender
    pay: bool,
    sub: bool,
    rtps: bool,
  }
  impl std::fmt::Debug for Msg {
    fn fmt(&self, f: &mut std::fmt::Formatter<'_>) -> std::fmt::Result {
      let mut prot = vec![];
      if self.pay {
        prot.push("payload");
      }
      if self.sub {
        prot.push("submessage");
      }
      if self.rtps {
        prot.push("rtps");
      }
      write!(
        f,
        "{:?}->{}[{}]",
        self.kind,
        ["A", "B", "SPDP", "STATELESS", "VOLATILE", "SEDP"][self.dest],
        if prot.is_empty() {
          "plaintext".to_string()
        } else {
          prot.join("+")
        }
      )
    }
  }

  // attributes the local endpoint pair d is registered with
  // (submessage protected, payload protected).  SPDP and the stateless topic are never protected,
  // the volatile topic and SEDP follow the enumerated submessage flag (builtin topics can differ
  // from "empty" only by submessage protection, DDS Security 7.4.8)
  fn dest_attrs(cfg: Cfg, d: usize) -> (bool, bool) {
    match d {
      0 => (cfg.sub, cfg.pay),
      1 | 2 | 3 => (false, false),
      _ => (cfg.sub, false),
    }
  }

  // THE ORACLE. (need_rtps, need_sub, need_pay) for message m
  fn required(cfg: Cfg, m: Msg) -> (bool, bool, bool) {
    let (sub_d, pay_d) = dest_attrs(cfg, m.dest);
    (
      cfg.rtps && !exempt(m.dest),
      sub_d,
      pay_d && m.kind.has_payload(),
    )
  }
  fn must_be_delivered(cfg: Cfg, m: Msg) -> bool {
    let (r, s, p) = required(cfg, m);
    (m.rtps || !r) && (m.sub || !s) && (m.pay || !p)
  }

  // all messages of the domain: every subset of the REQUIRED levels applied (never more)
  fn all_messages(cfg: Cfg) -> Vec<Msg> {
    let mut v = vec![];
    for dest in 0..N_DEST {
      for kind in KINDS {
        let probe = Msg { dest, kind, pay: false, sub: false, rtps: false };
        let (r, s, p) = required(cfg, probe);
        // payload / submessage level keys are exchanged for topic A only
        let s = s && dest == A;
        let p = p && dest == A;
        for pay in [false, true] {
          for sub in [false, true] {
            for rtps in [false, true] {
              if (pay && !p) || (sub && !s) || (rtps && !r) {
                continue;
              }
              v.push(Msg { dest, kind, pay, sub, rtps });
            }
          }
        }
      }
    }
    v
  }

  // ---------------- the world: peer crypto plugin, local plugins, receiver with readers ----------------
  struct World {
    cfg: Cfg,
    local_prefix: GuidPrefix,
    peer_prefix: GuidPrefix,
    peer: CryptographicBuiltin,
    peer_own: ParticipantCryptoHandle,
    peer_for_local: ParticipantCryptoHandle,
    peer_writer_a: Option<(DatawriterCryptoHandle, DatareaderCryptoHandle)>, // own writer, local reader A
    peer_reader_a: Option<(DatareaderCryptoHandle, DatawriterCryptoHandle)>, // own reader, local writer A
    plugins: SecurityPluginsHandle,
    mr: MessageReceiver,
    acknack_sender: mio_channel::SyncSender<(GuidPrefix, AckSubmessage)>,
    acknack_receiver: mio_channel::Receiver<(GuidPrefix, AckSubmessage)>,
    spdp_sender: mio_channel::SyncSender<GuidPrefix>,
    spdp_receiver: mio_channel::Receiver<GuidPrefix>,
    notifications: Vec<mio_channel::Receiver<()>>,
    _keep: Vec<Box<dyn std::any::Any>>,
    counter: i64,
  }

  fn participant_attributes(rtps: bool) -> ParticipantSecurityAttributes {
    ParticipantSecurityAttributes {
      is_rtps_protected: rtps,
      plugin_participant_attributes: BuiltinPluginParticipantSecurityAttributes {
        is_rtps_encrypted: true,
        is_discovery_encrypted: false,
        is_liveliness_encrypted: false,
        is_rtps_origin_authenticated: false,
        is_discovery_origin_authenticated: false,
        is_liveliness_origin_authenticated: false,
      }
      .into(),
      ..ParticipantSecurityAttributes::empty()
    }
  }
  fn endpoint_attributes(sub: bool, pay: bool) -> EndpointSecurityAttributes {
    EndpointSecurityAttributes {
      is_submessage_protected: sub,
      is_payload_protected: pay,
      plugin_endpoint_attributes: BuiltinPluginEndpointSecurityAttributes {
        is_submessage_encrypted: true,
        is_submessage_origin_authenticated: false,
        is_payload_encrypted: true,
      }
      .into(),
      ..EndpointSecurityAttributes::empty()
    }
  }
  fn secret() -> SharedSecretHandle {
    SharedSecretHandle {
      shared_secret: SharedSecret::dummy(),
      challenge1: Challenge::dummy(),
      challenge2: Challenge::dummy(),
    }
  }

  impl World {
    fn new(cfg: Cfg) -> World {
      let local_prefix = GuidPrefix::new(&LOCAL);
      let peer_prefix = GuidPrefix::new(&PEER);

      // --- the peer: its crypto plugin generates the keys and encodes
      let mut peer = CryptographicBuiltin::new();
      let peer_own = peer
        .register_local_participant(1, 1, &[], participant_attributes(cfg.rtps))
        .unwrap();
      let peer_for_local = peer
        .register_matched_remote_participant(peer_own, 2, 2, secret())
        .unwrap();

      // --- the local participant: real plugins, attributes as the governance would set them
      let mut plugins = SecurityPlugins::new(
        Box::new(AuthenticationBuiltin::new()),
        Box::new(AccessControlBuiltin::new()),
        Box::new(CryptographicBuiltin::new()),
      );
      plugins.insert_to_identity_handle_cache(local_prefix, 1);
      plugins.insert_to_permissions_handle_cache(local_prefix, 1);
      plugins.insert_to_identity_handle_cache(peer_prefix, 2);
      plugins.insert_to_permissions_handle_cache(peer_prefix, 2);
      plugins
        .register_local_participant(local_prefix, None, participant_attributes(cfg.rtps))
        .unwrap();
      plugins
        .register_matched_remote_participant(peer_prefix, secret())
        .unwrap();
      if cfg.rtps {
        let tokens = peer
          .create_local_participant_crypto_tokens(peer_own, peer_for_local)
          .unwrap();
        plugins
          .set_remote_participant_crypto_tokens(peer_prefix, tokens)
          .unwrap();
      }
      for d in 0..N_DEST {
        let (s, p) = dest_attrs(cfg, d);
        plugins
          .register_local_reader(GUID::new(local_prefix, local_reader_id(d)), None, endpoint_attributes(s, p))
          .unwrap();
        plugins
          .register_local_writer(GUID::new(local_prefix, local_writer_id(d)), None, endpoint_attributes(s, p))
          .unwrap();
      }

      // --- endpoint level keys for topic A (peer writer -> local reader A, peer reader -> local writer A)
      let mut peer_writer_a = None;
      let mut peer_reader_a = None;
      if cfg.sub || cfg.pay {
        let attrs = || endpoint_attributes(cfg.sub, cfg.pay);
        let remote_participant = plugins
          .get_remote_participant_crypto_handle(&peer_prefix)
          .unwrap();
        // peer writer
        let pw = peer.register_local_datawriter(peer_own, &[], attrs()).unwrap();
        let pw_remote_reader = peer
          .register_matched_remote_datareader(pw, peer_for_local, secret(), false)
          .unwrap();
        let pw_tokens = peer
          .create_local_datawriter_crypto_tokens(pw, pw_remote_reader)
          .unwrap();
        let local_reader = GUID::new(local_prefix, local_reader_id(A));
        let remote_writer = GUID::new(peer_prefix, peer_writer_id(A));
        let local_reader_handle = plugins.get_local_endpoint_crypto_handle(&local_reader).unwrap();
        let h = plugins
          .crypto
          .register_matched_remote_datawriter(local_reader_handle, remote_participant, secret())
          .unwrap();
        plugins.store_remote_endpoint_crypto_handle((local_reader, remote_writer), h);
        plugins
          .set_remote_writer_crypto_tokens(remote_writer, local_reader, pw_tokens)
          .unwrap();
        peer_writer_a = Some((pw, pw_remote_reader));
        // peer reader
        let pr = peer.register_local_datareader(peer_own, &[], attrs()).unwrap();
        let pr_remote_writer = peer
          .register_matched_remote_datawriter(pr, peer_for_local, secret())
          .unwrap();
        let pr_tokens = peer
          .create_local_datareader_crypto_tokens(pr, pr_remote_writer)
          .unwrap();
        let local_writer = GUID::new(local_prefix, local_writer_id(A));
        let remote_reader = GUID::new(peer_prefix, peer_reader_id(A));
        let local_writer_handle = plugins.get_local_endpoint_crypto_handle(&local_writer).unwrap();
        let h = plugins
          .crypto
          .register_matched_remote_datareader(local_writer_handle, remote_participant, secret(), false)
          .unwrap();
        plugins.store_remote_endpoint_crypto_handle((local_writer, remote_reader), h);
        plugins
          .set_remote_reader_crypto_tokens(remote_reader, local_writer, pr_tokens)
          .unwrap();
        peer_reader_a = Some((pr, pr_remote_writer));
      }
      // what the gates read must be what the "governance" said
      assert_eq!(plugins.rtps_not_protected(&local_prefix), !cfg.rtps);
      let plugins = SecurityPluginsHandle::new(plugins);

      // --- receiver with one reliable stateful reader per destination
      let (acknack_sender, acknack_receiver) =
        mio_channel::sync_channel::<(GuidPrefix, AckSubmessage)>(16);
      let (spdp_sender, spdp_receiver) = mio_channel::sync_channel::<GuidPrefix>(16);
      let mut mr = MessageReceiver::new(
        local_prefix,
        acknack_sender.clone(),
        spdp_sender.clone(),
        Some(plugins.clone()),
      );
      let udp_sender = Rc::new(UDPSender::new_with_random_port().unwrap());
      let dds_cache = Arc::new(RwLock::new(DDSCache::new()));
      let qos = QosPolicies::builder()
        .reliability(qos::policy::Reliability::Reliable {
          max_blocking_time: crate::Duration::from_millis(100),
        })
        .build();
      let mut notifications = vec![];
      let mut keep: Vec<Box<dyn std::any::Any>> = vec![];
      for d in 0..N_DEST {
        let topic_name = format!("xc_gating_topic_{}", d);
        let (notification_sender, notification_receiver) = mio_channel::sync_channel::<()>(100);
        let (notification_event_source, notification_event_sender) =
          mio_source::make_poll_channel().unwrap();
        let (status_sender, status_receiver) = sync_status_channel::<DataReaderStatus>(4).unwrap();
        let (participant_status_sender, participant_status_receiver) =
          sync_status_channel(16).unwrap();
        let (reader_command_sender, reader_command_receiver) =
          mio_channel::sync_channel::<ReaderCommand>(10);
        let topic_cache_handle = dds_cache.write().unwrap().add_new_topic(
          topic_name.clone(),
          TypeDesc::new("xc_gating_type".to_string()),
          &qos,
        );
        let mut reader = Reader::new(
          ReaderIngredients {
            guid: GUID::new(local_prefix, local_reader_id(d)),
            notification_sender,
            status_sender,
            topic_name,
            topic_cache_handle,
            like_stateless: false,
            qos_policy: qos.clone(),
            data_reader_command_receiver: reader_command_receiver,
            data_reader_waker: Arc::new(Mutex::new(None)),
            poll_event_sender: notification_event_sender,
            security_plugins: None,
          },
          udp_sender.clone(),
          mio_extras::timer::Builder::default().build(),
          participant_status_sender,
        );
        reader.matched_writer_add(
          GUID::new(peer_prefix, peer_writer_id(d)),
          EntityId::UNKNOWN,
          vec![],
          vec![],
          &qos,
        );
        assert!(reader.contains_writer(peer_writer_id(d)));
        if d == B {
          // the unprotected reader B also knows the peer's writer of topic A: DATA of that writer
          // without a reader id has an unprotected candidate next to the protected one
          reader.matched_writer_add(
            GUID::new(peer_prefix, peer_writer_id(A)),
            EntityId::UNKNOWN,
            vec![],
            vec![],
            &qos,
          );
        }
        mr.add_reader(reader);
        notifications.push(notification_receiver);
        keep.push(Box::new(notification_event_source));
        keep.push(Box::new(status_receiver));
        keep.push(Box::new(participant_status_receiver));
        keep.push(Box::new(reader_command_sender));
      }
      keep.push(Box::new(dds_cache));

      World {
        cfg,
        local_prefix,
        peer_prefix,
        peer,
        peer_own,
        peer_for_local,
        peer_writer_a,
        peer_reader_a,
        plugins,
        mr,
        acknack_sender,
        acknack_receiver,
        spdp_sender,
        spdp_receiver,
        notifications,
        _keep: keep,
        counter: 0,
      }
    }

    // a receiver that has not seen any message yet (the readers move over)
    fn fresh_receiver(&mut self) {
      let mut new = MessageReceiver::new(
        self.local_prefix,
        self.acknack_sender.clone(),
        self.spdp_sender.clone(),
        Some(self.plugins.clone()),
      );
      for d in 0..N_DEST {
        let r = self
          .mr
          .remove_reader(GUID::new(self.local_prefix, local_reader_id(d)))
          .unwrap();
        new.add_reader(r);
      }
      self.mr = new;
    }

    fn drain(&self) {
      for n in &self.notifications {
        while n.try_recv().is_ok() {}
      }
      while self.acknack_receiver.try_recv().is_ok() {}
      while self.spdp_receiver.try_recv().is_ok() {}
    }

    // Builds the wire bytes of m as the peer would send it. k: fresh number of this message
    fn build(&self, m: Msg, k: i64) -> Bytes {
      let le = Endianness::LittleEndian;
      let sn = SequenceNumber::new(16 * k);
      let plain: Submessage = match m.kind {
        Kind::Data | Kind::DataToUnknownReader => {
          let payload = SerializedPayload::new(RepresentationIdentifier::CDR_LE, vec![k as u8, 2, 3, 4])
            .write_to_vec()
            .unwrap();
          let (payload, extra_qos) = if m.pay {
            self
              .peer
              .encode_serialized_payload(payload, self.peer_writer_a.unwrap().0)
              .unwrap()
          } else {
            (payload, crate::messages::submessages::elements::parameter_list::ParameterList::new())
          };
          let have_qos = !extra_qos.is_empty();
          let data = Data {
            reader_id: if m.kind == Kind::Data { local_reader_id(m.dest) } else { EntityId::UNKNOWN },
            writer_id: peer_writer_id(m.dest),
            writer_sn: sn,
            inline_qos: if have_qos { Some(extra_qos) } else { None },
            serialized_payload: Some(Bytes::from(payload)),
          };
          let mut flags = BitFlags::<DATA_Flags>::from_endianness(le) | DATA_Flags::Data;
          if have_qos {
            flags |= DATA_Flags::InlineQos;
          }
          Submessage {
            header: SubmessageHeader {
              kind: SubmessageKind::DATA,
              flags: flags.bits(),
              content_length: data.len_serialized() as u16,
            },
            body: SubmessageBody::Writer(WriterSubmessage::Data(data, flags)),
            original_bytes: None,
          }
        }
        Kind::Heartbeat => Heartbeat {
          reader_id: local_reader_id(m.dest),
          writer_id: peer_writer_id(m.dest),
          first_sn: sn,
          last_sn: sn.plus_1(),
          count: k as i32,
        }
        .create_submessage(BitFlags::<HEARTBEAT_Flags>::from_endianness(le) | HEARTBEAT_Flags::Final)
        .unwrap(),
        Kind::Gap => Gap {
          reader_id: local_reader_id(m.dest),
          writer_id: peer_writer_id(m.dest),
          gap_start: SequenceNumber::new(1),
          gap_list: SequenceNumberSet::new_empty(sn),
        }
        .create_submessage(BitFlags::<GAP_Flags>::from_endianness(le))
        .unwrap(),
        Kind::AckNack => AckNack {
          reader_id: peer_reader_id(m.dest),
          writer_id: local_writer_id(m.dest),
          reader_sn_state: SequenceNumberSet::new_empty(SequenceNumber::new(1)),
          count: k as i32,
        }
        .create_submessage(BitFlags::<ACKNACK_Flags>::from_endianness(le) | ACKNACK_Flags::Final),
      };

      let submessages: Vec<Submessage> = if m.sub {
        let encoded = if m.kind == Kind::AckNack {
          let (pr, remote_writer) = self.peer_reader_a.unwrap();
          self.peer.encode_datareader_submessage(plain, pr, vec![remote_writer]).unwrap()
        } else {
          let (pw, remote_reader) = self.peer_writer_a.unwrap();
          self.peer.encode_datawriter_submessage(plain, pw, vec![remote_reader]).unwrap()
        };
        assert!(matches!(encoded, EncodedSubmessage::Encoded(..)), "peer did not protect the submessage");
        encoded.into()
      } else {
        vec![plain]
      };

      let mut message = MessageBuilder::new()
        .dst_submessage(le, self.local_prefix)
        .add_header_and_build(self.peer_prefix);
      assert_eq!(
        message.header,
        Header {
          protocol_id: ProtocolId::default(),
          protocol_version: ProtocolVersion::THIS_IMPLEMENTATION,
          vendor_id: VendorId::THIS_IMPLEMENTATION,
          guid_prefix: self.peer_prefix
        }
      );
      for s in submessages {
        message.add_submessage(s);
      }
      let message = if m.rtps {
        let enc = self
          .peer
          .encode_rtps_message(message, self.peer_own, vec![self.peer_for_local])
          .unwrap();
        assert!(matches!(
          enc.submessages.first(),
          Some(Submessage { body: SubmessageBody::Security(SecuritySubmessage::SecureRTPSPrefix(..)), .. })
        ));
        enc
      } else {
        message
      };
      Bytes::from(message.write_to_vec_with_ctx(le).unwrap())
    }

    // Sends m to the receiver; returns whether it reached its destination endpoint
    fn send(&mut self, m: Msg) -> bool {
      self.counter += 1;
      let k = self.counter;
      let bytes = self.build(m, k);
      self.drain();
      self.mr.handle_received_packet(&bytes);
      match m.kind {
        Kind::Data | Kind::DataToUnknownReader => self
          .mr
          .available_readers
          .get(&local_reader_id(m.dest))
          .unwrap()
          .history_cache_change_data(SequenceNumber::new(16 * k))
          .is_some(),
        Kind::Heartbeat | Kind::Gap => self.notifications[m.dest].try_recv().is_ok(),
        Kind::AckNack => {
          let mut got = false;
          while let Ok((from, ack)) = self.acknack_receiver.try_recv() {
            if let AckSubmessage::AckNack(a) = ack {
              if from == self.peer_prefix && a.writer_id == local_writer_id(m.dest) && a.count == k as i32 {
                got = true;
              }
            }
          }
          got
        }
      }
    }
  }

  fn verdict(cfg: Cfg, order: &[Msg], step: usize, delivered: bool) -> Result<(), String> {
    let m = order[step];
    let want = must_be_delivered(cfg, m);
    if delivered == want {
      return Ok(());
    }
    let (r, s, p) = required(cfg, m);
    let (label, why) = if !want {
      if r && !m.rtps {
        (
          if m.kind == Kind::AckNack { "gate.rtps.w" } else { "gate.rtps.r" },
          "RTPS protection is required, absent, and the destination is not a bootstrap endpoint",
        )
      } else if s && !m.sub {
        ("gate.sub", "the destination requires submessage protection, the submessage came without")
      } else {
        ("gate.payload", "the destination requires payload protection, the payload came without")
      }
    } else {
      ("gate.flow", "every protection level required for this destination is present (or none is required)")
    };
    let mut needs = vec![];
    if r { needs.push("rtps"); }
    if s { needs.push("submessage"); }
    if p { needs.push("payload"); }
    Err(format!(
      "XC-WITNESS label={} governance={{rtps:{}, topic A submessage:{}, payload:{}}} arrival order={:?} message #{} to {} (needs: {}): {}, required: {} - {}",
      label, cfg.rtps as u8, cfg.sub as u8, cfg.pay as u8, order, step + 1, DEST_NAME[m.dest],
      if needs.is_empty() { "nothing".to_string() } else { needs.join("+") },
      if delivered { "DELIVERED" } else { "NOT delivered" },
      if want { "delivered" } else { "never delivered" },
      why
    ))
  }

  fn run_order(w: &mut World, order: &[Msg], stats: &mut (u64, u64, u64)) {
    w.fresh_receiver();
    for step in 0..order.len() {
      let delivered = w.send(order[step]);
      if let Err(e) = verdict(w.cfg, order, step, delivered) {
        panic!("{}", e);
      }
      stats.0 += 1;
      if delivered {
        stats.1 += 1;
      } else {
        stats.2 += 1;
      }
    }
  }

  fn run_config(rtps: bool, sub: bool, pay: bool) {
    let cfg = Cfg { rtps, sub, pay };
    let mut w = World::new(cfg);
    let msgs = all_messages(cfg);
    let mut stats = (0u64, 0u64, 0u64); // messages, delivered, rejected
    let mut orders = 0u64;
    // 1. every message first on a fresh receiver
    for &m in &msgs {
      run_order(&mut w, &[m], &mut stats);
      orders += 1;
    }
    // 2. every ordered pair
    for &m1 in &msgs {
      for &m2 in &msgs {
        run_order(&mut w, &[m1, m2], &mut stats);
        orders += 1;
      }
    }
    // 3. protected - any - protected: the first ranges over ALL correctly protected messages (those
    //    the oracle requires to be delivered), the last over 4 representatives
    let correct: Vec<Msg> = msgs.iter().copied().filter(|&m| must_be_delivered(cfg, m)).collect();
    let full = |dest: usize, kind: Kind| {
      let probe = Msg { dest, kind, pay: false, sub: false, rtps: false };
      let (r, s, p) = required(cfg, probe);
      Msg { dest, kind, pay: p, sub: s, rtps: r }
    };
    let last = [full(B, Kind::Data), full(A, Kind::Data), full(A, Kind::AckNack), full(A, Kind::Heartbeat)];
    for c in last {
      assert!(correct.contains(&c), "vacuity guard: {:?} missing from the correctly protected messages", c);
    }
    for &c1 in &correct {
      for &m in &msgs {
        for &c2 in &last {
          run_order(&mut w, &[c1, m, c2], &mut stats);
          orders += 1;
        }
      }
    }
    let (n, c) = (msgs.len() as u64, correct.len() as u64);
    assert!(n >= 30 && c >= 10 && orders == n + n * n + c * n * 4, "vacuity guard: {} messages, {} correct, {} orders", n, c, orders);
    assert!(stats.1 > 2 * c * n * 4, "vacuity guard: only {} deliveries observed", stats.1);
    if rtps || sub || pay {
      assert!(stats.2 >= 100, "vacuity guard: only {} rejections observed", stats.2);
    }
    println!("{:?}: {} messages ({} correct), {} orders, {} messages sent, {} delivered, {} rejected", cfg, n, c, orders, stats.0, stats.1, stats.2);
  }

  #[test]
  fn xc_gate_rtps0_sub0_pay0() { run_config(false, false, false); }
  #[test]
  fn xc_gate_rtps0_sub0_pay1() { run_config(false, false, true); }
  #[test]
  fn xc_gate_rtps0_sub1_pay0() { run_config(false, true, false); }
  #[test]
  fn xc_gate_rtps0_sub1_pay1() { run_config(false, true, true); }
  #[test]
  fn xc_gate_rtps1_sub0_pay0() { run_config(true, false, false); }
  #[test]
  fn xc_gate_rtps1_sub0_pay1() { run_config(true, false, true); }
  #[test]
  fn xc_gate_rtps1_sub1_pay0() { run_config(true, true, false); }
  #[test]
  fn xc_gate_rtps1_sub1_pay1() { run_config(true, true, true); }
}
