//@ append: src/discovery/discovery_db.rs
// Executable contract of the participant lease bookkeeping of DiscoveryDB (C12) — bounded stand-in /
// witness search on the REAL code.
// Oracle = a model written from the property statement: per remote participant the lease it
//   advertised (absent -> 100 s, the RTPS default) and its silence (time since the last announcement / liveliness
//   assertion); per endpoint whether it is known and whether a copy waits for the participant to
//   reappear.  participant_cleanup() must report exactly the participants with silence > lease,
//   drop them from the participant list and make their endpoints unknown; everybody else (and
//   their endpoints) stays; an explicit dispose removes participant and endpoints at once; an
//   announcement of a timed-out participant makes its earlier endpoints known again.
// Time: DiscoveryDB reads Instant::now(); the test never sleeps, "time passes for p" is emulated by
//   moving p's stored life sign (private field participant_last_life_signs) into the past. All
//   silences that can arise are >= 300 ms away from the lease on the "still alive" side, real run
//   time of one sequence is << 150 ms (re-run otherwise).
// Bound: 2 remote participants with adjacent GUID prefixes, one reader (EntityId::MAX) and one
//   writer each; EVERY operation sequence of length <= 4 over the 23 lease operations
//   {cleanup, announce(p, lease absent | 1 s | 2 s), alive(p), age(p, 0.7 | 1.6 | 99.7 | 100.3 s),
//    dispose(p), update_subscription(p), update_publication(p)}, started from three states:
//   empty DB / both participants announced with endpoints / one participant timed out (attic).
// Housekeeping: the other `&mut self` operations of DiscoveryDB that are not lease handling
//   {topic_cleanup, update_local_topic_writer, remove_local_topic_writer, remove_local_topic_reader,
//    update_topic_data, update_lease_duration(p)} are NO-OPS for everything the oracle looks at
//   (participants, known / parked endpoints, lost reports). They are interleaved with the lease
//   operations in every sequence of length <= 3 over all 30 operations from the three states, and
//   in every sequence of length 4 over 20 operations (7 housekeeping + cleanup, announce(p, 1 s),
//   alive(p), age(p, 1.6 s), dispose(p), subscription(p), publication(p)) from the two non-empty
//   states (test xc_lease_housekeeping).
#[cfg(test)]
mod verif_xc_leases {
  use std::time::{Duration as StdDuration, Instant};

  use mio_extras::channel as mio_channel;

  use super::*;
  use crate::{
    dds::{qos::QosPolicies, statusevents::sync_status_channel},
    discovery::sedp_messages::PublicationBuiltinTopicData,
    test::test_data::spdp_participant_data,
  };

  const TOPIC: &str = "xc_lease_topic";
  const TYPE: &str = "xc_lease_type";
  const DEFAULT_LEASE_MS: u64 = 100_000; // default of PID_PARTICIPANT_LEASE_DURATION, RTPS 2.5 table 9.14 (finding F19)
  const MARGIN_MS: u64 = 250;
  const MAX_REAL_MS: u128 = 150;

  #[derive(Clone, Copy, PartialEq)]
  enum Op {
    Cleanup,
    Announce(usize, Option<u64>), // participant, advertised lease in ms
    Alive(usize),
    Age(usize, u64), // no message from p for another .. ms
    Dispose(usize),
    Sub(usize), // SEDP: p has a reader
    Pub(usize), // SEDP: p has a writer
    // housekeeping, not lease handling: nothing the oracle looks at may change
    TopicCleanup,           // the periodic topic_cleanup()
    LocalWriter,            // update_local_topic_writer: this participant writes TOPIC
    LocalWriterGone,        // remove_local_topic_writer
    LocalReaderGone,        // remove_local_topic_reader
    TopicData,              // update_topic_data: TOPIC announced on the topic topic
    WriterLiveliness(usize), // update_lease_duration: liveliness message for p's writers
  }
  impl Op {
    fn is_housekeeping(self) -> bool {
      matches!(
        self,
        Op::TopicCleanup | Op::LocalWriter | Op::LocalWriterGone | Op::LocalReaderGone | Op::TopicData | Op::WriterLiveliness(_)
      )
    }
  }

  impl std::fmt::Debug for Op {
    fn fmt(&self, f: &mut std::fmt::Formatter<'_>) -> std::fmt::Result {
      match self {
        Op::Cleanup => write!(f, "cleanup"),
        Op::Announce(p, None) => write!(f, "announce(p{},no lease)", p),
        Op::Announce(p, Some(l)) => write!(f, "announce(p{},lease {}ms)", p, l),
        Op::Alive(p) => write!(f, "alive(p{})", p),
        Op::Age(p, d) => write!(f, "silent(p{},+{}ms)", p, d),
        Op::Dispose(p) => write!(f, "dispose(p{})", p),
        Op::Sub(p) => write!(f, "reader(p{})", p),
        Op::Pub(p) => write!(f, "writer(p{})", p),
        Op::TopicCleanup => write!(f, "topic_cleanup"),
        Op::LocalWriter => write!(f, "local_writer"),
        Op::LocalWriterGone => write!(f, "local_writer_gone"),
        Op::LocalReaderGone => write!(f, "local_reader_gone"),
        Op::TopicData => write!(f, "topic_data"),
        Op::WriterLiveliness(p) => write!(f, "writer_liveliness(p{})", p),
      }
    }
  }

  fn alphabet() -> Vec<Op> {
    let mut v = vec![Op::Cleanup];
    for p in 0..2 {
      for l in [None, Some(1000), Some(2000)] {
        v.push(Op::Announce(p, l));
      }
      v.push(Op::Alive(p));
      for d in [700, 1600, 99_700, 100_300] {
        v.push(Op::Age(p, d));
      }
      v.push(Op::Dispose(p));
      v.push(Op::Sub(p));
      v.push(Op::Pub(p));
    }
    v
  }
  fn housekeeping() -> Vec<Op> {
    vec![
      Op::TopicCleanup,
      Op::LocalWriter,
      Op::LocalWriterGone,
      Op::LocalReaderGone,
      Op::TopicData,
      Op::WriterLiveliness(0),
      Op::WriterLiveliness(1),
    ]
  }
  fn full_alphabet() -> Vec<Op> {
    let mut v = alphabet();
    v.extend(housekeeping());
    v
  }
  // for the length-4 interleavings with housekeeping: one value per lease operation
  fn reduced_alphabet() -> Vec<Op> {
    let mut v = vec![Op::Cleanup];
    for p in 0..2 {
      v.push(Op::Announce(p, Some(1000)));
      v.push(Op::Alive(p));
      v.push(Op::Age(p, 1600));
      v.push(Op::Dispose(p));
      v.push(Op::Sub(p));
      v.push(Op::Pub(p));
    }
    v.extend(housekeeping());
    v
  }

  // ---------------- model (from the statement) ----------------
  #[derive(Clone, Copy, Debug, Default, PartialEq)]
  struct Ep {
    known: bool,
    attic: bool,        // learned earlier, participant timed out since: comes back on reappearance
    attic_unspec: bool, // ... but a dispose arrived meanwhile: statement silent, no requirement
  }
  #[derive(Clone, Copy, Debug, Default, PartialEq)]
  struct Part {
    lease_ms: Option<u64>, // Some = participant known
    silence_ms: u64,
    ep: [Ep; 2], // [reader, writer]
  }
  #[derive(Clone, Debug, Default, PartialEq)]
  struct Model {
    p: [Part; 2],
  }
  enum Expect {
    Nothing,
    Lost(Vec<(usize, u64, u64)>), // participant, lease, silence
    New(bool),
    Resync(usize), // announce of p whose attic is unspecified: take endpoint state from the DB
  }
  impl Model {
    fn describe(&self) -> String {
      let mut t = String::new();
      for (i, p) in self.p.iter().enumerate() {
        match p.lease_ms {
          Some(l) => t.push_str(&format!("participant {} lease {} ms silent for {} ms; ", i, l, p.silence_ms)),
          None => t.push_str(&format!("participant {} not known; ", i)),
        }
      }
      t
    }
    fn apply(&mut self, op: Op) -> Expect {
      match op {
        Op::Cleanup => {
          let mut lost = vec![];
          for (i, p) in self.p.iter_mut().enumerate() {
            if let Some(lease) = p.lease_ms {
              if p.silence_ms > lease {
                lost.push((i, lease, p.silence_ms));
                p.lease_ms = None;
                for e in p.ep.iter_mut() {
                  if e.known {
                    e.known = false;
                    e.attic = true;
                    e.attic_unspec = false;
                  }
                }
              } else {
                assert!(
                  lease - p.silence_ms >= MARGIN_MS,
                  "XC-ENV: enumeration puts a silence within {} ms below the lease",
                  MARGIN_MS
                );
              }
            }
          }
          Expect::Lost(lost)
        }
        Op::Announce(i, l) => {
          let p = &mut self.p[i];
          let was_known = p.lease_ms.is_some();
          p.lease_ms = Some(l.unwrap_or(DEFAULT_LEASE_MS));
          p.silence_ms = 0;
          let mut resync = false;
          if !was_known {
            for e in p.ep.iter_mut() {
              if e.attic {
                if e.attic_unspec {
                  resync = true;
                } else {
                  e.known = true;
                }
                e.attic = false;
                e.attic_unspec = false;
              }
            }
          }
          if resync {
            Expect::Resync(i)
          } else {
            Expect::New(!was_known)
          }
        }
        Op::Alive(i) => {
          if self.p[i].lease_ms.is_some() {
            self.p[i].silence_ms = 0;
          }
          Expect::Nothing
        }
        Op::Age(i, d) => {
          if self.p[i].lease_ms.is_some() {
            self.p[i].silence_ms += d;
          }
          Expect::Nothing
        }
        Op::Dispose(i) => {
          let p = &mut self.p[i];
          p.lease_ms = None;
          for e in p.ep.iter_mut() {
            e.known = false;
            if e.attic {
              e.attic_unspec = true;
            }
          }
          Expect::Nothing
        }
        Op::Sub(i) => {
          self.p[i].ep[0].known = true;
          Expect::Nothing
        }
        Op::Pub(i) => {
          self.p[i].ep[1].known = true;
          Expect::Nothing
        }
        // housekeeping: no effect on participants, endpoints (known or parked) or lost reports
        Op::TopicCleanup
        | Op::LocalWriter
        | Op::LocalWriterGone
        | Op::LocalReaderGone
        | Op::TopicData
        | Op::WriterLiveliness(_) => Expect::Nothing,
      }
    }
  }

  // ---------------- the real thing ----------------
  struct Fixture {
    base: SpdpDiscoveredParticipantData,
    prefix: [GuidPrefix; 2],
    // the notification channels are shared by all DBs of one test (creating them costs system
    // calls) and drained after every sequence
    topic_updated: (mio_channel::SyncSender<()>, mio_channel::Receiver<()>),
    status: (
      StatusChannelSender<DomainParticipantStatusEvent>,
      crate::dds::statusevents::StatusChannelReceiver<DomainParticipantStatusEvent>,
    ),
  }
  impl Fixture {
    fn new() -> Self {
      Fixture {
        topic_updated: mio_channel::sync_channel::<()>(4),
        status: sync_status_channel(16).unwrap(),
        base: spdp_participant_data().unwrap(),
        // adjacent prefixes: GUID(p0, EntityId::MAX) and GUID(p1, lowest id) are neighbours
        prefix: [
          GuidPrefix::new(&[7, 7, 7, 7, 7, 7, 7, 7, 7, 7, 7, 0x10]),
          GuidPrefix::new(&[7, 7, 7, 7, 7, 7, 7, 7, 7, 7, 7, 0x11]),
        ],
      }
    }
    fn reader_guid(&self, p: usize) -> GUID {
      GUID::new(self.prefix[p], EntityId::MAX)
    }
    fn writer_guid(&self, p: usize) -> GUID {
      GUID::new(
        self.prefix[p],
        EntityId::new([0, 0, 0], crate::structure::guid::EntityKind::WRITER_WITH_KEY_USER_DEFINED),
      )
    }
    fn participant(&self, p: usize, lease_ms: Option<u64>) -> SpdpDiscoveredParticipantData {
      let mut d = self.base.clone();
      d.participant_guid = GUID::new(self.prefix[p], EntityId::PARTICIPANT);
      d.lease_duration = lease_ms.map(|ms| Duration::from_millis(ms as i64));
      d
    }
    fn reader(&self, p: usize) -> DiscoveredReaderData {
      let g = self.reader_guid(p);
      DiscoveredReaderData {
        reader_proxy: ReaderProxy::new(g, false, vec![], vec![]),
        subscription_topic_data: SubscriptionBuiltinTopicData::new(
          g,
          Some(GUID::new(self.prefix[p], EntityId::PARTICIPANT)),
          TOPIC.to_string(),
          TYPE.to_string(),
          &QosPolicies::qos_none(),
          None,
        ),
        content_filter: None,
      }
    }
    fn my_guid(&self) -> GUID {
      GUID::new(GuidPrefix::new(&[9; 12]), EntityId::PARTICIPANT) // this participant
    }
    fn local_writer_guid(&self) -> GUID {
      GUID::new(
        GuidPrefix::new(&[9; 12]),
        EntityId::new([0, 0, 5], crate::structure::guid::EntityKind::WRITER_WITH_KEY_USER_DEFINED),
      )
    }
    fn local_reader_guid(&self) -> GUID {
      GUID::new(
        GuidPrefix::new(&[9; 12]),
        EntityId::new([0, 0, 6], crate::structure::guid::EntityKind::READER_WITH_KEY_USER_DEFINED),
      )
    }
    fn local_writer(&self) -> DiscoveredWriterData {
      let g = self.local_writer_guid();
      DiscoveredWriterData {
        last_updated: Instant::now(),
        writer_proxy: WriterProxy::new(g, vec![], vec![]),
        publication_topic_data: PublicationBuiltinTopicData::new(
          g,
          Some(self.my_guid()),
          TOPIC.to_string(),
          TYPE.to_string(),
          None,
        ),
      }
    }
    fn writer(&self, p: usize) -> DiscoveredWriterData {
      let g = self.writer_guid(p);
      DiscoveredWriterData {
        last_updated: Instant::now(),
        writer_proxy: WriterProxy::new(g, vec![], vec![]),
        publication_topic_data: PublicationBuiltinTopicData::new(
          g,
          Some(GUID::new(self.prefix[p], EntityId::PARTICIPANT)),
          TOPIC.to_string(),
          TYPE.to_string(),
          None,
        ),
      }
    }
  }

  // what the DB says through its getters
  #[derive(Debug, PartialEq, Clone, Copy)]
  struct Seen {
    participant: [bool; 2],
    ep: [[bool; 2]; 2],
  }
  fn observe(fx: &Fixture, db: &DiscoveryDB) -> Seen {
    let mut s = Seen {
      participant: [false; 2],
      ep: [[false; 2]; 2],
    };
    for p in 0..2 {
      s.participant[p] = db.find_participant_proxy(fx.prefix[p]).is_some();
      s.ep[p][0] = db
        .readers_on_topic_and_participant(TOPIC, fx.prefix[p])
        .iter()
        .any(|r| r.reader_proxy.remote_reader_guid == fx.reader_guid(p));
      s.ep[p][1] = db
        .writers_on_topic_and_participant(TOPIC, fx.prefix[p])
        .iter()
        .any(|w| w.writer_proxy.remote_writer_guid == fx.writer_guid(p));
    }
    s
  }

  fn label_for(op: Op, what: &str) -> &'static str {
    match (op, what) {
      (Op::Cleanup, "participant") => "lease.cleanup.removed",
      (Op::Cleanup, _) => "lease.cleanup.attic",
      (Op::Announce(..), "participant") => "lease.update.proxy",
      (Op::Announce(..), _) => "lease.reappear.restore",
      (Op::Alive(_), _) => "lease.alive.frame",
      (Op::Dispose(_), _) => "lease.dispose.immediate",
      (Op::Age(..), _) => "xc.age",
      (Op::Sub(_), _) | (Op::Pub(_), _) => "lease.update.endpoint",
      _ => "lease.housekeeping.frame",
    }
  }

  fn new_db(fx: &Fixture) -> DiscoveryDB {
    while fx.topic_updated.1.try_recv().is_ok() {}
    while fx.status.1.try_recv().is_ok() {}
    DiscoveryDB::new(
      fx.my_guid(),
      fx.topic_updated.0.clone(),
      fx.status.0.clone(),
    )
  }

  // Runs `ops` on a fresh DB and the model; checks the outcome of the LAST operation (every
  // proper prefix is a sequence of its own). Err = witness text.
  fn run(fx: &Fixture, ops: &[Op], first_checked: usize) -> Result<(), String> {
    let mut db = new_db(fx);
    let mut m = Model::default();
    for (k, &op) in ops.iter().enumerate() {
      let last = k + 1 == ops.len();
      let checked = last && k >= first_checked;
      let before = if checked { Some(observe(fx, &db)) } else { None };
      let t_before = Instant::now();
      let before_txt = m.describe();
      let exp = m.apply(op);
      match op {
        Op::Cleanup => {
          let got = db.participant_cleanup();
          if checked {
            let want = match &exp {
              Expect::Lost(l) => l,
              _ => unreachable!(),
            };
            let got_ix: Vec<Option<usize>> = got
              .iter()
              .map(|(g, _)| fx.prefix.iter().position(|q| q == g))
              .collect();
            let want_ix: Vec<Option<usize>> = want.iter().map(|(i, _, _)| Some(*i)).collect();
            let mut a = got_ix.clone();
            a.sort();
            if a != want_ix {
              return Err(format!(
                "XC-WITNESS label=lease.cleanup.exact ops={:?}: participant_cleanup reported participants {:?} as lost, \
                 but the participants silent for longer than their lease are {:?} (participant, lease ms, silence ms); \
                 before the call: {}",
                ops, got_ix.iter().map(|o| o.map_or(-1, |i| i as i64)).collect::<Vec<_>>(), want, before_txt
              ));
            }
            for (g, reason) in &got {
              let i = fx.prefix.iter().position(|q| q == g).unwrap();
              let (_, lease, silence) = want.iter().find(|(j, _, _)| *j == i).unwrap();
              match reason {
                LostReason::Timeout { lease: l, elapsed } => {
                  let lo = Duration::from_millis(*silence as i64);
                  let hi = Duration::from_millis((*silence + MAX_REAL_MS as u64 + 50) as i64);
                  if *l != Duration::from_millis(*lease as i64) || *elapsed < lo || *elapsed > hi {
                    return Err(format!(
                      "XC-WITNESS label=lease.cleanup.exact ops={:?}: participant {} reported with reason {:?}, \
                       but it advertised a lease of {} ms and was silent for {} ms",
                      ops, i, reason, lease, silence
                    ));
                  }
                }
                other => {
                  return Err(format!(
                    "XC-WITNESS label=lease.cleanup.exact ops={:?}: participant {} reported with reason {:?} instead of a time-out",
                    ops, i, other
                  ))
                }
              }
            }
          }
        }
        Op::Announce(p, l) => {
          let new = db.update_participant(&fx.participant(p, l));
          if let Expect::Resync(i) = exp {
            let s = observe(fx, &db);
            m.p[i].ep[0].known = s.ep[i][0];
            m.p[i].ep[1].known = s.ep[i][1];
          } else if checked {
            if let Expect::New(want) = exp {
              if new != want {
                return Err(format!(
                  "XC-WITNESS label=lease.update.proxy ops={:?}: update_participant returned {} but the participant was {} before",
                  ops, new, if want { "unknown" } else { "known" }
                ));
              }
            }
          }
          if checked {
            let ts = db.participant_last_life_signs.get(&fx.prefix[p]).copied();
            if ts.map_or(true, |t| t < t_before) {
              return Err(format!(
                "XC-WITNESS label=lease.alive.touch ops={:?}: after the announcement the recorded life sign of participant {} is {}, required: a clock reading taken during the call",
                ops, p, ts.map_or("missing".to_string(), |t| format!("{:?} older than the start of the call", t_before.duration_since(t)))
              ));
            }
          }
        }
        Op::Alive(p) => {
          let known = db.find_participant_proxy(fx.prefix[p]).is_some();
          db.participant_is_alive(fx.prefix[p]);
          if checked && known {
            let ts = db.participant_last_life_signs.get(&fx.prefix[p]).copied();
            if ts.map_or(true, |t| t < t_before) {
              return Err(format!(
                "XC-WITNESS label=lease.alive.touch ops={:?}: after the liveliness assertion the recorded life sign of participant {} is {}: the silence did not restart (required: a clock reading taken during the call)",
                ops, p, ts.map_or("missing".to_string(), |t| format!("{:?} older than the start of the call", t_before.duration_since(t)))
              ));
            }
          }
        }
        Op::Age(p, d) => {
          if let Some(ts) = db.participant_last_life_signs.get_mut(&fx.prefix[p]) {
            *ts = ts
              .checked_sub(StdDuration::from_millis(d))
              .expect("XC-ENV: the monotonic clock is too young to represent an instant some minutes in the past");
          }
        }
        Op::Dispose(p) => db.remove_participant(fx.prefix[p], true),
        Op::Sub(p) => {
          db.update_subscription(&fx.reader(p));
        }
        Op::Pub(p) => {
          db.update_publication(&fx.writer(p));
        }
        Op::TopicCleanup => db.topic_cleanup(),
        Op::LocalWriter => db.update_local_topic_writer(fx.local_writer()),
        Op::LocalWriterGone => db.remove_local_topic_writer(fx.local_writer_guid()),
        Op::LocalReaderGone => db.remove_local_topic_reader(fx.local_reader_guid()),
        Op::TopicData => db.update_topic_data(
          &DiscoveredTopicData::new(
            Utc::now(),
            TopicBuiltinTopicData::new(None, TOPIC.to_string(), TYPE.to_string(), &QosPolicies::qos_none()),
          ),
          fx.my_guid(),
          DiscoveredVia::Topic,
        ),
        Op::WriterLiveliness(p) => db.update_lease_duration(&ParticipantMessageData {
          guid: fx.prefix[p],
          kind: crate::discovery::sedp_messages::ParticipantMessageDataKind::AUTOMATIC_LIVELINESS_UPDATE,
          data: vec![],
        }),
      }
      if checked {
        let s = observe(fx, &db);
        let before = before.unwrap();
        for p in 0..2 {
          let want = m.p[p].lease_ms.is_some();
          if s.participant[p] != want {
            return Err(format!(
              "XC-WITNESS label={} ops={:?}: after the last operation participant {} is {} in the DB (before it: {}), required: {}",
              label_for(op, "participant"), ops, p,
              if s.participant[p] { "known" } else { "not known" },
              if before.participant[p] { "known" } else { "not known" },
              if want { "known (it was announced and has not been silent for longer than its lease, nor disposed)" } else { "gone (timed out / disposed / never announced)" }
            ));
          }
          for e in 0..2 {
            let want = m.p[p].ep[e].known;
            if s.ep[p][e] != want {
              let lab = match op {
                Op::Cleanup if want => "lease.lemma.alive",
                _ => label_for(op, "endpoint"),
              };
              return Err(format!(
                "XC-WITNESS label={} ops={:?}: after the last operation the {} of participant {} is {} (before it: {}), required: {}",
                lab, ops, if e == 0 { "reader" } else { "writer" }, p,
                if s.ep[p][e] { "known" } else { "not known" },
                if before.ep[p][e] { "known" } else { "not known" },
                if want { "known" } else { "not known" }
              ));
            }
          }
        }
      }
    }
    Ok(())
  }

  fn run_robust(fx: &Fixture, ops: &[Op], first_checked: usize) {
    for attempt in 0..5 {
      let t0 = Instant::now();
      let r = run(fx, ops, first_checked);
      let slow = t0.elapsed().as_millis() > MAX_REAL_MS;
      match r {
        Ok(()) if !slow => return,
        Err(w) if !slow => panic!("{}", w),
        _ => {
          // the thread was descheduled for too long: real time leaked into the emulated clock
          assert!(attempt < 4, "XC-ENV: sequence {:?} took longer than {} ms five times", ops, MAX_REAL_MS);
        }
      }
    }
  }

  // shortest sequences first, so that a witness is as short as possible.
  // `only_with_housekeeping`: skip the sequences without a housekeeping operation (they are
  // enumerated elsewhere)
  fn enumerate_from(prefix: &[Op], alpha: &[Op], lens: std::ops::RangeInclusive<usize>, only_with_housekeeping: bool) -> u64 {
    let fx = Fixture::new();
    let mut n = 0u64;
    // the start state itself must be consistent with the model
    if !prefix.is_empty() {
      run_robust(&fx, prefix, 0);
    }
    for len in lens {
      let mut ix = vec![0usize; len];
      'odometer: loop {
        if !only_with_housekeeping || ix.iter().any(|&i| alpha[i].is_housekeeping()) {
          let mut seq: Vec<Op> = prefix.to_vec();
          seq.extend(ix.iter().map(|&i| alpha[i]));
          run_robust(&fx, &seq, prefix.len());
          n += 1;
        }
        let mut k = len;
        loop {
          if k == 0 {
            break 'odometer;
          }
          k -= 1;
          ix[k] += 1;
          if ix[k] < alpha.len() {
            break;
          }
          ix[k] = 0;
        }
      }
    }
    n
  }

  // all lease sequences of length <= 4, plus all sequences of length <= 3 that interleave them
  // with housekeeping
  fn lease_and_short_housekeeping(start: &[Op]) {
    let n = enumerate_from(start, &alphabet(), 1..=4, false);
    assert!(n > 290_000, "vacuity guard: only {} sequences enumerated", n);
    let h = enumerate_from(start, &full_alphabet(), 1..=3, true);
    assert!(h > 15_000, "vacuity guard: only {} sequences with housekeeping enumerated", h);
  }

  const START_ANNOUNCED: [Op; 5] = [
    Op::Announce(0, Some(1000)),
    Op::Sub(0),
    Op::Pub(0),
    Op::Announce(1, None),
    Op::Sub(1),
  ];
  // participant 0 (lease 2 s) has timed out, its endpoints wait in the attic; participant 1
  // (lease 1 s) has been silent for 0.7 s
  const START_TIMED_OUT: [Op; 9] = [
    Op::Announce(0, Some(2000)),
    Op::Sub(0),
    Op::Pub(0),
    Op::Announce(1, Some(1000)),
    Op::Pub(1),
    Op::Age(0, 1600),
    Op::Age(0, 700),
    Op::Age(1, 700),
    Op::Cleanup,
  ];

  #[test]
  fn xc_lease_sequences_from_empty() {
    lease_and_short_housekeeping(&[]);
  }

  #[test]
  fn xc_lease_sequences_from_announced() {
    lease_and_short_housekeeping(&START_ANNOUNCED);
  }

  #[test]
  fn xc_lease_sequences_from_timed_out() {
    lease_and_short_housekeeping(&START_TIMED_OUT);
  }

  // length 4 with housekeeping in between (e.g. time-out, topic_cleanup, re-announcement)
  #[test]
  fn xc_lease_housekeeping() {
    let alpha = reduced_alphabet();
    let a = enumerate_from(&START_ANNOUNCED, &alpha, 4..=4, true);
    let b = enumerate_from(&START_TIMED_OUT, &alpha, 4..=4, true);
    assert!(a > 100_000 && b > 100_000, "vacuity guard: only {} + {} sequences enumerated", a, b);
  }
}
