//@ append: src/discovery/discovery_db.rs
// Executable contract of the one C15 default that is not applied by the decoder but by its consumer:
// "absent optional parameters yield the defaults RTPS prescribes" for PID_PARTICIPANT_LEASE_DURATION.
// RTPS 2.5 table 9.13 (ParameterId values and defaults): PID_PARTICIPANT_LEASE_DURATION, Duration_t,
// default {100, 0}; table 8.5.3.2 leaseDuration "default 100 s".  SpdpDiscoveredParticipantData keeps the
// field as Option (None when the parameter is absent, checked in xc/discovery_roundtrip.rs); the
// effective value is chosen by DiscoveryDB::participant_cleanup.
// Oracle: a participant whose announcement carried no lease duration is treated exactly like one that
//   announced {100 s}: still known after a silence < 100 s, reported lost (Timeout { lease: 100 s })
//   after a silence > 100 s.  The announcement travels through the REAL PL_CDR encoder / decoder in
//   both byte orders with the lease parameter removed from the wire form.
// Time: DiscoveryDB reads Instant::now(); the test never sleeps, the silence is emulated by moving the
//   stored life sign (private field participant_last_life_signs) into the past.
// Bound: 2 encodings x {lease parameter absent, present with 100 s} x silences
//   {0, 30, 59} s (kept) and {101, 200, 3600} s (lost) in xc_lease_default_outside_60_100, silences
//   {61, 80, 99} s (kept under the RTPS default) and the reported lease in xc_lease_default_is_100s.
#[cfg(test)]
mod verif_xc_discovery_defaults {
  use std::time::{Duration as StdDuration, Instant};

  use mio_extras::channel as mio_channel;

  use super::*;
  use crate::{
    dds::statusevents::sync_status_channel,
    serialization::pl_cdr_adapters::{PlCdrDeserialize, PlCdrSerialize},
    test::test_data::spdp_participant_data,
    RepresentationIdentifier,
  };

  const RTPS_DEFAULT_LEASE_S: u64 = 100;

  // PID_PARTICIPANT_LEASE_DURATION = 0x0002 (RTPS table 9.13); own walk over the ParameterList
  fn strip_lease(b: &[u8], be: bool) -> (Vec<u8>, usize) {
    let rd = |i: usize| if be { u16::from_be_bytes([b[i], b[i + 1]]) } else { u16::from_le_bytes([b[i], b[i + 1]]) };
    let (mut out, mut pos, mut removed) = (vec![], 0, 0);
    loop {
      let (pid, len) = (rd(pos), rd(pos + 2) as usize);
      if pid == 0x0001 {
        out.extend(&b[pos..pos + 4]);
        return (out, removed);
      }
      if pid == 0x0002 { removed += 1; } else { out.extend(&b[pos..pos + 4 + len]); }
      pos += 4 + len;
    }
  }

  // Some(lease reported) if the participant is reported lost after `silence_s` of silence
  fn lost_after(with_lease_param: bool, rep: RepresentationIdentifier, be: bool, silence_s: u64) -> Option<Duration> {
    let (tx, _rx) = mio_channel::sync_channel::<()>(4);
    let (stx, _srx) = sync_status_channel(16).unwrap();
    let mut db = DiscoveryDB::new(GUID::new_participant_guid(), tx, stx);
    let mut announced = spdp_participant_data().unwrap();
    announced.participant_guid = GUID::new(GuidPrefix::new(&[9, 9, 9, 9, 9, 9, 9, 9, 9, 9, 9, 1]), EntityId::PARTICIPANT);
    announced.lease_duration = Some(Duration::from_secs(RTPS_DEFAULT_LEASE_S as i32));
    let wire = announced.to_pl_cdr_bytes(rep).unwrap().to_vec();
    let wire = if with_lease_param {
      wire
    } else {
      let (w, removed) = strip_lease(&wire, be);
      assert!(removed == 1, "vacuity guard: {} lease parameters on the wire", removed);
      w
    };
    let received = SpdpDiscoveredParticipantData::from_pl_cdr_bytes(&wire, rep).unwrap();
    assert!(received.lease_duration.is_some() == with_lease_param);
    db.update_participant(&received);
    let prefix = announced.participant_guid.prefix;
    let past = Instant::now().checked_sub(StdDuration::from_secs(silence_s)).expect("the monotonic clock is younger than the emulated silence");
    *db.participant_last_life_signs.get_mut(&prefix).expect("life sign recorded") = past;
    let lost = db.participant_cleanup();
    let known = db.find_participant_proxy(prefix).is_some();
    match lost.iter().find(|(p, _)| *p == prefix) {
      Some((_, LostReason::Timeout { lease, .. })) => {
        assert!(!known, "reported lost but still listed");
        Some(*lease)
      }
      Some((_, other)) => panic!("XC-WITNESS label=plcdr.spdp.default.lease silence={}s: lost for reason {:?}", silence_s, other),
      None => {
        assert!(known, "not reported lost but no longer listed");
        None
      }
    }
  }

  fn run(silences_kept: &[u64], silences_lost: &[u64], check_reported_lease: bool) {
    let mut n = 0;
    for (rep, be, rname) in [(RepresentationIdentifier::PL_CDR_LE, false, "PL_CDR_LE"), (RepresentationIdentifier::PL_CDR_BE, true, "PL_CDR_BE")] {
      for with_param in [true, false] {
        let what = if with_param { "PID_PARTICIPANT_LEASE_DURATION = {100 s} present" } else { "PID_PARTICIPANT_LEASE_DURATION absent (RTPS default {100 s})" };
        for s in silences_kept {
          let r = lost_after(with_param, rep, be, *s);
          assert!(r.is_none(),
            "XC-WITNESS label=plcdr.spdp.default.lease encoding={} {} silence={}s: the participant is dropped (lease applied = {:?}) although the silence is shorter than the lease of {} s",
            rname, what, s, r, RTPS_DEFAULT_LEASE_S);
          n += 1;
        }
        for s in silences_lost {
          let r = lost_after(with_param, rep, be, *s);
          assert!(r.is_some(),
            "XC-WITNESS label=plcdr.spdp.default.lease encoding={} {} silence={}s: the participant is kept although the silence exceeds the lease of {} s",
            rname, what, s, RTPS_DEFAULT_LEASE_S);
          if check_reported_lease {
            assert!(r == Some(Duration::from_secs(RTPS_DEFAULT_LEASE_S as i32)),
              "XC-WITNESS label=plcdr.spdp.default.lease encoding={} {} silence={}s: lease reported in LostReason::Timeout is {:?}, RTPS prescribes {} s",
              rname, what, s, r, RTPS_DEFAULT_LEASE_S);
          }
          n += 1;
        }
      }
    }
    assert!(n == 4 * (silences_kept.len() + silences_lost.len()) && n >= 12, "vacuity guard: {} cases", n);
  }

  // holds for every default between 60 s and 100 s: catches a default that is shortened or dropped
  #[test]
  fn xc_lease_default_outside_60_100() {
    run(&[0, 30, 59], &[101, 200, 3600], false);
  }

  // Finding F19 (fixed in /repo): discovery_db.rs had DEFAULT_PARTICIPANT_LEASE_DURATION = 60 s, RTPS prescribes {100, 0}.
  // Witness on the old tree: label=plcdr.spdp.default.lease encoding=PL_CDR_LE PID_PARTICIPANT_LEASE_DURATION absent
  //   (RTPS default {100 s}) silence=61s: the participant is dropped (lease applied = Some(60 sec)) although the silence
  //   is shorter than the lease of 100 s   (same for PL_CDR_BE; with the parameter present = {100 s} it is kept)
  #[test]
  fn xc_lease_default_is_100s() {
    run(&[61, 80, 99], &[101], true);
  }
}
