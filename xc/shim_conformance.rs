//@ append: src/structure/sequence_number.rs
// Conformance run for the ASSUMED contracts of vx/shims/btreemap.rs (DESIGN 3.3): every shim
// postcondition is evaluated as an executable predicate on the real std::collections::BTreeMap /
// BTreeSet for all maps with keys in 0..=5 and all arguments in -1..=6.  This does not prove the
// shims (they stay listed as assumed) but catches a mis-stated dependency contract.
// Bound: 64 maps x all keys / bounds / second maps.
#[cfg(test)]
mod verif_xc_shim_conformance {
  use std::collections::{BTreeMap, BTreeSet};
  use std::ops::Bound::{self, Excluded, Included, Unbounded};

  fn all_maps() -> Vec<BTreeMap<i64, i64>> {
    (0u32..64)
      .map(|bits| (0..6).filter(|k| bits & (1 << k) != 0).map(|k| (k as i64, 10 * k as i64 + (bits as i64 % 3))).collect())
      .collect()
  }

  fn in_bounds(k: i64, lo: Bound<i64>, hi: Bound<i64>) -> bool {
    (match lo { Included(l) => l <= k, Excluded(l) => l < k, Unbounded => true })
      && (match hi { Included(h) => k <= h, Excluded(h) => k < h, Unbounded => true })
  }
  fn bounds_ok(lo: Bound<i64>, hi: Bound<i64>) -> bool {
    match (lo, hi) {
      (Included(a), Included(b)) | (Included(a), Excluded(b)) | (Excluded(a), Included(b)) => a <= b,
      (Excluded(a), Excluded(b)) => a < b,
      _ => true,
    }
  }
  fn ascending(v: &[(i64, i64)]) -> bool { v.windows(2).all(|w| w[0].0 < w[1].0) }

  #[test]
  fn xc_shim_btreemap_point_ops() {
    let mut n = 0;
    for m in all_maps() {
      assert_eq!(m.is_empty(), (0..6).all(|k| !m.contains_key(&k)), "XC-WITNESS label=shim.btreemap.is_empty map={:?}", m);
      assert_eq!(m.len(), (0..6).filter(|k| m.contains_key(k)).count(), "XC-WITNESS label=shim.btreemap.len map={:?}", m);
      for k in -1..=6 {
        assert_eq!(m.get(&k).is_some(), m.contains_key(&k), "XC-WITNESS label=shim.btreemap.get map={:?} k={}", m, k);
        // insert
        let mut a = m.clone();
        let r = a.insert(k, 99);
        assert_eq!(r, m.get(&k).copied(), "XC-WITNESS label=shim.btreemap.insert.ret map={:?} k={}", m, k);
        for x in -1..=6 {
          let want = if x == k { Some(99) } else { m.get(&x).copied() };
          assert_eq!(a.get(&x).copied(), want, "XC-WITNESS label=shim.btreemap.insert.view map={:?} k={} x={}", m, k, x);
        }
        // remove
        let mut b = m.clone();
        let r = b.remove(&k);
        assert_eq!(r, m.get(&k).copied(), "XC-WITNESS label=shim.btreemap.remove.ret map={:?} k={}", m, k);
        for x in -1..=6 {
          let want = if x == k { None } else { m.get(&x).copied() };
          assert_eq!(b.get(&x).copied(), want, "XC-WITNESS label=shim.btreemap.remove.view map={:?} k={} x={}", m, k, x);
        }
        // get_mut: writing through the reference updates exactly that entry
        let mut c = m.clone();
        if let Some(v) = c.get_mut(&k) { *v = 77; }
        for x in -1..=6 {
          let want = if x == k && m.contains_key(&k) { Some(77) } else { m.get(&x).copied() };
          assert_eq!(c.get(&x).copied(), want, "XC-WITNESS label=shim.btreemap.get_mut map={:?} k={} x={}", m, k, x);
        }
        // split_off: self keeps x < k, the result has x >= k, values unchanged
        let mut lo = m.clone();
        let hi = lo.split_off(&k);
        for x in -1..=6 {
          assert_eq!(lo.get(&x).copied(), if x < k { m.get(&x).copied() } else { None }, "XC-WITNESS label=shim.btreemap.split_off.self map={:?} k={} x={}", m, k, x);
          assert_eq!(hi.get(&x).copied(), if x >= k { m.get(&x).copied() } else { None }, "XC-WITNESS label=shim.btreemap.split_off.ret map={:?} k={} x={}", m, k, x);
        }
        n += 1;
      }
      // first / last
      assert_eq!(m.first_key_value().map(|(k, v)| (*k, *v)), m.iter().map(|(k, v)| (*k, *v)).min(), "XC-WITNESS label=shim.btreemap.first map={:?}", m);
      assert_eq!(m.last_key_value().map(|(k, v)| (*k, *v)), m.iter().map(|(k, v)| (*k, *v)).max(), "XC-WITNESS label=shim.btreemap.last map={:?}", m);
      // iter / keys / values: ascending, exactly the entries
      let it: Vec<(i64, i64)> = m.iter().map(|(k, v)| (*k, *v)).collect();
      assert!(ascending(&it) && it.len() == m.len() && it.iter().all(|(k, v)| m.get(k) == Some(v)), "XC-WITNESS label=shim.btreemap.iter map={:?}", m);
      assert_eq!(m.keys().copied().collect::<Vec<_>>(), it.iter().map(|e| e.0).collect::<Vec<_>>(), "XC-WITNESS label=shim.btreemap.keys map={:?}", m);
      assert_eq!(m.values().copied().collect::<Vec<_>>(), it.iter().map(|e| e.1).collect::<Vec<_>>(), "XC-WITNESS label=shim.btreemap.values map={:?}", m);
      let mut bk: Vec<(i64, i64)> = vec![];
      let mut r = m.range(..);
      while let Some((k, v)) = r.next_back() { bk.push((*k, *v)); }
      bk.reverse();
      assert_eq!(bk, it, "XC-WITNESS label=shim.btreemap.next_back map={:?}", m);
    }
    assert!(n > 400, "vacuity guard");
  }

  #[test]
  fn xc_shim_btreemap_range_and_append() {
    let bounds = |x: i64| vec![Included(x), Excluded(x), Unbounded];
    let mut n = 0;
    for m in all_maps() {
      for a in -1..=6 {
        for b in -1..=6 {
          for lo in bounds(a) {
            for hi in bounds(b) {
              if !bounds_ok(lo, hi) { continue; } // std panics: the shim states this as `requires`
              let got: Vec<(i64, i64)> = m.range((lo, hi)).map(|(k, v)| (*k, *v)).collect();
              let want: Vec<(i64, i64)> = m.iter().filter(|(k, _)| in_bounds(**k, lo, hi)).map(|(k, v)| (*k, *v)).collect();
              assert!(ascending(&got) && got == want, "XC-WITNESS label=shim.btreemap.range map={:?} bounds=({:?},{:?}): {:?} != {:?}", m, lo, hi, got, want);
              n += 1;
            }
          }
        }
      }
    }
    for m in all_maps().into_iter().step_by(3) {
      for o in all_maps().into_iter().step_by(5) {
        let mut a = m.clone();
        let mut b: BTreeMap<i64, i64> = o.iter().map(|(k, v)| (*k, v + 1000)).collect();
        let b0 = b.clone();
        a.append(&mut b);
        assert!(b.is_empty(), "XC-WITNESS label=shim.btreemap.append.other map={:?} other={:?}", m, o);
        for x in -1..=6 {
          let want = b0.get(&x).or(m.get(&x)).copied(); // union, right (other) preferred
          assert_eq!(a.get(&x).copied(), want, "XC-WITNESS label=shim.btreemap.append.view map={:?} other={:?} x={}", m, b0, x);
        }
        n += 1;
      }
    }
    assert!(n > 10_000, "vacuity guard");
  }

  #[test]
  fn xc_shim_btreeset_ops() {
    let mut n = 0;
    for bits in 0u32..64 {
      let s: BTreeSet<i64> = (0..6).filter(|k| bits & (1 << k) != 0).map(|k| k as i64).collect();
      assert_eq!(s.is_empty(), bits == 0);
      assert_eq!(s.first().copied(), s.iter().copied().min(), "XC-WITNESS label=shim.btreeset.first set={:?}", s);
      assert_eq!(s.last().copied(), s.iter().copied().max(), "XC-WITNESS label=shim.btreeset.last set={:?}", s);
      let v: Vec<i64> = s.iter().copied().collect();
      assert!(v.windows(2).all(|w| w[0] < w[1]) && v.len() == s.len(), "XC-WITNESS label=shim.btreeset.iter set={:?}", s);
      let mut rv: Vec<i64> = s.iter().rev().copied().collect();
      rv.reverse();
      assert_eq!(rv, v, "XC-WITNESS label=shim.btreeset.next_back set={:?}", s);
      for k in -1..=6 {
        let mut a = s.clone();
        assert_eq!(a.insert(k), !s.contains(&k), "XC-WITNESS label=shim.btreeset.insert.ret set={:?} k={}", s, k);
        let mut b = s.clone();
        assert_eq!(b.remove(&k), s.contains(&k), "XC-WITNESS label=shim.btreeset.remove.ret set={:?} k={}", s, k);
        let mut lo = s.clone();
        let hi = lo.split_off(&k);
        for x in -1..=6 {
          assert_eq!(a.contains(&x), x == k || s.contains(&x), "XC-WITNESS label=shim.btreeset.insert.view set={:?} k={} x={}", s, k, x);
          assert_eq!(b.contains(&x), x != k && s.contains(&x), "XC-WITNESS label=shim.btreeset.remove.view set={:?} k={} x={}", s, k, x);
          assert_eq!(lo.contains(&x), x < k && s.contains(&x), "XC-WITNESS label=shim.btreeset.split_off.self set={:?} k={} x={}", s, k, x);
          assert_eq!(hi.contains(&x), x >= k && s.contains(&x), "XC-WITNESS label=shim.btreeset.split_off.ret set={:?} k={} x={}", s, k, x);
        }
        n += 1;
      }
    }
    assert!(n > 400, "vacuity guard");
  }
}
