//@ append: src/discovery/sedp_messages.rs
// Executable contract of the CROSS-PARTICIPANT half of C10 — bounded STAND-IN for the path no deductive
// unit covers: "both sides reach the same verdict". The writer's participant evaluates the READER's QoS
// after it travelled through SEDP (DiscoveredReaderData -> PL_CDR -> DiscoveredReaderData -> .qos()), the
// reader's participant evaluates the WRITER's QoS after the same trip; the verdict function itself
// (QosPolicies::compliance_failure_wrt_impl) is under a complete Kani contract, the trip is not.
// Oracle (from the property statement / DDS 1.4 table 2.2.3, on an own description type `Q`, not on the
//   crate's types): violated(W, R) = the policies BOTH specify whose request/offered rule fails — offered
//   durability / reliability / destination order / liveliness kind at least as strong as requested;
//   offered deadline / latency budget / liveliness lease no longer than requested; equal ownership kind;
//   offered presentation scope >= requested and coherent / ordered access offered if requested.
//   Required for (W, R) AS THE APPLICATIONS SPECIFIED THEM, for both byte orders of PL_CDR:
//   (a) writer side  W.compliance_failure_wrt(sedp(R).qos())  and  reader side
//       sedp(W).qos().compliance_failure_wrt(R)  are both None iff violated(W, R) is empty, and a reported
//       policy is a member of violated(W, R)   [=> both sides reach the same verdict, and the right one];
//   (b) a real Reader with QoS R, told about sedp(W) exactly as DPEventLoop::remote_writer_discovered
//       does, matches the writer (one SubscriptionMatched(+1), contains_writer, a (-1) event when the
//       writer is disposed afterwards) iff violated(W, R) is empty, and otherwise reports exactly one
//       RequestedIncompatibleQos naming a member of violated(W, R) and no match; the same for a real
//       Writer with QoS W told about sedp(R) as DPEventLoop::remote_reader_discovered does
//       (PublicationMatched / OfferedIncompatibleQos, (-1) event on reader_lost).
// Bound: per request/offered policy "unspecified" or 2..12 values incl. the extremes —
//   durability {4 kinds}; presentation {3 scopes x coherent x ordered}; deadline, latency budget
//   {0, 100 ms, 1 s, INFINITE}; ownership {Shared, Exclusive(0), Exclusive(5)}; liveliness {3 kinds x lease 1 s,
//   INFINITE}; reliability {BestEffort, Reliable(max_blocking 0), Reliable(100 ms)}; destination order
//   {2 kinds}.  All 28 PAIRS of policies: writer and reader each run through all value combinations of
//   the two policies (incl. unspecified) while the other policies stay at a baseline; 4 baseline
//   combinations (writer / reader: everything else unspecified | everything else explicitly specified
//   with mutually compatible values, plus lifespan INFINITE, time-based filter, history, resource
//   limits, which travel in the same parameter list); 2 encodings (PL_CDR_LE, PL_CDR_BE).
//   = 39063 (W, R) pairs x 4 baselines x 2 encodings = 312504 cases for (a), for the real Reader and for
//   the real Writer each (one real endpoint per distinct own QoS: 3564 Readers, 3564 Writers).
//   (c) the ANNOUNCEMENT step itself on a real DomainParticipant (test xc_sedp_announced_qos_is_own_qos,
//       oracle and bound in the comment above it): what a DataReader / DataWriter created through the
//       public API with a QoS overriding its Topic's announces is the QoS it judges with.
#[cfg(test)]
mod verif_xc_qos_verdict {
  use std::{
    any::Any,
    fmt,
    rc::Rc,
    sync::{Arc, Mutex, RwLock},
  };

  use mio_extras::channel as mio_channel;

  use super::*;
  use crate::{
    dds::{
      qos::{policy, QosPolicyId},
      statusevents::{
        sync_status_channel, DataReaderStatus, DataWriterStatus, DomainParticipantStatusEvent,
        StatusChannelReceiver, StatusChannelSender,
      },
      typedesc::TypeDesc,
      with_key::simpledatareader::ReaderCommand,
    },
    mio_source,
    network::udp_sender::UDPSender,
    rtps::{
      reader::{Reader, ReaderIngredients},
      writer::{Writer, WriterCommand, WriterIngredients},
    },
    structure::{
      dds_cache::DDSCache,
      duration::Duration,
      guid::{EntityId, EntityKind},
    },
  };

  const TOPIC: &str = "xc_topic";
  const TYPE: &str = "xc_type";

  // ------------------------------------------------------------------ description of a QoS (oracle side)
  // declared from the shortest to the longest: the derived order IS "no longer than"
  #[derive(Clone, Copy, Debug, PartialEq, Eq, PartialOrd, Ord)]
  enum D {
    Zero,
    Ms100,
    Sec1,
    Inf,
  }
  fn dur(d: D) -> Duration {
    match d {
      D::Zero => Duration::ZERO,
      D::Ms100 => Duration::from_millis(100),
      D::Sec1 => Duration::from_secs(1),
      D::Inf => Duration::INFINITE,
    }
  }

  #[derive(Clone, Copy, PartialEq, Eq)]
  struct Q {
    durability: Option<u8>,                 // strength 0 Volatile < 1 TransientLocal < 2 Transient < 3 Persistent
    presentation: Option<(u8, bool, bool)>, // (scope 0 Instance < 1 Topic < 2 Group, coherent, ordered)
    deadline: Option<D>,
    latency: Option<D>,
    ownership: Option<Option<i32>>, // Some(None) Shared, Some(Some(strength)) Exclusive
    liveliness: Option<(u8, D)>,    // (kind 0 Automatic < 1 ManualByParticipant < 2 ManualByTopic, lease)
    reliability: Option<Option<D>>, // Some(None) BestEffort < Some(Some(max_blocking_time)) Reliable
    dest_order: Option<u8>,         // 0 ByReceptionTimestamp < 1 BySourceTimestamp
    extras: bool, // lifespan INFINITE, time-based filter 0, history KeepLast(1), resource limits (not request/offered)
  }
  impl fmt::Debug for Q {
    fn fmt(&self, f: &mut fmt::Formatter<'_>) -> fmt::Result {
      let mut parts: Vec<String> = vec![];
      if let Some(d) = self.durability {
        parts.push(format!("durability={}", ["Volatile", "TransientLocal", "Transient", "Persistent"][d as usize]));
      }
      if let Some((s, c, o)) = self.presentation {
        parts.push(format!("presentation=({},coherent={},ordered={})", ["Instance", "Topic", "Group"][s as usize], c, o));
      }
      if let Some(d) = self.deadline { parts.push(format!("deadline={d:?}")); }
      if let Some(d) = self.latency { parts.push(format!("latency_budget={d:?}")); }
      match self.ownership {
        Some(None) => parts.push("ownership=Shared".to_string()),
        Some(Some(s)) => parts.push(format!("ownership=Exclusive(strength {s})")),
        None => (),
      }
      if let Some((k, l)) = self.liveliness {
        parts.push(format!("liveliness={}(lease {:?})", ["Automatic", "ManualByParticipant", "ManualByTopic"][k as usize], l));
      }
      match self.reliability {
        Some(None) => parts.push("reliability=BestEffort".to_string()),
        Some(Some(b)) => parts.push(format!("reliability=Reliable(max_blocking {b:?})")),
        None => (),
      }
      if let Some(d) = self.dest_order {
        parts.push(format!("destination_order={}", ["ByReception", "BySource"][d as usize]));
      }
      if self.extras { parts.push("+lifespan=Inf,time_based_filter,history,resource_limits".to_string()); }
      write!(f, "{{{}}}", parts.join(", "))
    }
  }

  const NONE: Q = Q {
    durability: None, presentation: None, deadline: None, latency: None, ownership: None,
    liveliness: None, reliability: None, dest_order: None, extras: false,
  };
  // every policy explicitly specified; the same values on both sides are compatible with each other
  const FULL: Q = Q {
    durability: Some(1), presentation: Some((1, true, false)), deadline: Some(D::Sec1), latency: Some(D::Sec1),
    ownership: Some(None), liveliness: Some((1, D::Sec1)), reliability: Some(Some(D::Ms100)), dest_order: Some(0),
    extras: true,
  };
  const BASELINES: [Q; 2] = [NONE, FULL];

  const N_POLICIES: usize = 8;
  // 0 durability, 1 presentation, 2 deadline, 3 latency budget, 4 ownership, 5 liveliness, 6 reliability, 7 destination order
  fn n_values(policy: usize) -> usize {
    [5, 13, 5, 5, 4, 7, 4, 3][policy]
  }
  // value 0 = unspecified
  fn with(mut q: Q, policy: usize, v: usize) -> Q {
    const DUR4: [D; 4] = [D::Zero, D::Ms100, D::Sec1, D::Inf];
    match policy {
      0 => q.durability = if v == 0 { None } else { Some((v - 1) as u8) },
      1 => q.presentation = if v == 0 { None } else { let k = v - 1; Some(((k / 4) as u8, k & 2 != 0, k & 1 != 0)) },
      2 => q.deadline = if v == 0 { None } else { Some(DUR4[v - 1]) },
      3 => q.latency = if v == 0 { None } else { Some(DUR4[v - 1]) },
      4 => q.ownership = [None, Some(None), Some(Some(0)), Some(Some(5))][v],
      5 => q.liveliness = if v == 0 { None } else { let k = v - 1; Some(((k / 2) as u8, [D::Sec1, D::Inf][k % 2])) },
      6 => q.reliability = [None, Some(None), Some(Some(D::Zero)), Some(Some(D::Ms100))][v],
      7 => q.dest_order = if v == 0 { None } else { Some((v - 1) as u8) },
      _ => unreachable!(),
    }
    q
  }
  // all value combinations of policies p and q over a baseline
  fn variants(base: Q, p: usize, q: usize) -> Vec<Q> {
    let mut l = vec![];
    for vp in 0..n_values(p) {
      for vq in 0..n_values(q) {
        l.push(with(with(base, p, vp), q, vq));
      }
    }
    l
  }

  // what the application hands to the endpoint (public builder)
  fn build(q: &Q) -> QosPolicies {
    let mut b = QosPolicies::builder();
    if let Some(d) = q.durability {
      b = b.durability([policy::Durability::Volatile, policy::Durability::TransientLocal, policy::Durability::Transient, policy::Durability::Persistent][d as usize]);
    }
    if let Some((s, coherent_access, ordered_access)) = q.presentation {
      let access_scope = [policy::PresentationAccessScope::Instance, policy::PresentationAccessScope::Topic, policy::PresentationAccessScope::Group][s as usize];
      b = b.presentation(policy::Presentation { access_scope, coherent_access, ordered_access });
    }
    if let Some(d) = q.deadline { b = b.deadline(policy::Deadline(dur(d))); }
    if let Some(d) = q.latency { b = b.latency_budget(policy::LatencyBudget { duration: dur(d) }); }
    match q.ownership {
      Some(None) => b = b.ownership(policy::Ownership::Shared),
      Some(Some(strength)) => b = b.ownership(policy::Ownership::Exclusive { strength }),
      None => (),
    }
    if let Some((k, l)) = q.liveliness {
      let lease_duration = dur(l);
      b = b.liveliness(match k {
        0 => policy::Liveliness::Automatic { lease_duration },
        1 => policy::Liveliness::ManualByParticipant { lease_duration },
        _ => policy::Liveliness::ManualByTopic { lease_duration },
      });
    }
    match q.reliability {
      Some(None) => b = b.reliability(policy::Reliability::BestEffort),
      Some(Some(t)) => b = b.reliability(policy::Reliability::Reliable { max_blocking_time: dur(t) }),
      None => (),
    }
    if let Some(d) = q.dest_order {
      b = b.destination_order([policy::DestinationOrder::ByReceptionTimestamp, policy::DestinationOrder::BySourceTimeStamp][d as usize]);
    }
    if q.extras {
      b = b
        .lifespan(policy::Lifespan { duration: Duration::INFINITE })
        .time_based_filter(policy::TimeBasedFilter { minimum_separation: Duration::ZERO })
        .history(policy::History::KeepLast { depth: 1 })
        .resource_limits(policy::ResourceLimits { max_samples: 8, max_instances: 4, max_samples_per_instance: 2 });
    }
    b.build()
  }

  // ------------------------------------------------------------------ ORACLE: DDS 1.4 request/offered rules
  fn violated(offered: &Q, requested: &Q) -> Vec<QosPolicyId> {
    let mut v = vec![];
    if let (Some(o), Some(r)) = (offered.durability, requested.durability) {
      if !(o >= r) { v.push(QosPolicyId::Durability); }
    }
    if let (Some((os, oc, oo)), Some((rs, rc, ro))) = (offered.presentation, requested.presentation) {
      if !(os >= rs && (oc || !rc) && (oo || !ro)) { v.push(QosPolicyId::Presentation); }
    }
    if let (Some(o), Some(r)) = (offered.deadline, requested.deadline) {
      if !(o <= r) { v.push(QosPolicyId::Deadline); }
    }
    if let (Some(o), Some(r)) = (offered.latency, requested.latency) {
      if !(o <= r) { v.push(QosPolicyId::LatencyBudget); }
    }
    if let (Some(o), Some(r)) = (offered.ownership, requested.ownership) {
      if o.is_some() != r.is_some() { v.push(QosPolicyId::Ownership); } // kind only; strength is not request/offered
    }
    if let (Some((ok, ol)), Some((rk, rl))) = (offered.liveliness, requested.liveliness) {
      if !(ok >= rk && ol <= rl) { v.push(QosPolicyId::Liveliness); }
    }
    if let (Some(o), Some(r)) = (offered.reliability, requested.reliability) {
      if !(o.is_some() >= r.is_some()) { v.push(QosPolicyId::Reliability); } // BestEffort < Reliable; blocking time is not compared
    }
    if let (Some(o), Some(r)) = (offered.dest_order, requested.dest_order) {
      if !(o >= r) { v.push(QosPolicyId::DestinationOrder); }
    }
    v
  }
  fn verdict_ok(verdict: Option<QosPolicyId>, violated: &[QosPolicyId]) -> bool {
    match verdict {
      None => violated.is_empty(),
      Some(p) => violated.contains(&p),
    }
  }
  fn want(violated: &[QosPolicyId]) -> String {
    if violated.is_empty() { "MATCHED (every request/offered rule holds)".to_string() } else { format!("NOT matched, cause one of {violated:?}") }
  }

  // ------------------------------------------------------------------ the SEDP trip
  const ENCODINGS: [(&str, RepresentationIdentifier); 2] =
    [("PL_CDR_LE", RepresentationIdentifier::PL_CDR_LE), ("PL_CDR_BE", RepresentationIdentifier::PL_CDR_BE)];

  fn remote_prefix() -> GuidPrefix { GuidPrefix::new(b"xcRemotePart") }
  fn local_prefix() -> GuidPrefix { GuidPrefix::new(b"xcLocalParti") }
  fn remote_writer_guid() -> GUID { GUID::new(remote_prefix(), EntityId::new([0, 0, 7], EntityKind::WRITER_NO_KEY_USER_DEFINED)) }
  fn remote_reader_guid() -> GUID { GUID::new(remote_prefix(), EntityId::new([0, 0, 8], EntityKind::READER_NO_KEY_USER_DEFINED)) }
  fn participant_guid() -> GUID { GUID::new(remote_prefix(), EntityId::PARTICIPANT) }

  // what the reader's participant learns about the writer: built as pubsub.rs / DiscoveredWriterData::new
  // builds it from the writer's QoS, sent as SEDP sends it, parsed as SEDP parses it
  fn writer_as_seen_remotely(wq: &Q, enc: (&str, RepresentationIdentifier)) -> DiscoveredWriterData {
    let guid = remote_writer_guid();
    let announced = DiscoveredWriterData {
      last_updated: Instant::now(),
      writer_proxy: WriterProxy::new(guid, vec![], vec![]),
      publication_topic_data: PublicationBuiltinTopicData::new_with_qos(guid, Some(participant_guid()), TOPIC.to_string(), TYPE.to_string(), &build(wq), None),
    };
    let bytes = announced.to_pl_cdr_bytes(enc.1).unwrap_or_else(|e| {
      panic!("XC-WITNESS label=c10.sedp.transport writer_qos={:?} encoding={}: the writer's announcement cannot be encoded ({:?}), so the reader's side never reaches a verdict", wq, enc.0, e)
    });
    DiscoveredWriterData::from_pl_cdr_bytes(&bytes, enc.1).unwrap_or_else(|e| {
      panic!("XC-WITNESS label=c10.sedp.transport writer_qos={:?} encoding={}: the writer's own announcement is rejected by the parser ({:?}), so the reader's side never reaches a verdict", wq, enc.0, e)
    })
  }
  // what the writer's participant learns about the reader: built as DiscoveryDB::update_local_topic_reader does
  fn reader_as_seen_remotely(rq: &Q, enc: (&str, RepresentationIdentifier)) -> DiscoveredReaderData {
    let guid = remote_reader_guid();
    let announced = DiscoveredReaderData {
      reader_proxy: ReaderProxy::new(guid, false, vec![], vec![]),
      subscription_topic_data: SubscriptionBuiltinTopicData::new(guid, Some(participant_guid()), TOPIC.to_string(), TYPE.to_string(), &build(rq), None),
      content_filter: None,
    };
    let bytes = announced.to_pl_cdr_bytes(enc.1).unwrap_or_else(|e| {
      panic!("XC-WITNESS label=c10.sedp.transport reader_qos={:?} encoding={}: the reader's announcement cannot be encoded ({:?}), so the writer's side never reaches a verdict", rq, enc.0, e)
    });
    DiscoveredReaderData::from_pl_cdr_bytes(&bytes, enc.1).unwrap_or_else(|e| {
      panic!("XC-WITNESS label=c10.sedp.transport reader_qos={:?} encoding={}: the reader's own announcement is rejected by the parser ({:?}), so the writer's side never reaches a verdict", rq, enc.0, e)
    })
  }

  // every (policy pair, writer baseline, reader baseline): the writer variants and the reader variants
  fn for_each_block(mut f: impl FnMut(&[Q], &[Q])) {
    // baselines outermost, "others unspecified" first: the first failing case is a small one
    for bw in BASELINES {
      for br in BASELINES {
        for p in 0..N_POLICIES {
          for q in p + 1..N_POLICIES {
            f(&variants(bw, p, q), &variants(br, p, q));
          }
        }
      }
    }
  }
  // sum over the 28 policy pairs of (number of writer variants x number of reader variants), x 4 baselines
  fn n_pairs_per_encoding() -> u64 {
    let mut s = 0u64;
    for p in 0..N_POLICIES { for q in p + 1..N_POLICIES { let k = (n_values(p) * n_values(q)) as u64; s += k * k; } }
    assert!(s == 39063);
    4 * s
  }

  // ------------------------------------------------------------------ (a) the two call-site expressions
  #[test]
  fn xc_sedp_both_sides_same_verdict() {
    let mut n = 0u64;
    let (mut n_matched, mut n_unmatched) = (0u64, 0u64);
    for_each_block(|ws, rs| {
      for enc in ENCODINGS {
        let ws_seen: Vec<QosPolicies> = ws.iter().map(|w| writer_as_seen_remotely(w, enc).publication_topic_data.qos()).collect();
        let rs_seen: Vec<QosPolicies> = rs.iter().map(|r| reader_as_seen_remotely(r, enc).subscription_topic_data.qos()).collect();
        let ws_own: Vec<QosPolicies> = ws.iter().map(build).collect();
        let rs_own: Vec<QosPolicies> = rs.iter().map(build).collect();
        for (iw, w) in ws.iter().enumerate() {
          for (ir, r) in rs.iter().enumerate() {
            let bad = violated(w, r);
            // the expressions of DPEventLoop::remote_reader_discovered + Writer::update_reader_proxy ...
            let at_writer = ws_own[iw].compliance_failure_wrt(&rs_seen[ir]);
            // ... and of DPEventLoop::remote_writer_discovered + Reader::update_writer_proxy
            let at_reader = ws_seen[iw].compliance_failure_wrt(&rs_own[ir]);
            assert!(verdict_ok(at_reader, &bad),
              "XC-WITNESS label=c10.sedp.reader-side writer_qos={:?} reader_qos={:?} encoding={}: the reader's participant decides {:?} (None = matched) from the writer's QoS as it arrives over SEDP; the request/offered rules on the QoS the two applications specified give {} (writer's participant decides {:?}); writer's QoS as received: {:?}",
              w, r, enc.0, at_reader, want(&bad), at_writer, ws_seen[iw]);
            assert!(verdict_ok(at_writer, &bad),
              "XC-WITNESS label=c10.sedp.writer-side writer_qos={:?} reader_qos={:?} encoding={}: the writer's participant decides {:?} (None = matched) from the reader's QoS as it arrives over SEDP; the request/offered rules on the QoS the two applications specified give {} (reader's participant decides {:?}); reader's QoS as received: {:?}",
              w, r, enc.0, at_writer, want(&bad), at_reader, rs_seen[ir]);
            // implied by the two above; kept as the literal clause of the statement
            assert!(at_writer.is_none() == at_reader.is_none(),
              "XC-WITNESS label=c10.sedp.same-verdict writer_qos={:?} reader_qos={:?} encoding={}: writer's participant decides {:?}, reader's participant decides {:?}", w, r, enc.0, at_writer, at_reader);
            n += 1;
            if bad.is_empty() { n_matched += 1 } else { n_unmatched += 1 }
          }
        }
      }
    });
    assert!(n == 2 * n_pairs_per_encoding(), "vacuity guard: {} cases enumerated, expected {}", n, 2 * n_pairs_per_encoding());
    assert!(n_matched > 50_000 && n_unmatched > 50_000, "vacuity guard: {} matched / {} unmatched cases", n_matched, n_unmatched);
  }

  // ------------------------------------------------------------------ (b) through the real endpoints
  struct Shared {
    udp_sender: Rc<UDPSender>,
    participant_status_sender: StatusChannelSender<DomainParticipantStatusEvent>,
    participant_status: StatusChannelReceiver<DomainParticipantStatusEvent>,
  }
  impl Shared {
    fn new() -> Self {
      let (participant_status_sender, participant_status) = sync_status_channel(16).unwrap();
      Shared { udp_sender: Rc::new(UDPSender::new(0).unwrap()), participant_status_sender, participant_status }
    }
    fn drain(&self) { while self.participant_status.try_recv().is_ok() {} }
  }

  #[derive(PartialEq)]
  enum Obs {
    Matched(GUID, i32),              // remote endpoint, current.count_change
    Incompatible(GUID, QosPolicyId), // remote endpoint, reported cause
    Other(String),
  }
  impl fmt::Debug for Obs {
    fn fmt(&self, f: &mut fmt::Formatter<'_>) -> fmt::Result {
      let who = |g: &GUID| if *g == remote_writer_guid() || *g == remote_reader_guid() { String::new() } else { format!(" for an endpoint nobody announced: {g:?}") };
      match self {
        Obs::Matched(g, change) => write!(f, "Matched({change:+}){}", who(g)),
        Obs::Incompatible(g, p) => write!(f, "IncompatibleQos({p:?}){}", who(g)),
        Obs::Other(s) => write!(f, "{s}"),
      }
    }
  }

  fn real_reader(sh: &Shared, own: &QosPolicies) -> (Reader, StatusChannelReceiver<DataReaderStatus>, Box<dyn Any>) {
    let dds_cache = Arc::new(RwLock::new(DDSCache::new()));
    let topic_cache_handle = dds_cache.write().unwrap().add_new_topic(TOPIC.to_string(), TypeDesc::new(TYPE.to_string()), own);
    let (notification_sender, nr) = mio_channel::sync_channel::<()>(100);
    let (nes, poll_event_sender) = mio_source::make_poll_channel().unwrap();
    let (status_sender, status) = sync_status_channel::<DataReaderStatus>(16).unwrap();
    let (rcs, data_reader_command_receiver) = mio_channel::sync_channel::<ReaderCommand>(10);
    let reader = Reader::new(
      ReaderIngredients {
        guid: GUID::new(local_prefix(), EntityId::new([0, 0, 1], EntityKind::READER_NO_KEY_USER_DEFINED)),
        notification_sender,
        status_sender,
        topic_name: TOPIC.to_string(),
        topic_cache_handle,
        like_stateless: false,
        qos_policy: own.clone(),
        data_reader_command_receiver,
        data_reader_waker: Arc::new(Mutex::new(None)),
        poll_event_sender,
        security_plugins: None,
      },
      Rc::clone(&sh.udp_sender),
      mio_extras::timer::Builder::default().build(),
      sh.participant_status_sender.clone(),
    );
    (reader, status, Box::new((dds_cache, nr, nes, rcs)))
  }
  fn drain_reader(status: &StatusChannelReceiver<DataReaderStatus>) -> Vec<Obs> {
    let mut v = vec![];
    while let Ok(s) = status.try_recv() {
      v.push(match s {
        DataReaderStatus::SubscriptionMatched { current, writer, .. } => Obs::Matched(writer, current.count_change()),
        DataReaderStatus::RequestedIncompatibleQos { last_policy_id, writer, .. } => Obs::Incompatible(writer, last_policy_id),
        other => Obs::Other(format!("{other:?}")),
      });
    }
    v
  }

  #[test]
  fn xc_sedp_real_reader_matches_iff_rxo() {
    let sh = Shared::new();
    let mut n = 0u64;
    let (mut n_matched, mut n_unmatched) = (0u64, 0u64);
    let g = remote_writer_guid();
    for_each_block(|ws, rs| {
      let seen: Vec<Vec<DiscoveredWriterData>> = ENCODINGS.iter().map(|&enc| ws.iter().map(|w| writer_as_seen_remotely(w, enc)).collect()).collect();
      for r in rs {
        let (mut reader, status, _keep) = real_reader(&sh, &build(r));
        for (iw, w) in ws.iter().enumerate() {
          let bad = violated(w, r);
          for (ie, enc) in ENCODINGS.iter().enumerate() {
            let remote_writer = &seen[ie][iw];
            // the two statements of DPEventLoop::remote_writer_discovered
            let offered_qos = remote_writer.publication_topic_data.qos();
            reader.update_writer_proxy(RtpsWriterProxy::from_discovered_writer_data(remote_writer, &[], &[]), &offered_qos);
            let events = drain_reader(&status);
            let in_set = reader.contains_writer(g.entity_id);
            reader.remove_writer_proxy(g);
            let after = drain_reader(&status);
            sh.drain();
            let ok = if bad.is_empty() {
              events == [Obs::Matched(g, 1)] && in_set && after == [Obs::Matched(g, -1)]
            } else {
              matches!(events.as_slice(), [Obs::Incompatible(who, p)] if *who == g && bad.contains(p)) && !in_set && after.is_empty()
            };
            assert!(ok,
              "XC-WITNESS label=c10.sedp.reader-endpoint writer_qos={:?} reader_qos={:?} encoding={}: a real Reader told about the writer as announced over SEDP reports {:?}, has the writer in its match set: {}, and reports {:?} when the writer is disposed; the request/offered rules on the QoS the two applications specified give {} (required: exactly one SubscriptionMatched(+1) and membership, or exactly one RequestedIncompatibleQos naming a violated policy and no membership); writer's QoS as received: {:?}",
              w, r, enc.0, events, in_set, after, want(&bad), offered_qos);
            n += 1;
            if bad.is_empty() { n_matched += 1 } else { n_unmatched += 1 }
          }
        }
      }
    });
    assert!(n == 2 * n_pairs_per_encoding(), "vacuity guard: {} cases enumerated, expected {}", n, 2 * n_pairs_per_encoding());
    assert!(n_matched > 50_000 && n_unmatched > 50_000, "vacuity guard: {} matched / {} unmatched cases", n_matched, n_unmatched);
  }

  fn real_writer(sh: &Shared, own: &QosPolicies) -> (Writer, StatusChannelReceiver<DataWriterStatus>, Box<dyn Any>) {
    let (cmd_s, writer_command_receiver) = mio_channel::sync_channel::<WriterCommand>(10);
    let (status_sender, status) = sync_status_channel::<DataWriterStatus>(16).unwrap();
    let writer = Writer::new(
      WriterIngredients {
        guid: GUID::new(local_prefix(), EntityId::new([0, 0, 2], EntityKind::WRITER_NO_KEY_USER_DEFINED)),
        writer_command_receiver,
        writer_command_receiver_waker: Arc::new(Mutex::new(None)),
        topic_name: TOPIC.to_string(),
        like_stateless: false,
        qos_policies: own.clone(),
        status_sender,
        security_plugins: None,
      },
      Rc::clone(&sh.udp_sender),
      mio_extras::timer::Builder::default().build(),
      sh.participant_status_sender.clone(),
    );
    (writer, status, Box::new(cmd_s))
  }
  fn drain_writer(status: &StatusChannelReceiver<DataWriterStatus>) -> Vec<Obs> {
    let mut v = vec![];
    while let Ok(s) = status.try_recv() {
      v.push(match s {
        DataWriterStatus::PublicationMatched { current, reader, .. } => Obs::Matched(reader, current.count_change()),
        DataWriterStatus::OfferedIncompatibleQos { last_policy_id, reader, .. } => Obs::Incompatible(reader, last_policy_id),
        other => Obs::Other(format!("{other:?}")),
      });
    }
    v
  }

  #[test]
  fn xc_sedp_real_writer_matches_iff_rxo() {
    let sh = Shared::new();
    let mut n = 0u64;
    let (mut n_matched, mut n_unmatched) = (0u64, 0u64);
    let g = remote_reader_guid();
    for_each_block(|ws, rs| {
      let seen: Vec<Vec<DiscoveredReaderData>> = ENCODINGS.iter().map(|&enc| rs.iter().map(|r| reader_as_seen_remotely(r, enc)).collect()).collect();
      for w in ws {
        let (mut writer, status, _keep) = real_writer(&sh, &build(w));
        for (ir, r) in rs.iter().enumerate() {
          let bad = violated(w, r);
          for (ie, enc) in ENCODINGS.iter().enumerate() {
            let remote_reader = &seen[ie][ir];
            // the two statements of DPEventLoop::remote_reader_discovered
            let requested_qos = remote_reader.subscription_topic_data.qos();
            writer.update_reader_proxy(&RtpsReaderProxy::from_discovered_reader_data(remote_reader, &[], &[]), &requested_qos);
            let events = drain_writer(&status);
            writer.reader_lost(g);
            let after = drain_writer(&status);
            sh.drain();
            let ok = if bad.is_empty() {
              events == [Obs::Matched(g, 1)] && after == [Obs::Matched(g, -1)]
            } else {
              matches!(events.as_slice(), [Obs::Incompatible(who, p)] if *who == g && bad.contains(p)) && after.is_empty()
            };
            assert!(ok,
              "XC-WITNESS label=c10.sedp.writer-endpoint writer_qos={:?} reader_qos={:?} encoding={}: a real Writer told about the reader as announced over SEDP reports {:?}, and {:?} when the reader is lost afterwards; the request/offered rules on the QoS the two applications specified give {} (required: exactly one PublicationMatched(+1) and a (-1) on loss, or exactly one OfferedIncompatibleQos naming a violated policy and nothing on loss); reader's QoS as received: {:?}",
              w, r, enc.0, events, after, want(&bad), requested_qos);
            n += 1;
            if bad.is_empty() { n_matched += 1 } else { n_unmatched += 1 }
          }
        }
      }
    });
    assert!(n == 2 * n_pairs_per_encoding(), "vacuity guard: {} cases enumerated, expected {}", n, 2 * n_pairs_per_encoding());
    assert!(n_matched > 50_000 && n_unmatched > 50_000, "vacuity guard: {} matched / {} unmatched cases", n_matched, n_unmatched);
  }

  // ------------------------------------------------------------------ (c) the announcement of a REAL local endpoint
  // What a DataReader / DataWriter created through the public API announces about itself: the record the
  // DiscoveryDB keeps for SEDP (get_local_topic_reader / get_local_topic_writer), after the PL_CDR trip.
  // Oracle: an endpoint specifies, per policy, the value given at its creation, else the one of its Topic
  // (Subscriber / Publisher QoS empty); (c10.announce.own) that is the QoS the endpoint itself holds (qos(),
  // what its RTPS Reader / Writer judges with); (c10.announce.reader / .writer) the announcement carries
  // exactly that on every request/offered policy; and for every writer and reader created on the same Topic
  // the two call-site expressions of (a), on the ANNOUNCED data of the other side and the OWN QoS of the
  // judging side, give the verdict of violated(specified W, specified R).
  // Bound: ONE real DomainParticipant (domain 83); 6 policies x {unspecified, 2 values}: durability
  //   {Volatile, TransientLocal}, deadline {1 s, INFINITE}, ownership {Shared, Exclusive(5)}, liveliness
  //   {Automatic INFINITE, ManualByTopic 1 s}, reliability {BestEffort, Reliable(100 ms)}, destination
  //   order {2}; all 15 pairs of policies: Topic QoS T and endpoint QoS E each through all 9 combinations
  //   of the two policies -> per pair 9 Topics, 81 DataReaders, 81 DataWriters (2430 endpoints in all),
  //   and 9 x 9 x 9 (writer, reader) verdict pairs per pair of policies, both encodings.
  const ANNOUNCE_VALUES: [(usize, [usize; 3]); 6] =
    [(0, [0, 1, 2]), (2, [0, 3, 4]), (4, [0, 1, 3]), (5, [0, 2, 5]), (6, [0, 1, 3]), (7, [0, 1, 2])];

  type Rxo = (
    Option<policy::Durability>, Option<policy::Presentation>, Option<policy::Deadline>, Option<policy::LatencyBudget>,
    Option<policy::Ownership>, Option<policy::Liveliness>, Option<policy::Reliability>, Option<policy::DestinationOrder>,
  );
  fn rxo_part(q: &QosPolicies) -> Rxo {
    (q.durability(), q.presentation(), q.deadline(), q.latency_budget(), q.ownership(), q.liveliness(), q.reliability(), q.destination_order())
  }
  // per policy: the endpoint's explicit value, else the Topic's
  fn specified(topic: &Q, explicit: &Q) -> Q {
    Q {
      durability: explicit.durability.or(topic.durability),
      presentation: explicit.presentation.or(topic.presentation),
      deadline: explicit.deadline.or(topic.deadline),
      latency: explicit.latency.or(topic.latency),
      ownership: explicit.ownership.or(topic.ownership),
      liveliness: explicit.liveliness.or(topic.liveliness),
      reliability: explicit.reliability.or(topic.reliability),
      dest_order: explicit.dest_order.or(topic.dest_order),
      extras: false,
    }
  }
  fn retry<T, E: fmt::Debug>(what: &str, mut f: impl FnMut() -> Result<T, E>) -> T {
    let mut last = None;
    for _ in 0..1500 {
      match f() {
        Ok(x) => return x,
        Err(e) => { last = Some(e); std::thread::sleep(std::time::Duration::from_millis(2)); } // command queue to the event loop full
      }
    }
    panic!("could not create {what}: {last:?}");
  }

  #[test]
  fn xc_sedp_announced_qos_is_own_qos() {
    use crate::{dds::topic::TopicKind, test::random_data::RandomData, DomainParticipant};
    let dp = DomainParticipant::new(83).expect("participant creation failed");
    let publisher = dp.create_publisher(&QosPolicies::qos_none()).unwrap();
    let subscriber = dp.create_subscriber(&QosPolicies::qos_none()).unwrap();
    let db = dp.discovery_db();
    let (mut n_endpoints, mut n_overriding, mut n_verdicts) = (0u64, 0u64, 0u64);
    let (mut n_matched, mut n_unmatched) = (0u64, 0u64);
    let mut topic_no = 0;
    for a in 0..ANNOUNCE_VALUES.len() {
      for b in a + 1..ANNOUNCE_VALUES.len() {
        let ((p, vp), (q, vq)) = (ANNOUNCE_VALUES[a], ANNOUNCE_VALUES[b]);
        let mut combos = vec![];
        for x in vp { for y in vq { combos.push(with(with(NONE, p, x), q, y)); } }
        for t in &combos {
          topic_no += 1;
          let topic = dp.create_topic(format!("xc_announce_{topic_no}"), "RandomData".to_string(), &build(t), TopicKind::WithKey).unwrap();
          // (specified QoS, own QoS, announced record per encoding)
          let mut readers: Vec<(Q, QosPolicies, Vec<QosPolicies>)> = vec![];
          let mut writers: Vec<(Q, QosPolicies, Vec<QosPolicies>)> = vec![];
          for e in &combos {
            let spec = specified(t, e);
            let explicit = if *e == NONE { None } else { Some(build(e)) };
            // ---- DataReader
            let reader = retry("DataReader", || subscriber.create_datareader_cdr::<RandomData>(&topic, explicit.clone()));
            let own = reader.qos();
            assert!(rxo_part(&own) == rxo_part(&build(&spec)),
              "XC-WITNESS label=c10.announce.own topic_qos={:?} reader_created_with={:?}: the DataReader holds {:?}; specified (explicit value, else the Topic's) is {:?}", t, e, own, spec);
            let record = db.read().unwrap().get_local_topic_reader(reader.guid()).cloned();
            let record = record.unwrap_or_else(|| panic!("XC-WITNESS label=c10.announce.reader topic_qos={:?} reader_created_with={:?}: the new DataReader has no record to announce in the DiscoveryDB", t, e));
            let mut seen = vec![];
            for enc in ENCODINGS {
              let bytes = record.to_pl_cdr_bytes(enc.1).unwrap_or_else(|err| panic!("XC-WITNESS label=c10.sedp.transport topic_qos={:?} reader_created_with={:?} encoding={}: the DataReader's announcement cannot be encoded ({:?})", t, e, enc.0, err));
              let announced = DiscoveredReaderData::from_pl_cdr_bytes(&bytes, enc.1).unwrap_or_else(|err| panic!("XC-WITNESS label=c10.sedp.transport topic_qos={:?} reader_created_with={:?} encoding={}: the DataReader's announcement is rejected by the parser ({:?})", t, e, enc.0, err));
              let announced = announced.subscription_topic_data.qos();
              assert!(rxo_part(&announced) == rxo_part(&own),
                "XC-WITNESS label=c10.announce.reader topic_qos={:?} reader_created_with={:?} encoding={}: the DataReader judges offers against its own QoS {:?} but announces the request {:?} to the writers (they must be the same on every request/offered policy, else the two sides decide on different requests)", t, e, enc.0, spec, announced);
              seen.push(announced);
            }
            readers.push((spec, own, seen));
            drop(reader);
            // ---- DataWriter
            let writer = retry("DataWriter", || publisher.create_datawriter_cdr::<RandomData>(&topic, explicit.clone()));
            let own = writer.qos();
            assert!(rxo_part(&own) == rxo_part(&build(&spec)),
              "XC-WITNESS label=c10.announce.own topic_qos={:?} writer_created_with={:?}: the DataWriter holds {:?}; specified (explicit value, else the Topic's) is {:?}", t, e, own, spec);
            let record = db.read().unwrap().get_local_topic_writer(writer.guid()).cloned();
            let record = record.unwrap_or_else(|| panic!("XC-WITNESS label=c10.announce.writer topic_qos={:?} writer_created_with={:?}: the new DataWriter has no record to announce in the DiscoveryDB", t, e));
            let mut seen = vec![];
            for enc in ENCODINGS {
              let bytes = record.to_pl_cdr_bytes(enc.1).unwrap_or_else(|err| panic!("XC-WITNESS label=c10.sedp.transport topic_qos={:?} writer_created_with={:?} encoding={}: the DataWriter's announcement cannot be encoded ({:?})", t, e, enc.0, err));
              let announced = DiscoveredWriterData::from_pl_cdr_bytes(&bytes, enc.1).unwrap_or_else(|err| panic!("XC-WITNESS label=c10.sedp.transport topic_qos={:?} writer_created_with={:?} encoding={}: the DataWriter's announcement is rejected by the parser ({:?})", t, e, enc.0, err));
              let announced = announced.publication_topic_data.qos();
              assert!(rxo_part(&announced) == rxo_part(&own),
                "XC-WITNESS label=c10.announce.writer topic_qos={:?} writer_created_with={:?} encoding={}: the DataWriter judges requests against its own QoS {:?} but announces the offer {:?} to the readers (they must be the same on every request/offered policy, else the two sides decide on different offers)", t, e, enc.0, spec, announced);
              seen.push(announced);
            }
            writers.push((spec, own, seen));
            drop(writer);
            n_endpoints += 2;
            if *e != NONE && spec != *t { n_overriding += 2; }
          }
          // ---- both sides, every writer x reader created on this Topic
          for (w, w_own, w_seen) in &writers {
            for (r, r_own, r_seen) in &readers {
              let bad = violated(w, r);
              for (ie, enc) in ENCODINGS.iter().enumerate() {
                let at_writer = w_own.compliance_failure_wrt(&r_seen[ie]);
                let at_reader = w_seen[ie].compliance_failure_wrt(r_own);
                assert!(verdict_ok(at_reader, &bad),
                  "XC-WITNESS label=c10.sedp.reader-side topic_qos={:?} writer_qos={:?} reader_qos={:?} encoding={}: the reader's participant decides {:?} (None = matched) from the DataWriter's announcement; the request/offered rules on the specified QoS give {} (writer's participant decides {:?}); announced offer: {:?}",
                  t, w, r, enc.0, at_reader, want(&bad), at_writer, w_seen[ie]);
                assert!(verdict_ok(at_writer, &bad),
                  "XC-WITNESS label=c10.sedp.writer-side topic_qos={:?} writer_qos={:?} reader_qos={:?} encoding={}: the writer's participant decides {:?} (None = matched) from the DataReader's announcement; the request/offered rules on the specified QoS give {} (reader's participant decides {:?}); announced request: {:?}",
                  t, w, r, enc.0, at_writer, want(&bad), at_reader, r_seen[ie]);
                n_verdicts += 1;
                if bad.is_empty() { n_matched += 1 } else { n_unmatched += 1 }
              }
            }
          }
        }
      }
    }
    assert!(n_endpoints == 2 * 15 * 81 && n_overriding > 1000, "vacuity guard: {} endpoints, {} of them overriding their Topic's QoS", n_endpoints, n_overriding);
    assert!(n_verdicts == 2 * 15 * 729 && n_matched > 2000 && n_unmatched > 2000, "vacuity guard: {} verdicts ({} matched / {} unmatched)", n_verdicts, n_matched, n_unmatched);
  }
}
