//@ append: src/dds/readcondition.rs
// Helper half of xc/datasample_cache.rs (C08). The mask fields of `ReadCondition` are private to
// this module and the public API builds only `any()` and `not_read()`, so the constructor for the
// other mask triples used by the executable contract of DataSampleCache has to live here.
// Own test: the constructor and the three getters round-trip for all 4 x 4 x 8 mask triples, and
// the two public constructors are the triples (ANY, ANY, ANY) and (NOT_READ, ANY, ANY)
// (DDS 1.4 2.2.2.5.8: ANY_*_STATE = all states of the kind).
#[cfg(test)]
pub(crate) mod verif_xc_readcondition_masks {
  use super::*;

  pub(crate) fn from_bits(ss: u32, vs: u32, is: u32) -> ReadCondition {
    assert!(ss & !0b11 == 0 && vs & !0b11 == 0 && is & !0b111 == 0, "not a mask triple: {} {} {}", ss, vs, is);
    ReadCondition {
      sample_state_mask: BitFlags::<SampleState>::from_bits_truncate(ss),
      view_state_mask: BitFlags::<ViewState>::from_bits_truncate(vs),
      instance_state_mask: BitFlags::<InstanceState>::from_bits_truncate(is),
    }
  }

  #[test]
  fn xc_rc_masks_roundtrip() {
    let mut n = 0;
    for ss in 0..4u32 {
      for vs in 0..4u32 {
        for is in 0..8u32 {
          let rc = from_bits(ss, vs, is);
          assert!(
            rc.sample_state_mask().bits() == ss && rc.view_state_mask().bits() == vs && rc.instance_state_mask().bits() == is,
            "XC-WITNESS label=c08.select.ctors masks=({:#b},{:#b},{:#b}): getters return ({:#b},{:#b},{:#b})",
            ss, vs, is, rc.sample_state_mask().bits(), rc.view_state_mask().bits(), rc.instance_state_mask().bits()
          );
          n += 1;
        }
      }
    }
    assert!(n == 128, "vacuity guard: {} mask triples", n);
    assert!(SampleState::Read as u32 == 0b01 && SampleState::NotRead as u32 == 0b10, "XC-WITNESS label=c08.select.ctors: SampleState bit values changed");
    assert!(ViewState::New as u32 == 0b01 && ViewState::NotNew as u32 == 0b10, "XC-WITNESS label=c08.select.ctors: ViewState bit values changed");
    assert!(
      InstanceState::Alive as u32 == 0b001 && InstanceState::NotAliveDisposed as u32 == 0b010 && InstanceState::NotAliveNoWriters as u32 == 0b100,
      "XC-WITNESS label=c08.select.ctors: InstanceState bit values changed"
    );
    assert!(ReadCondition::any() == from_bits(0b11, 0b11, 0b111), "XC-WITNESS label=c08.select.ctors: ReadCondition::any() is {:?}, not (ANY, ANY, ANY)", ReadCondition::any());
    assert!(ReadCondition::not_read() == from_bits(0b10, 0b11, 0b111), "XC-WITNESS label=c08.select.ctors: ReadCondition::not_read() is {:?}, not (NOT_READ, ANY, ANY)", ReadCondition::not_read());
  }
}
