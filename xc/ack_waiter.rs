//@ append: src/rtps/writer.rs
// Executable contract of the writer side of wait_for_acknowledgments (C20) — bounded stand-in /
// witness search on the REAL AckWaiter / Writer.
//
// Oracle (written from the property statement, not from the code):
//   A wait is issued when the event loop processes `WriterCommand::WaitForAcknowledgments`.  Let
//   R0 = the reliable readers matched at that moment, last0 = the last sequence number written
//   before it.  A reader g in R0 is *done* iff it has acknowledged every sample written before
//   the call (it sent an ACKNACK whose base is > last0 — before or after the call; "has
//   acknowledged" never becomes false again) or it has since been lost.  At every moment
//       number of success tokens offered so far on the caller's channel
//            == 1  if every reader in R0 is done  (in particular if R0 is empty: promptly, during
//                  the command itself; otherwise by the very event that makes the condition true)
//            == 0  otherwise (the wait stays pending);
//   readers matched after the call, best-effort readers, unknown readers and samples written
//   after the call never matter.
//   "Acknowledged every sample written before the call" is read as in assumption 1 of
//   obligations/C20.json: the writer has seen an ACKNACK of that reader with base > last0.  Corner
//   worth knowing: last0 == 0 (nothing written yet) with a matched reliable reader that has not sent
//   any ACKNACK yet counts as "not acknowledged" (the wait is armed until its first ACKNACK with
//   base >= 1 or its loss), although the set of samples written before the call is empty.
//   AckWaiter level (mirrors ackw.acked.* / ackw.update.* of unit ack_waiter): an event
//   (g, None | Some(base)) removes exactly g from the pending set iff None or wait_until < base
//   (base == wait_until + 1 acknowledges wait_until, base == wait_until does not), the result is
//   "pending set now empty", and update_ack_waiters offers a token iff that happens on an armed wait.
//
// Bound:
//   (1) xc_ackw_*: pending sets = all subsets of {g1,g2,g3}, wait_until 0..=4, events on g1..g3
//       and on a never-pending g4, acked_before in {None, Some(0..=6)}  (all 1280 combinations,
//       plus the unarmed writer).
//   (2) xc_wfa_*: a real Writer (reliable, stateful) with history last_seq = L in 0..=3 written
//       through real DDSData commands; three reader slots g1,g2,g3 (g1/g2 share the GUID prefix,
//       g1/g3 share the entity id), each slot absent | best-effort | reliable; all_acked_before
//       established by real ACKNACKs before the call;
//       - xc_wfa_arm_full_ranges: all_acked_before in 0..=4 for reliable AND best-effort slots
//         (11^3 configurations per L), every single event ACKNACK(g, base 0..=5) / reader_lost(g) /
//         (re)match(g) / participant_lost(prefix) afterwards;
//       - xc_wfa_sequences_last{0,1_a,1_b,2_a,…}: reliable all_acked_before in {0, L, L+1}, best-effort 0;
//         EVERY sequence of <= 3 events over ACKNACK(g1..g3, base in {0, L, L+1, L+2}) and
//         reader_lost(g1..g3); checked after every step (1.4 million sequences);
//       - xc_wfa_sequences_len2_all_events: same configurations, every sequence of <= 2 events over
//         ACKNACK(g1..g3, base 0..=L+2), reader_lost(g), (re)match-a-reliable-reader(g),
//         participant_lost(prefix A | prefix B);
//       - xc_wfa_later_writes: samples written after the call do not extend or shorten the wait.
//   Everything goes through Writer::process_writer_command / Writer::handle_ack_nack /
//   Writer::reader_lost / Writer::participant_lost / Writer::update_reader_proxy; the observation is try_recv on the
//   receiving side of the caller's sync_status_channel.
//   (2b) xc_wfa_two_waits_*: histories with two sequential waits (the first one abandoned) on the
//       real Writer; bound and oracle stated at that section.
//   (3) datawriter_side::xc_dw_*: the REAL with_key::DataWriter (wait_for_acknowledgments and
//       async_wait_for_acknowledgments) with a captured command channel; bound and oracle stated
//       at that submodule.
//   Not covered: overlapping waits (assumption ackw.assume.no_overlap: every wait in this module
//   is issued while no other one is armed); waker registration of the future (C13).
#[cfg(test)]
mod verif_xc_ack_waiter {
  use std::{
    collections::BTreeSet,
    rc::Rc,
    sync::{Arc, Mutex},
  };

  use mio_extras::channel as mio_channel;

  use super::*;
  use crate::{
    dds::{
      ddsdata::DDSData,
      qos::{policy::Reliability, QosPolicies, QosPolicyBuilder},
      statusevents::{
        sync_status_channel, DataWriterStatus, DomainParticipantStatusEvent, StatusChannelReceiver,
        StatusChannelSender,
      },
      with_key::datawriter::WriteOptions,
    },
    messages::submessages::{
      elements::serialized_payload::SerializedPayload,
      submessages::{AckNack, AckSubmessage},
    },
    network::udp_sender::UDPSender,
    structure::{
      duration::Duration,
      guid::{EntityId, EntityKind, GuidPrefix, GUID},
      sequence_number::{SequenceNumber, SequenceNumberSet},
    },
    RepresentationIdentifier,
  };

  fn sn(i: i64) -> SequenceNumber {
    SequenceNumber::new(i)
  }

  // g1 and g2 share the prefix, g1 and g3 share the entity id; g4 is never matched / pending
  fn guids() -> [GUID; 4] {
    let pa = GuidPrefix::new(b"xcAckReaderA");
    let pb = GuidPrefix::new(b"xcAckReaderB");
    let e1 = EntityId::new([0, 0, 1], EntityKind::READER_NO_KEY_USER_DEFINED);
    let e2 = EntityId::new([0, 0, 2], EntityKind::READER_NO_KEY_USER_DEFINED);
    [
      GUID::new(pa, e1),
      GUID::new(pa, e2),
      GUID::new(pb, e1),
      GUID::new(pb, e2),
    ]
  }
  fn gname(i: usize) -> &'static str {
    ["g1", "g2", "g3", "g4"][i]
  }

  fn reliable_qos() -> QosPolicies {
    QosPolicyBuilder::new()
      .reliability(Reliability::Reliable {
        max_blocking_time: Duration::from_millis(100),
      })
      .build()
  }
  // slot 2 (g2) is best-effort by default (no reliability policy), the others say so explicitly
  fn best_effort_qos(slot: usize) -> QosPolicies {
    if slot == 1 {
      QosPolicies::qos_none()
    } else {
      QosPolicyBuilder::new()
        .reliability(Reliability::BestEffort)
        .build()
    }
  }

  // ------------------------------------------------------------------------------------------
  // rig: one real Writer, the sending side of its command channel, the caller's completion channel
  // ------------------------------------------------------------------------------------------
  struct Rig {
    w: Writer,
    cmd: mio_channel::SyncSender<WriterCommand>,
    all_acked: StatusChannelSender<()>,
    all_acked_rx: StatusChannelReceiver<()>,
    _status_rx: StatusChannelReceiver<DataWriterStatus>,
    _pstatus_rx: StatusChannelReceiver<DomainParticipantStatusEvent>,
    g: [GUID; 4],
    acknack_count: i32,
    written: i64,
  }

  fn small_timer() -> Timer<TimedEvent> {
    mio_extras::timer::Builder::default().capacity(4096).build()
  }

  impl Rig {
    fn new() -> Rig {
      let (cmd, writer_command_receiver) = mio_channel::sync_channel::<WriterCommand>(16);
      let (status_sender, _status_rx) = sync_status_channel::<DataWriterStatus>(4).unwrap();
      let (participant_status_sender, _pstatus_rx) = sync_status_channel(4).unwrap();
      // capacity > 1 so that a second (forbidden) success token would be seen, not dropped
      let (all_acked, all_acked_rx) = sync_status_channel::<()>(8).unwrap();
      let ing = WriterIngredients {
        guid: GUID::dummy_test_guid(EntityKind::WRITER_NO_KEY_USER_DEFINED),
        writer_command_receiver,
        writer_command_receiver_waker: Arc::new(Mutex::new(None)),
        topic_name: "verif_xc_ack_waiter".to_string(),
        like_stateless: false,
        qos_policies: reliable_qos(),
        status_sender,
        security_plugins: None,
      };
      let w = Writer::new(
        ing,
        Rc::new(UDPSender::new(0).unwrap()),
        small_timer(),
        participant_status_sender,
      );
      Rig {
        w,
        cmd,
        all_acked,
        all_acked_rx,
        _status_rx,
        _pstatus_rx,
        g: guids(),
        acknack_count: 0,
        written: 0,
      }
    }

    // number of success tokens offered since the last look
    fn tokens(&self) -> usize {
      let mut n = 0;
      while self.all_acked_rx.try_recv().is_ok() {
        n += 1;
      }
      n
    }

    // the application writes one more sample (real command path)
    fn write_one(&mut self) {
      self.written += 1;
      self
        .cmd
        .try_send(WriterCommand::DDSData {
          ddsdata: DDSData::new(SerializedPayload::new(
            RepresentationIdentifier::CDR_LE,
            vec![self.written as u8; 4],
          )),
          write_options: WriteOptions::default(),
          sequence_number: sn(self.written),
        })
        .unwrap_or_else(|_| panic!("harness: cannot send sample"));
      self.w.process_writer_command();
      assert!(
        self.w.history_buffer.last_change_sequence_number() == sn(self.written),
        "harness: history last_seq"
      );
    }

    fn match_reader(&mut self, slot: usize, reliable: bool) {
      let qos = if reliable {
        reliable_qos()
      } else {
        best_effort_qos(slot)
      };
      let rp = RtpsReaderProxy::new(self.g[slot], qos.clone(), false);
      self.w.update_reader_proxy(&rp, &qos);
    }

    fn acknack(&mut self, slot: usize, base: i64) {
      self.acknack_count += 1;
      let an = AckSubmessage::AckNack(AckNack {
        reader_id: self.g[slot].entity_id,
        writer_id: self.w.guid().entity_id,
        reader_sn_state: SequenceNumberSet::new_empty(sn(base)),
        count: self.acknack_count,
      });
      self.w.handle_ack_nack(self.g[slot].prefix, &an);
    }

    fn lost(&mut self, slot: usize) {
      self.w.reader_lost(self.g[slot]);
    }

    // the application calls wait_for_acknowledgments: the command reaches the event loop
    fn wait_command(&mut self) {
      self
        .cmd
        .try_send(WriterCommand::WaitForAcknowledgments {
          all_acked: self.all_acked.clone(),
        })
        .unwrap_or_else(|_| panic!("harness: cannot send wait command"));
      self.w.process_writer_command();
    }

    // an earlier wait of the application, on its own channel
    fn wait_command_on(&mut self, all_acked: StatusChannelSender<()>) {
      self
        .cmd
        .try_send(WriterCommand::WaitForAcknowledgments { all_acked })
        .unwrap_or_else(|_| panic!("harness: cannot send wait command"));
      self.w.process_writer_command();
    }

    // a fresh history (only for the two-wait histories, where samples are written inside a case)
    fn reset_history(&mut self) {
      self.w.history_buffer = HistoryBuffer::new("verif_xc_ack_waiter".to_string());
      self.written = 0;
    }

    // back to "no reader matched, no wait armed" (assumption ackw.assume.no_overlap), history kept
    fn reset(&mut self) {
      for slot in 0..3 {
        self.lost(slot);
      }
      self.w.ack_waiter = None;
      self.tokens();
      assert!(self.w.readers.is_empty(), "harness: readers left after reset");
    }
  }

  // ------------------------------------------------------------------------------------------
  // configuration, events, model
  // ------------------------------------------------------------------------------------------
  #[derive(Clone, Copy, PartialEq, Eq)]
  enum Slot {
    Absent,
    BestEffort(i64), // all_acked_before at call time (0 = no ACKNACK seen yet)
    Reliable(i64),
  }
  impl std::fmt::Debug for Slot {
    fn fmt(&self, f: &mut std::fmt::Formatter<'_>) -> std::fmt::Result {
      match self {
        Slot::Absent => write!(f, "-"),
        Slot::BestEffort(a) => write!(f, "best-effort(all_acked_before={})", a),
        Slot::Reliable(a) => write!(f, "reliable(all_acked_before={})", a),
      }
    }
  }

  #[derive(Clone, Copy, PartialEq, Eq)]
  enum Ev {
    Ack(usize, i64), // ACKNACK from reader slot with this base
    Lost(usize),     // reader_lost(slot)
    Match(usize),    // a reliable reader is (re)matched under this GUID after the call
    PLost(usize),    // participant_lost(prefix of this slot): g1 and g2 share one
    Write,           // the application writes one more sample after the call
  }
  impl std::fmt::Debug for Ev {
    fn fmt(&self, f: &mut std::fmt::Formatter<'_>) -> std::fmt::Result {
      match self {
        Ev::Ack(s, b) => write!(f, "ACKNACK({},base={})", gname(*s), b),
        Ev::Lost(s) => write!(f, "reader_lost({})", gname(*s)),
        Ev::Match(s) => write!(f, "match_reliable({})", gname(*s)),
        Ev::PLost(s) => write!(f, "participant_lost(prefix of {})", gname(*s)),
        Ev::Write => write!(f, "write_sample"),
      }
    }
  }

  // The property statement, executable.  done[i] is meaningful for the readers in R0 only.
  struct Model {
    last0: i64,
    in_r0: [bool; 3],
    done: [bool; 3],
    prefix_of: [u8; 3],
  }
  impl Model {
    fn at_call(cfg: &[Slot; 3], last0: i64) -> Model {
      let mut m = Model {
        last0,
        in_r0: [false; 3],
        done: [false; 3],
        prefix_of: [b'A', b'A', b'B'], // see guids()
      };
      for i in 0..3 {
        if let Slot::Reliable(acked_before) = cfg[i] {
          m.in_r0[i] = true;
          // acknowledged every sample written before the call: all SNs < acked_before, i.e. last0 too
          m.done[i] = acked_before > last0;
        }
      }
      m
    }
    fn event(&mut self, e: Ev) {
      match e {
        Ev::Ack(i, base) => {
          if base > self.last0 {
            self.done[i] = true;
          }
        }
        Ev::Lost(i) => self.done[i] = true,
        // the whole remote participant was lost: every reader of it that is matched now
        Ev::PLost(i) => {
          for j in 0..3 {
            if self.prefix_of[j] == self.prefix_of[i] {
              self.done[j] = true;
            }
          }
        }
        Ev::Match(_) | Ev::Write => (),
      }
    }
    fn condition(&self) -> bool {
      (0..3).all(|i| !self.in_r0[i] || self.done[i])
    }
    fn waiting_for(&self) -> String {
      let v: Vec<&str> = (0..3)
        .filter(|i| self.in_r0[*i] && !self.done[*i])
        .map(gname)
        .collect();
      format!("{{{}}}", v.join(","))
    }
  }

  fn setup(rig: &mut Rig, cfg: &[Slot; 3]) {
    rig.reset();
    for (i, s) in cfg.iter().enumerate() {
      let (reliable, acked) = match *s {
        Slot::Absent => continue,
        Slot::BestEffort(a) => (false, a),
        Slot::Reliable(a) => (true, a),
      };
      rig.match_reader(i, reliable);
      if acked > 0 {
        rig.acknack(i, acked); // no wait is armed now
      }
      let got = rig.w.readers.get(&rig.g[i]).map(|rp| i64::from(rp.all_acked_before));
      assert!(got == Some(acked), "XC-WITNESS label=harness.setup last_seq={} readers={:?}: cannot establish the configuration: after matching {} and its ACKNACK(base={}) (no wait armed) the writer's record of it has all_acked_before={:?}", rig.written, cfg, gname(i), acked, got);
    }
    assert!(rig.tokens() == 0, "harness: token before the call");
  }

  fn apply(rig: &mut Rig, e: Ev) {
    match e {
      Ev::Ack(i, b) => rig.acknack(i, b),
      Ev::Lost(i) => rig.lost(i),
      Ev::Match(i) => rig.match_reader(i, true),
      Ev::PLost(i) => rig.w.participant_lost(rig.g[i].prefix),
      Ev::Write => rig.write_one(),
    }
  }

  // one wait on an already set-up rig: the call, then the events; oracle checked after every step
  fn run_wait(rig: &mut Rig, last0: i64, cfg: &[Slot; 3], events: &[Ev]) {
    run_wait_after(rig, &"", last0, cfg, events)
  }

  // the same after some earlier history `pre` (printed in the witness): `cfg` = the readers as they
  // are matched now
  fn run_wait_after(rig: &mut Rig, pre: &dyn std::fmt::Display, last0: i64, cfg: &[Slot; 3], events: &[Ev]) {
    let mut m = Model::at_call(cfg, last0);
    rig.wait_command();
    let t = rig.tokens();
    if m.condition() {
      assert!(t >= 1, "XC-WITNESS label=ackw.arm.prompt {}last_seq={} readers={:?}: no reliable matched reader is behind, success must be reported promptly, but no success token was offered while the command was processed", pre, last0, cfg);
      assert!(t == 1, "XC-WITNESS label=ackw.update.once {}last_seq={} readers={:?}: {} success tokens offered for one wait at the call", pre, last0, cfg, t);
    } else {
      assert!(t == 0, "XC-WITNESS label=ackw.arm.pending {}last_seq={} readers={:?}: success reported at the call ({} token) although {} matched reliable and not acknowledged up to {}", pre, last0, cfg, t, m.waiting_for(), last0);
    }
    let mut reported = t;
    for k in 0..events.len() {
      let before = m.condition();
      m.event(events[k]);
      apply(rig, events[k]);
      let t = rig.tokens();
      reported += t;
      let want = usize::from(m.condition());
      if reported > want && !m.condition() {
        panic!("XC-WITNESS label=ackw.lemma.iff {}last_seq={} readers={:?} events={:?}: success reported by event #{} although {} (matched reliable at the call) neither acknowledged up to sequence number {} (ACKNACK base beyond it) nor was lost", pre, last0, cfg, &events[..=k], k + 1, m.waiting_for(), last0);
      }
      if reported > want {
        panic!("XC-WITNESS label=ackw.lemma.once {}last_seq={} readers={:?} events={:?}: {} success tokens offered for one wait (the extra one by event #{})", pre, last0, cfg, &events[..=k], reported, k + 1);
      }
      if reported < want {
        panic!("XC-WITNESS label=ackw.lemma.as_soon_as {}last_seq={} readers={:?} events={:?}: after event #{} every reliable reader matched at the call has acknowledged up to sequence number {} or was lost (condition {} before this event), but no success token was offered: the wait stays pending", pre, last0, cfg, &events[..=k], k + 1, last0, if before { "already true" } else { "false" });
      }
    }
  }

  fn slot_options(reliable_acked: &[i64], best_effort_acked: &[i64]) -> Vec<Slot> {
    let mut v = vec![Slot::Absent];
    v.extend(best_effort_acked.iter().map(|a| Slot::BestEffort(*a)));
    v.extend(reliable_acked.iter().map(|a| Slot::Reliable(*a)));
    v
  }

  fn dedup(mut v: Vec<i64>) -> Vec<i64> {
    v.sort_unstable();
    v.dedup();
    v
  }

  // every configuration over `slots`^3, every event sequence of length exactly `len` over `events`
  // (the shorter ones are their prefixes: the oracle is checked after every step).
  // `part` = (k, n): only the sequences whose first event has index k modulo n (to split the work
  // over several #[test] functions that run in parallel); (0, 1) = all.
  fn enumerate(rig: &mut Rig, last0: i64, slots: &[Slot], events: &[Ev], len: usize, part: (usize, usize)) -> u64 {
    assert!(rig.written == last0 && len >= 1 && part.0 < part.1 && part.0 < events.len(), "harness: enumerate");
    let mut n = 0u64;
    let ne = events.len();
    for &s1 in slots {
      for &s2 in slots {
        for &s3 in slots {
          let cfg = [s1, s2, s3];
          rig.w.timed_event_timer = small_timer(); // repair timers set by ACKNACKs pile up otherwise
          let mut idx = vec![0usize; len];
          idx[0] = part.0;
          'seqs: loop {
            let evs: Vec<Ev> = idx.iter().map(|i| events[*i]).collect();
            setup(rig, &cfg);
            run_wait(rig, last0, &cfg, &evs);
            n += 1;
            // next sequence (last position runs fastest)
            let mut p = len;
            loop {
              p -= 1;
              idx[p] += if p == 0 { part.1 } else { 1 };
              if idx[p] < ne {
                break;
              }
              if p == 0 {
                break 'seqs;
              }
              idx[p] = 0;
            }
          }
        }
      }
    }
    n
  }

  // ------------------------------------------------------------------------------------------
  // (1) AckWaiter level
  // ------------------------------------------------------------------------------------------
  fn subset(g: &[GUID; 4], mask: u8) -> BTreeSet<GUID> {
    (0..3).filter(|i| mask & (1 << i) != 0).map(|i| g[i]).collect()
  }
  fn names(g: &[GUID; 4], s: &BTreeSet<GUID>) -> String {
    let v: Vec<&str> = (0..4).filter(|i| s.contains(&g[*i])).map(gname).collect();
    format!("{{{}}}", v.join(","))
  }
  fn acked_values() -> Vec<Option<i64>> {
    let mut v = vec![None];
    v.extend((0..=6).map(Some));
    v
  }

  #[test]
  fn xc_ackw_reader_acked_or_lost() {
    let g = guids();
    let (tx, rx) = sync_status_channel::<()>(8).unwrap();
    let mut n = 0u64;
    for mask in 0..8u8 {
      for wu in 0..=4i64 {
        for gi in 0..4usize {
          for a in acked_values() {
            let pending = subset(&g, mask);
            let mut aw = AckWaiter {
              wait_until: sn(wu),
              complete_channel: tx.clone(),
              readers_pending: pending.clone(),
            };
            let r = aw.reader_acked_or_lost(g[gi], a.map(sn));
            // lost, or acknowledged everything below base with wait_until below base
            let no_longer_waited_for = match a {
              None => true,
              Some(base) => base > wu,
            };
            let mut want = pending.clone();
            if no_longer_waited_for {
              want.remove(&g[gi]);
            }
            assert!(aw.readers_pending == want, "XC-WITNESS label=ackw.acked.set pending={} wait_until={} event=({}, acked_before={:?}): pending afterwards is {}, must be {} (a reader leaves exactly when it is lost or its ACKNACK base is > wait_until)", names(&g, &pending), wu, gname(gi), a, names(&g, &aw.readers_pending), names(&g, &want));
            assert!(r == want.is_empty(), "XC-WITNESS label=ackw.acked.result pending={} wait_until={} event=({}, acked_before={:?}): returned complete={} but readers still waited for = {}", names(&g, &pending), wu, gname(gi), a, r, names(&g, &want));
            assert!(aw.wait_until == sn(wu), "XC-WITNESS label=ackw.acked.frame pending={} wait_until={} event=({}, acked_before={:?}): wait_until changed to {:?}", names(&g, &pending), wu, gname(gi), a, aw.wait_until);
            assert!(rx.try_recv().is_err(), "XC-WITNESS label=ackw.signal.only_if pending={} wait_until={} event=({}, acked_before={:?}): reader_acked_or_lost itself offered a success token", names(&g, &pending), wu, gname(gi), a);
            n += 1;
          }
        }
      }
    }
    assert!(n >= 1280, "vacuity guard: only {} cases enumerated", n);
  }

  #[test]
  fn xc_ackw_update_ack_waiters() {
    let mut rig = Rig::new();
    let g = rig.g;
    let mut n = 0u64;
    // no wait armed: nothing happens
    for gi in 0..4usize {
      for a in acked_values() {
        rig.w.ack_waiter = None;
        rig.w.update_ack_waiters(g[gi], a.map(sn));
        let t = rig.tokens();
        assert!(t == 0 && rig.w.ack_waiter.is_none(), "XC-WITNESS label=ackw.update.once no wait armed, event=({}, acked_before={:?}): {} success token(s) offered / a wait appeared", gname(gi), a, t);
        n += 1;
      }
    }
    for mask in 0..8u8 {
      for wu in 0..=4i64 {
        for gi in 0..4usize {
          for a in acked_values() {
            let pending = subset(&g, mask);
            rig.w.ack_waiter = Some(AckWaiter {
              wait_until: sn(wu),
              complete_channel: rig.all_acked.clone(),
              readers_pending: pending.clone(),
            });
            rig.w.update_ack_waiters(g[gi], a.map(sn));
            let mut want = pending.clone();
            if a.map_or(true, |base| base > wu) {
              want.remove(&g[gi]);
            }
            let t = rig.tokens();
            let ctx = format!("pending={} wait_until={} event=({}, acked_before={:?})", names(&g, &pending), wu, gname(gi), a);
            if want.is_empty() {
              assert!(t >= 1, "XC-WITNESS label=ackw.update.signal {}: nobody is waited for any more but no success token was offered", ctx);
              assert!(t == 1 && rig.w.ack_waiter.is_none(), "XC-WITNESS label=ackw.update.once {}: {} tokens offered, wait still armed = {}", ctx, t, rig.w.ack_waiter.is_some());
            } else {
              assert!(t == 0, "XC-WITNESS label=ackw.update.signal {}: success token offered although {} still have to acknowledge", ctx, names(&g, &want));
              match &rig.w.ack_waiter {
                None => panic!("XC-WITNESS label=ackw.update.once {}: the wait was dropped without success although {} still have to acknowledge", ctx, names(&g, &want)),
                Some(aw) => {
                  assert!(aw.readers_pending == want && aw.wait_until == sn(wu), "XC-WITNESS label=ackw.update.once {}: armed wait is now (pending={}, wait_until={:?}), must be (pending={}, wait_until={})", ctx, names(&g, &aw.readers_pending), aw.wait_until, names(&g, &want), wu);
                }
              }
            }
            n += 1;
          }
        }
      }
    }
    assert!(n >= 1280 + 32, "vacuity guard: only {} cases enumerated", n);
  }

  // ------------------------------------------------------------------------------------------
  // (2) Writer level
  // ------------------------------------------------------------------------------------------
  #[test]
  fn xc_wfa_arm_full_ranges() {
    let t0 = std::time::Instant::now();
    let mut rig = Rig::new();
    let acked: Vec<i64> = (0..=4).collect();
    let slots = slot_options(&acked, &acked);
    let mut events = vec![Ev::PLost(0), Ev::PLost(2)];
    for i in 0..3 {
      for b in 0..=5 {
        events.push(Ev::Ack(i, b));
      }
      events.push(Ev::Lost(i));
      events.push(Ev::Match(i));
    }
    let mut n = 0u64;
    for last in 0..=3i64 {
      if last > 0 {
        rig.write_one();
      }
      n += enumerate(&mut rig, last, &slots, &events, 1, (0, 1));
    }
    eprintln!("xc_wfa_arm_full_ranges: {} cases in {:?}", n, t0.elapsed());
    assert!(n >= 4 * 1331 * 26, "vacuity guard: only {} cases enumerated", n);
  }

  fn sequences(last: i64, part: (usize, usize)) {
    let t0 = std::time::Instant::now();
    let mut rig = Rig::new();
    for _ in 0..last {
      rig.write_one();
    }
    let slots = slot_options(&dedup(vec![0, last, last + 1]), &[0]);
    let mut events = vec![];
    for i in 0..3 {
      for b in dedup(vec![0, last, last + 1, last + 2]) {
        events.push(Ev::Ack(i, b));
      }
      events.push(Ev::Lost(i));
    }
    // shortest sequences first, so that the first witness found is a short one
    let n: u64 = (1..=3).map(|len| enumerate(&mut rig, last, &slots, &events, len, part)).sum();
    eprintln!("sequences(last={}, part {:?}): {} cases ({} slot options, {} events) in {:?}", last, part, n, slots.len(), events.len(), t0.elapsed());
    assert!(n as usize >= 64 * 12 * 12 * 12 / part.1, "vacuity guard: only {} sequences enumerated", n);
  }
  #[test]
  fn xc_wfa_sequences_last0() {
    sequences(0, (0, 1));
  }
  #[test]
  fn xc_wfa_sequences_last1_a() {
    sequences(1, (0, 2));
  }
  #[test]
  fn xc_wfa_sequences_last1_b() {
    sequences(1, (1, 2));
  }
  #[test]
  fn xc_wfa_sequences_last2_a() {
    sequences(2, (0, 2));
  }
  #[test]
  fn xc_wfa_sequences_last2_b() {
    sequences(2, (1, 2));
  }
  #[test]
  fn xc_wfa_sequences_last3_a() {
    sequences(3, (0, 2));
  }
  #[test]
  fn xc_wfa_sequences_last3_b() {
    sequences(3, (1, 2));
  }

  // all event kinds (also readers matched after the call, loss of a whole participant), all bases
  #[test]
  fn xc_wfa_sequences_len2_all_events() {
    let t0 = std::time::Instant::now();
    let mut rig = Rig::new();
    let mut n = 0u64;
    for last in 0..=3i64 {
      if last > 0 {
        rig.write_one();
      }
      let slots = slot_options(&dedup(vec![0, last, last + 1]), &[0]);
      let mut events = vec![Ev::PLost(0), Ev::PLost(2)];
      for i in 0..3 {
        for b in 0..=last + 2 {
          events.push(Ev::Ack(i, b));
        }
        events.push(Ev::Lost(i));
        events.push(Ev::Match(i));
      }
      n += enumerate(&mut rig, last, &slots, &events, 1, (0, 1));
      n += enumerate(&mut rig, last, &slots, &events, 2, (0, 1));
    }
    eprintln!("xc_wfa_sequences_len2_all_events: {} cases in {:?}", n, t0.elapsed());
    assert!(n >= 200_000, "vacuity guard: only {} sequences enumerated", n);
  }

  // samples written after the call: "every sample written BEFORE the call" stays the target
  #[test]
  fn xc_wfa_later_writes() {
    let mut n = 0u64;
    for last in 0..=2i64 {
      for later in 1..=2usize {
        for acked in dedup(vec![0, last, last + 1]) {
          for second in [Slot::Absent, Slot::Reliable(0), Slot::BestEffort(0)] {
            for base in last..=last + 3 {
              for lose_second in [false, true] {
                let mut rig = Rig::new();
                for _ in 0..last {
                  rig.write_one();
                }
                let cfg = [Slot::Reliable(acked), second, Slot::Absent];
                let mut evs = vec![Ev::Write; later];
                evs.push(Ev::Ack(0, base));
                if lose_second {
                  evs.push(Ev::Lost(1));
                } else {
                  evs.push(Ev::Ack(1, base));
                }
                evs.push(Ev::Write);
                evs.push(Ev::Ack(0, last + 4));
                evs.push(Ev::Ack(1, last + 4));
                setup(&mut rig, &cfg);
                run_wait(&mut rig, last, &cfg, &evs);
                n += 1;
              }
            }
          }
        }
      }
    }
    assert!(n >= 300, "vacuity guard: only {} cases enumerated", n);
  }

  // ------------------------------------------------------------------------------------------
  // (2b) two sequential waits on one writer: the first one is over from the application's point of
  //      view (timed out / its future dropped: nobody listens on its channel any more) when the
  //      second one is made — this is not the overlapping-waits case.  History:
  //        write 1..=L1; match readers; wait#1; events E1; write L1+1..=L2; wait#2; events E2
  //      Oracle for wait#2 only, from the statement: success iff every reliable reader matched
  //      WHEN WAIT#2 WAS MADE has acknowledged everything written before wait#2 (base > L2) or has
  //      since been lost; what wait#1 was waiting for is irrelevant.
  //      The readers at wait#2 are the model's own account of match / lost / ACKNACK events
  //      (highest base seen since the reader was matched; sequences in which a reader's ACKNACK
  //      base decreases are skipped), cross-checked against the writer's record (harness.model).
  // Bound: (L1, L2) in {(1,2), (2,4)}; g1, g2 each best-effort | reliable with all_acked_before 0 or
  //      L1+1, g3 absent | reliable(0); E1 over ACKNACK(g, base in {L1+1, L2, L2+1}) / reader_lost(g)
  //      / match-reliable(g) (g3 absent: a reader matched between the waits), E2 over
  //      ACKNACK(g, base in {L2, L2+1}) / reader_lost(g); every (E1, E2) with |E1| <= 2 and
  //      |E1| + |E2| <= 3, shortest first; for |E1| + |E2| <= 1 also with the receiver of wait#1 really dropped.
  // ------------------------------------------------------------------------------------------
  struct TwoWaits<'a> {
    l1: i64,
    l2: i64,
    cfg: &'a [Slot; 3],
    e1: &'a [Ev],
    rx1_dropped: bool,
  }
  impl std::fmt::Display for TwoWaits<'_> {
    fn fmt(&self, f: &mut std::fmt::Formatter<'_>) -> std::fmt::Result {
      write!(f, "history=[write 1..={}; readers={:?}; wait#1 (abandoned{}); {:?}; write {}..={}; wait#2] at wait#2: ", self.l1, self.cfg,
        if self.rx1_dropped { ", receiver dropped" } else { "" }, self.e1, self.l1 + 1, self.l2)
    }
  }

  // the readers as the statement sees them after `e1`; None = a reader's ACKNACK base decreases
  fn readers_after(cfg: &[Slot; 3], e1: &[Ev]) -> Option<[Slot; 3]> {
    let mut r = *cfg;
    for e in e1 {
      match *e {
        Ev::Ack(i, base) => match r[i] {
          Slot::Absent => (), // not a matched reader: the writer does not know it
          Slot::BestEffort(a) | Slot::Reliable(a) if base.max(1) < a => return None,
          Slot::BestEffort(_) => r[i] = Slot::BestEffort(base.max(1)),
          Slot::Reliable(_) => r[i] = Slot::Reliable(base.max(1)),
        },
        Ev::Lost(i) => r[i] = Slot::Absent,
        Ev::Match(i) => {
          r[i] = match r[i] {
            Slot::Absent => Slot::Reliable(0), // newly matched: nothing acknowledged yet
            Slot::BestEffort(a) | Slot::Reliable(a) => Slot::Reliable(a), // same reader, now reliable
          }
        }
        Ev::PLost(_) | Ev::Write => unreachable!(),
      }
    }
    Some(r)
  }

  fn two_waits(rig: &mut Rig, l1: i64, l2: i64, third: &[Slot]) -> u64 {
    let mut n = 0u64;
    let (abandoned_tx, _abandoned_rx) = sync_status_channel::<()>(8).unwrap();
    let first_two = [Slot::BestEffort(0), Slot::Reliable(0), Slot::Reliable(l1 + 1)];
    let mut ev1 = vec![];
    let mut ev2 = vec![];
    for i in 0..3 {
      for b in dedup(vec![l1 + 1, l2, l2 + 1]) {
        ev1.push(Ev::Ack(i, b));
      }
      ev1.push(Ev::Lost(i));
      ev1.push(Ev::Match(i));
      ev2.push(Ev::Ack(i, l2));
      ev2.push(Ev::Ack(i, l2 + 1));
      ev2.push(Ev::Lost(i));
    }
    for &s1 in &first_two {
      for &s2 in &first_two {
        for &s3 in third {
          let cfg = [s1, s2, s3];
          rig.w.timed_event_timer = small_timer();
          for total in 0..=3usize {
            for a in 0..=total.min(2) {
              let b = total - a;
              let mut i1 = vec![0usize; a];
              'e1: loop {
                let e1: Vec<Ev> = i1.iter().map(|i| ev1[*i]).collect();
                if let Some(cfg2) = readers_after(&cfg, &e1) {
                  let mut i2 = vec![0usize; b];
                  'e2: loop {
                    let e2: Vec<Ev> = i2.iter().map(|i| ev2[*i]).collect();
                    for rx1_dropped in [false, true] {
                      if rx1_dropped && total > 1 {
                        continue;
                      }
                      // ---- the history on the real writer
                      rig.reset_history();
                      for _ in 0..l1 {
                        rig.write_one();
                      }
                      setup(rig, &cfg);
                      if rx1_dropped {
                        let (tx, rx) = sync_status_channel::<()>(1).unwrap();
                        rig.wait_command_on(tx);
                        drop(rx);
                      } else {
                        rig.wait_command_on(abandoned_tx.clone());
                      }
                      for e in &e1 {
                        apply(rig, *e);
                      }
                      for _ in l1..l2 {
                        rig.write_one();
                      }
                      let pre = TwoWaits { l1, l2, cfg: &cfg, e1: &e1, rx1_dropped };
                      for i in 0..3 {
                        let real = match rig.w.readers.get(&rig.g[i]) {
                          None => Slot::Absent,
                          Some(rp) if rp.qos().is_reliable() => Slot::Reliable(i64::from(rp.all_acked_before)),
                          Some(rp) => Slot::BestEffort(i64::from(rp.all_acked_before)),
                        };
                        assert!(real == cfg2[i], "XC-WITNESS label=harness.model {}the writer's record of {} is {:?}, the history says {:?}", pre, gname(i), real, cfg2[i]);
                      }
                      assert!(rig.tokens() == 0, "harness: token on the channel of wait#2 before wait#2");
                      // ---- wait#2 and what follows, against the statement
                      run_wait_after(rig, &pre, l2, &cfg2, &e2);
                      n += 1;
                    }
                    if !next_index(&mut i2, ev2.len()) {
                      break 'e2;
                    }
                  }
                }
                if !next_index(&mut i1, ev1.len()) {
                  break 'e1;
                }
              }
            }
          }
        }
      }
    }
    n
  }

  // odometer over `idx` (last position fastest); false when it wraps around (also for length 0)
  fn next_index(idx: &mut [usize], base: usize) -> bool {
    let mut p = idx.len();
    while p > 0 {
      p -= 1;
      idx[p] += 1;
      if idx[p] < base {
        return true;
      }
      idx[p] = 0;
    }
    false
  }

  fn two_waits_test(l1: i64, l2: i64, third: Slot) {
    let t0 = std::time::Instant::now();
    let n = two_waits(&mut Rig::new(), l1, l2, &[third]);
    eprintln!("two_waits({}, {}, g3 {:?}): {} histories in {:?}", l1, l2, third, n, t0.elapsed());
    assert!(n >= 15_000, "vacuity guard: only {} histories enumerated", n);
  }
  #[test]
  fn xc_wfa_two_waits_1_2_a() {
    two_waits_test(1, 2, Slot::Absent);
  }
  #[test]
  fn xc_wfa_two_waits_1_2_b() {
    two_waits_test(1, 2, Slot::Reliable(0));
  }
  #[test]
  fn xc_wfa_two_waits_2_4_a() {
    two_waits_test(2, 4, Slot::Absent);
  }
  #[test]
  fn xc_wfa_two_waits_2_4_b() {
    two_waits_test(2, 4, Slot::Reliable(0));
  }

  // ---- two OVERLAPPING waits (the caller of wait#1 is still listening when wait#2 arrives).  The writer has
  // one waiter slot; whatever it does with the displaced waiter, the statement forbids telling wait#1 "yes"
  // unless every reliable reader matched at wait#1 acknowledged everything written before wait#1 or was lost
  // (seed C20g: a Drop impl on the waiter sent the token when the slot was overwritten).
  // Bound: L1 in 1..=2 samples before wait#1, 0..=1 more before wait#2; g1 reliable with acked in {0, L1};
  // g2 absent | best-effort | reliable(0); between the waits at most one event out of ACKNACK(g1, base L1)
  // (does not acknowledge L1) / nothing; after wait#2 the acknowledging ACKNACKs.
  #[test]
  fn xc_wfa_overlapping_waits_no_false_yes() {
    let mut n = 0u64;
    for l1 in 1..=2i64 {
      for extra in 0..=1i64 {
        for g2 in [Slot::Absent, Slot::BestEffort(0), Slot::Reliable(0)] {
          for stale_ack in [false, true] {
            let mut rig = Rig::new();
            for _ in 0..l1 {
              rig.write_one();
            }
            let cfg = [Slot::Reliable(0), g2, Slot::Absent];
            setup(&mut rig, &cfg);
            let (tx1, rx1) = sync_status_channel::<()>(8).unwrap();
            rig.wait_command_on(tx1);
            let ctx = format!(
              "history: {} samples written, g1 reliable (acked nothing), g2 {:?}, wait#1; {}{} more sample(s); wait#2 while wait#1 is still pending: ",
              l1, g2, if stale_ack { "ACKNACK(g1, base L1) (acknowledges L1-1 only); " } else { "" }, extra
            );
            assert!(rx1.try_recv().is_err(), "XC-WITNESS label=wfa.overlap.no_false_yes {}wait#1 got a success token at once", ctx);
            if stale_ack {
              rig.acknack(0, l1);
            }
            for _ in 0..extra {
              rig.write_one();
            }
            assert!(rx1.try_recv().is_err(), "XC-WITNESS label=wfa.overlap.no_false_yes {}wait#1 got a success token before wait#2 although g1 has not acknowledged sample {}", ctx, l1);
            rig.wait_command();
            assert!(
              rx1.try_recv().is_err(),
              "XC-WITNESS label=wfa.overlap.no_false_yes {}the caller of wait#1 was sent a success token when wait#2 was processed, although reliable reader g1 has acknowledged nothing beyond {} and was not lost",
              ctx, if stale_ack { l1 - 1 } else { 0 }
            );
            assert!(rig.tokens() == 0, "XC-WITNESS label=wfa.overlap.no_false_yes {}wait#2 got a success token although g1 has not acknowledged", ctx);
            // g1 (and a reliable g2) acknowledge everything: wait#2 completes, exactly once
            rig.acknack(0, l1 + extra + 1);
            if let Slot::Reliable(_) = g2 {
              assert!(rig.tokens() == 0, "XC-WITNESS label=wfa.overlap.second {}wait#2 completed before reliable g2 acknowledged", ctx);
              rig.acknack(1, l1 + extra + 1);
            }
            let t = rig.tokens();
            assert!(t == 1, "XC-WITNESS label=wfa.overlap.second {}after every reliable reader acknowledged up to {}, wait#2 was sent {} success tokens (expected 1)", ctx, l1 + extra, t);
            n += 1;
          }
        }
      }
    }
    assert!(n == 24, "vacuity guard: {} histories", n);
  }

  // ------------------------------------------------------------------------------------------
  // (3) DataWriter level: what the application is told.  A real with_key::DataWriter whose
  //     command channel ends in the test instead of an RTPS Writer, so that the test decides the
  //     fate of the WaitForAcknowledgments command.
  // Oracle (from the statement): the answer is Ok(true) only if a success token was really sent
  // for THIS wait before the answer (or the DataWriter is not Reliable: nothing to wait for);
  // if the token is sent in time the answer is Ok(true) without waiting for the timeout; otherwise
  // the synchronous form answers Ok(false) after the requested time: never earlier than
  // max_wait - 5 ms (whatever the fate of the command) and not later than max_wait + slack (a
  // call that has not answered after max_wait + 2 s is reported as hanging by a watchdog), the
  // asynchronous form stays pending and completes with
  // Ok(true) as soon as the token is there.
  // Bound: reliability in {Reliable, BestEffort, none} x fate of the command in {queue full with
  // k = 1, 2 samples, received and sender dropped without token, token at once, token after 20 ms,
  // token 40 ms after the timeout, held}; max_wait 60..100 ms; the future is polled with a no-op
  // waker a bounded number of times (no timing).
  // ------------------------------------------------------------------------------------------
  mod datawriter_side {
    use std::{
      pin::Pin,
      sync::{
        atomic::{AtomicBool, Ordering},
        Arc, Mutex,
      },
      task::{Context, Poll},
      thread,
      time::{Duration as StdDuration, Instant},
    };

    use byteorder::LittleEndian;
    use futures::Future;
    use mio_extras::channel as mio_channel;

    use crate::{
      dds::{
        participant::DomainParticipant,
        qos::{policy::Reliability, QosPolicies, QosPolicyBuilder},
        statusevents::{sync_status_channel, DataWriterStatus, StatusChannelSender},
        with_key::datawriter::DataWriter,
      },
      discovery::discovery::DiscoveryCommand,
      rtps::writer::WriterCommand,
      serialization::CDRSerializerAdapter,
      structure::{
        entity::RTPSEntity,
        guid::{EntityId, EntityKind, GUID},
        topic_kind::TopicKind,
      },
      test::random_data::RandomData,
    };

    type TestWriter = DataWriter<RandomData, CDRSerializerAdapter<RandomData, LittleEndian>>;

    #[derive(Clone, Copy, Debug, PartialEq, Eq)]
    enum Rel {
      Reliable,
      BestEffort,
      NoPolicy,
    }
    fn qos_of(r: Rel) -> QosPolicies {
      match r {
        Rel::Reliable => QosPolicyBuilder::new()
          .reliability(Reliability::Reliable {
            max_blocking_time: crate::Duration::from_millis(20),
          })
          .build(),
        Rel::BestEffort => QosPolicyBuilder::new()
          .reliability(Reliability::BestEffort)
          .build(),
        Rel::NoPolicy => QosPolicyBuilder::new().build(),
      }
    }

    #[derive(Clone, Copy, Debug, PartialEq, Eq)]
    enum Fate {
      QueueFull(usize),  // the command queue (capacity k) is full of k samples: the command cannot be sent
      Dropped,           // command received, its sender dropped without a token (e.g. superseded wait)
      TokenAfter(u64),   // command received, token sent this many ms later
      TokenAfterTimeout, // command received, token sent 40 ms after max_wait has elapsed
      Held,              // command received and kept, no token
    }

    struct Captured {
      dw: TestWriter,
      cc: mio_channel::Receiver<WriterCommand>,
      _disc: mio_channel::Receiver<DiscoveryCommand>,
      _status: StatusChannelSender<DataWriterStatus>,
    }

    fn captured_writer(dp: &DomainParticipant, rel: Rel, queue: usize, serial: u8) -> Captured {
      let qos = qos_of(rel);
      let publisher = dp.create_publisher(&qos).expect("harness: publisher");
      let topic = dp
        .create_topic(
          format!("verif_xc_wfa_{:?}", rel),
          "RandomData".to_string(),
          &qos,
          TopicKind::WithKey,
        )
        .expect("harness: topic");
      let (cc_upload, cc) = mio_channel::sync_channel::<WriterCommand>(queue);
      let (discovery_command, _disc) = mio_channel::sync_channel::<DiscoveryCommand>(8);
      let (_status, status_receiver) = sync_status_channel::<DataWriterStatus>(4).unwrap();
      let guid = GUID::new_with_prefix_and_id(
        dp.guid().prefix,
        EntityId::new([0x77, 0x20, serial], EntityKind::WRITER_WITH_KEY_USER_DEFINED),
      );
      let dw = TestWriter::new(
        publisher,
        topic,
        qos,
        guid,
        cc_upload,
        Arc::new(Mutex::new(None)),
        discovery_command,
        status_receiver,
      )
      .expect("harness: datawriter");
      Captured {
        dw,
        cc,
        _disc,
        _status,
      }
    }

    fn fill(c: &Captured, k: usize) {
      for a in 0..k {
        c.dw
          .write(
            RandomData {
              a: a as i64,
              b: "unacknowledged".to_string(),
            },
            None,
          )
          .expect("harness: write");
      }
    }

    // what the stand-in for the RTPS Writer did with the command
    struct Report {
      cc: mio_channel::Receiver<WriterCommand>,
      samples_seen: usize,
      command_seen: bool,
      token_at: Option<Instant>,
    }

    fn responder(
      cc: mio_channel::Receiver<WriterCommand>,
      fate: Fate,
      max_wait: StdDuration,
      stop: Arc<AtomicBool>,
    ) -> thread::JoinHandle<Report> {
      thread::spawn(move || {
        let mut rep = Report {
          cc,
          samples_seen: 0,
          command_seen: false,
          token_at: None,
        };
        if let Fate::QueueFull(_) = fate {
          return rep; // nobody reads the queue
        }
        let give_up = Instant::now() + StdDuration::from_secs(3);
        while !stop.load(Ordering::SeqCst) && Instant::now() < give_up {
          match rep.cc.try_recv() {
            Ok(WriterCommand::WaitForAcknowledgments { all_acked }) => {
              rep.command_seen = true;
              let received = Instant::now();
              match fate {
                Fate::Dropped => drop(all_acked),
                Fate::TokenAfter(ms) => {
                  thread::sleep(StdDuration::from_millis(ms));
                  rep.token_at = Some(Instant::now());
                  let _ = all_acked.try_send(());
                }
                Fate::TokenAfterTimeout => {
                  thread::sleep((received + max_wait + StdDuration::from_millis(40)) - Instant::now());
                  rep.token_at = Some(Instant::now());
                  let _ = all_acked.try_send(());
                }
                Fate::Held | Fate::QueueFull(_) => {
                  while !stop.load(Ordering::SeqCst) && Instant::now() < give_up {
                    thread::sleep(StdDuration::from_millis(1));
                  }
                  drop(all_acked);
                }
              }
              break;
            }
            Ok(_) => rep.samples_seen += 1,
            Err(_) => thread::sleep(StdDuration::from_millis(1)),
          }
        }
        rep
      })
    }

    const SLACK: StdDuration = StdDuration::from_millis(400); // scheduling noise of a loaded test machine

    #[test]
    fn xc_dw_sync_wait_for_acknowledgments() {
      let dp = DomainParticipant::new(0).expect("harness: participant");
      let fates = [
        Fate::QueueFull(1),
        Fate::QueueFull(2),
        Fate::Dropped,
        Fate::TokenAfter(0),
        Fate::TokenAfter(20),
        Fate::TokenAfterTimeout,
        Fate::Held,
      ];
      let mut n = 0u32;
      let mut serial = 0u8;
      for rel in [Rel::Reliable, Rel::BestEffort, Rel::NoPolicy] {
        for fate in fates {
          serial += 1;
          let max_wait = StdDuration::from_millis(if let Fate::TokenAfter(_) = fate { 100 } else { 60 });
          let queue = if let Fate::QueueFull(k) = fate { k } else { 4 };
          let c = captured_writer(&dp, rel, queue, serial);
          if let Fate::QueueFull(k) = fate {
            fill(&c, k);
          }
          let Captured { dw, cc, _disc, _status } = c;
          let stop = Arc::new(AtomicBool::new(false));
          let h = responder(cc, fate, max_wait, Arc::clone(&stop));
          let ctx = format!("reliability={:?} fate={:?} max_wait={}ms", rel, fate, max_wait.as_millis());

          // watchdog: the call runs on a helper thread; if it has not answered max_wait + 2 s after
          // it was issued the test fails at once and leaves the hung thread behind (detached)
          let (tx, rx) = std::sync::mpsc::channel();
          let issued = Instant::now();
          thread::spawn(move || {
            let start = Instant::now();
            let answer = dw.wait_for_acknowledgments(max_wait);
            let returned = Instant::now();
            let _ = tx.send((start, answer.map_err(|e| format!("{:?}", e)), returned));
          });
          let (start, answer, returned) = match rx.recv_timeout(max_wait + StdDuration::from_secs(2)) {
            Ok(x) => x,
            Err(_) => {
              stop.store(true, Ordering::SeqCst);
              panic!("XC-WITNESS label=wfa.sync.returns {}: no answer after {} ms (the call hangs)", ctx, issued.elapsed().as_millis());
            }
          };
          let took = returned - start;
          if !(rel == Rel::Reliable && fate == Fate::TokenAfterTimeout) {
            stop.store(true, Ordering::SeqCst); // (the late token is still to come in that scenario)
          }
          let rep = h.join().expect("harness: responder");
          stop.store(true, Ordering::SeqCst);

          let answer = match answer {
            Ok(b) => b,
            Err(e) => panic!("XC-WITNESS label=wfa.sync.answer {}: answered Err({}) after {} ms, must be Ok(true) or Ok(false)", ctx, e, took.as_millis()),
          };
          if rel != Rel::Reliable {
            // not a reliable writer: nothing can be waited for, success at once
            assert!(answer && took <= SLACK, "XC-WITNESS label=wfa.sync.not_reliable {}: answered Ok({}) after {} ms, a writer that is not Reliable must answer Ok(true) at once", ctx, answer, took.as_millis());
            n += 1;
            continue;
          }
          let token_before_answer = rep.token_at.is_some_and(|t| t <= returned);
          if answer {
            assert!(token_before_answer, "XC-WITNESS label=wfa.sync.only_if {}: answered Ok(true) = all acknowledged, after {} ms although no success token had been sent for this wait (command received by the writer side: {}, token sent: {})", ctx, took.as_millis(), rep.command_seen,
              match rep.token_at { None => "never".to_string(), Some(t) => format!("{} ms after the answer", (t - returned).as_millis()) });
          }
          assert!(took <= max_wait + SLACK, "XC-WITNESS label=wfa.sync.timeout {}: answered Ok({}) only after {} ms", ctx, answer, took.as_millis());
          if !answer {
            // "Otherwise the synchronous form reports a timeout AFTER the requested time" — whatever
            // happened to the command (could not be queued, dropped by the writer side, held, late token)
            assert!(took + StdDuration::from_millis(5) >= max_wait, "XC-WITNESS label=wfa.sync.timeout_after_requested_time {}: answered Ok(false) (timeout) already after {} us, the requested time of {} ms had not elapsed (command received by the writer side: {}, token sent before the answer: {})", ctx, took.as_micros(), max_wait.as_millis(), rep.command_seen, token_before_answer);
          }
          match fate {
            Fate::QueueFull(k) => {
              // the samples are still queued and the command never got in
              let mut queued = 0;
              let mut wait_cmds = 0;
              while let Ok(cmd) = rep.cc.try_recv() {
                match cmd {
                  WriterCommand::WaitForAcknowledgments { .. } => wait_cmds += 1,
                  _ => queued += 1,
                }
              }
              assert!(queued == k && wait_cmds == 0, "harness: queue-full scenario not established ({} samples, {} wait commands queued)", queued, wait_cmds);
            }
            Fate::TokenAfter(_) => {
              assert!(rep.command_seen, "XC-WITNESS label=wfa.sync.command {}: the WaitForAcknowledgments command never reached the writer side", ctx);
              let t = rep.token_at.unwrap();
              if t + StdDuration::from_millis(30) < start + max_wait {
                assert!(answer, "XC-WITNESS label=wfa.sync.success {}: the success token was sent {} ms after the call (well before the timeout) but the answer was Ok(false) after {} ms", ctx, (t - start).as_millis(), took.as_millis());
                assert!(returned <= t + SLACK, "XC-WITNESS label=wfa.sync.success {}: answered only {} ms after the token was sent", ctx, (returned - t).as_millis());
              }
            }
            Fate::Dropped => {
              assert!(rep.command_seen, "XC-WITNESS label=wfa.sync.command {}: the WaitForAcknowledgments command never reached the writer side", ctx);
            }
            Fate::TokenAfterTimeout | Fate::Held => {
              assert!(rep.command_seen, "XC-WITNESS label=wfa.sync.command {}: the WaitForAcknowledgments command never reached the writer side", ctx);
            }
          }
          n += 1;
        }
      }
      assert!(n == 21, "vacuity guard: only {} cases enumerated", n);
    }

    // bounded polling with a no-op waker; Ok(Some(answer)) = completed at poll number .1
    fn poll_n(fut: &mut Pin<Box<dyn Future<Output = crate::dds::result::WriteResult<bool, ()>> + '_>>, times: usize) -> Option<(Result<bool, String>, usize)> {
      let waker = futures::task::noop_waker();
      let mut cx = Context::from_waker(&waker);
      for i in 1..=times {
        if let Poll::Ready(r) = fut.as_mut().poll(&mut cx) {
          return Some((r.map_err(|e| format!("{:?}", e)), i));
        }
      }
      None
    }

    fn take_wait_command(cc: &mio_channel::Receiver<WriterCommand>) -> (usize, Option<StatusChannelSender<()>>) {
      let mut samples = 0;
      while let Ok(cmd) = cc.try_recv() {
        match cmd {
          WriterCommand::WaitForAcknowledgments { all_acked } => return (samples, Some(all_acked)),
          _ => samples += 1,
        }
      }
      (samples, None)
    }

    #[test]
    fn xc_dw_async_wait_for_acknowledgments() {
      let dp = DomainParticipant::new(0).expect("harness: participant");
      let fates = [
        Fate::QueueFull(1),
        Fate::QueueFull(2),
        Fate::Dropped,
        Fate::TokenAfter(0),
        Fate::Held,
      ];
      let mut n = 0u32;
      let mut serial = 100u8;
      for rel in [Rel::Reliable, Rel::BestEffort, Rel::NoPolicy] {
        for fate in fates {
          serial += 1;
          let queue = if let Fate::QueueFull(k) = fate { k } else { 4 };
          let c = captured_writer(&dp, rel, queue, serial);
          if let Fate::QueueFull(k) = fate {
            fill(&c, k);
          }
          let ctx = format!("reliability={:?} fate={:?}", rel, fate);
          let mut fut: Pin<Box<dyn Future<Output = _> + '_>> = Box::pin(c.dw.async_wait_for_acknowledgments());
          if rel != Rel::Reliable {
            let r = poll_n(&mut fut, 1);
            assert!(matches!(r, Some((Ok(true), _))), "XC-WITNESS label=wfa.async.not_reliable {}: first poll gave {:?}, a writer that is not Reliable must complete with Ok(true) at once", ctx, r);
            n += 1;
            continue;
          }
          // no token has been sent so far, whatever happens to the command
          let r = poll_n(&mut fut, 4);
          assert!(!matches!(r, Some((Ok(true), _))), "XC-WITNESS label=wfa.async.only_if {}: completed with Ok(true) at poll #{} although no success token was sent (nothing has read the command queue yet)", ctx, r.as_ref().map_or(0, |x| x.1));
          assert!(r.is_none(), "XC-WITNESS label=wfa.async.pending {}: completed with {:?} while the wait is pending; it must stay pending", ctx, r);
          let (samples, cmd) = take_wait_command(&c.cc);
          let cmd = match fate {
            Fate::QueueFull(k) => {
              assert!(samples == k && cmd.is_none(), "harness: queue-full scenario not established");
              // room now: the future must get its command in at the next poll, still pending
              let r = poll_n(&mut fut, 1);
              assert!(r.is_none(), "XC-WITNESS label=wfa.async.only_if {}: completed with {:?} right after the command queue got room, no token sent yet", ctx, r);
              take_wait_command(&c.cc).1
            }
            _ => cmd,
          };
          let all_acked = match cmd {
            Some(s) => s,
            None => panic!("XC-WITNESS label=wfa.async.command {}: the future was polled but no WaitForAcknowledgments command reached the writer side", ctx),
          };
          match fate {
            Fate::Dropped => {
              drop(all_acked);
              let r = poll_n(&mut fut, 4);
              assert!(!matches!(r, Some((Ok(true), _))), "XC-WITNESS label=wfa.async.only_if {}: completed with Ok(true) at poll #{} after the command's sender was dropped without a success token", ctx, r.as_ref().map_or(0, |x| x.1));
            }
            Fate::Held => {
              let r = poll_n(&mut fut, 8);
              assert!(r.is_none(), "XC-WITNESS label=wfa.async.pending {}: completed with {:?} while the writer side holds the command without a token", ctx, r);
              drop(all_acked);
            }
            Fate::TokenAfter(_) | Fate::QueueFull(_) => {
              let r = poll_n(&mut fut, 3);
              assert!(r.is_none(), "XC-WITNESS label=wfa.async.pending {}: completed with {:?} before the token was sent", ctx, r);
              let _ = all_acked.try_send(());
              let r = poll_n(&mut fut, 2);
              assert!(matches!(r, Some((Ok(true), _))), "XC-WITNESS label=wfa.async.as_soon_as {}: the success token was sent but two more polls gave {:?}, must complete with Ok(true)", ctx, r);
            }
            Fate::TokenAfterTimeout => unreachable!(),
          }
          n += 1;
        }
      }
      assert!(n == 15, "vacuity guard: only {} cases enumerated", n);
    }
  }
}
