//@ append: src/rtps/message.rs
// Executable contract of RTPS message (de)serialisation (C14) — bounded stand-in / witness search
// for the variable-length submessage bodies and the Message-level framing that no deductive unit
// reaches.  Everything is built through the REAL MessageBuilder / create_submessage constructors,
// written with the real Writable impls and read back with the real Message::read_from_buffer.
// Oracle (from the property statement; the wire constants below are RTPS 2.5 section 9.4.5, not
// taken from the code):
//   wire.roundtrip   bytes parse (Ok) to a message equal to the original: header, number of
//                    submessages, every submessage header and body; inline-QoS parameter values
//                    and the serialized payload compared up to the zero padding to 4 bytes
//   wire.frame       walking the buffer by (kind, flags, octetsToNextHeader) meets exactly the
//                    submessages that were put in, in order, and lands exactly at the end; the
//                    length in every header equals the bytes that follow, and equals the RTPS
//                    layout size of that submessage (0 only for an empty INFO_TS, or "extends
//                    to the end" for a last submessage)
//   wire.flags       E flag == requested byte order; Q/D/K/F/L/I flags as RTPS defines them for
//                    the content that was put in
//   wire.reserialize re-serialising the parsed message reproduces the same bytes
//   wire.numset      the parsed SequenceNumberSet/FragmentNumberSet has the intended base and
//                    exactly the intended members within the 256 window, none outside it
// Bound: both byte orders; DATA with value lengths 0..=9 x {data, dispose-by-key} x {with, without
//   related-sample-identity inline QoS}, dispose-by-key-hash; DATAFRAG for value lengths
//   {1,2,5,9,24} x fragment sizes {1,3,4,5,9} x every fragment number (x key x inline QoS);
//   HEARTBEAT (flag combinations, counts 0/1/-1/i32::MAX); ACKNACK, GAP, NACKFRAG with num_bits in
//   {0,1,31,32,33,64,255,256} x 6 member patterns x 3 bases, plus from_base_and_set / gap_msg /
//   gap_msg_before built sets incl. requested members spanning 255/256/257/258 numbers and far
//   beyond the window; INFO_TS (4 timestamps, invalidate),
//   INFO_DST, HEARTBEAT_FRAG (hand-made header: the crate has no constructor); sequence numbers
//   1, 2^32, 2^62-1, fragment numbers up to u32::MAX; 4 message headers.  Header dimension:
//   protocol versions {0.9, 1.0, 1.255, 2.0, 2.1, 2.4, 2.5, 2.255} x 4 vendor ids x 2 prefixes on the
//   empty message, every representative submessage and every ordered pair of them (wire.roundtrip:
//   major <= 2 is accepted whatever the minor / vendor); majors 3 and 255 refused (wire.header.version).  Every such submessage
//   alone, and all ordered pairs and triples of a 20-element representative subset (mixed byte
//   orders in one message).
#[cfg(test)]
mod verif_xc_wire_roundtrip {
  use std::collections::BTreeSet;

  use super::*;
  use crate::{
    dds::{
      key::KeyHash,
      with_key::{WriteOptions, WriteOptionsBuilder},
    },
    messages::submessages::elements::serialized_payload::SerializedPayload,
    structure::{
      cache_change::ChangeKind,
      guid::EntityKind,
      rpc::SampleIdentity,
      sequence_number::{FragmentNumberSet, NumberSet},
    },
    RepresentationIdentifier,
  };

  // RTPS 2.5 section 9.4.5.1.1 submessage ids
  const K_ACKNACK: u8 = 0x06;
  const K_HEARTBEAT: u8 = 0x07;
  const K_GAP: u8 = 0x08;
  const K_INFO_TS: u8 = 0x09;
  const K_INFO_DST: u8 = 0x0e;
  const K_NACK_FRAG: u8 = 0x12;
  const K_HEARTBEAT_FRAG: u8 = 0x13;
  const K_DATA: u8 = 0x15;
  const K_DATA_FRAG: u8 = 0x16;

  const SN_BIG: i64 = 1 << 32;
  const SN_MAX: i64 = (1 << 62) - 1;
  const NUM_BITS: [u32; 8] = [0, 1, 31, 32, 33, 64, 255, 256];

  #[derive(Clone, Debug)]
  struct ExpSet {
    base: i64,
    members: Vec<i64>,
  }

  #[derive(Clone)]
  struct Atom {
    name: String,
    sub: Submessage,
    e: Endianness,      // byte order it was asked to be built in
    kind: u8,           // RTPS submessage id expected on the wire
    flags: u8,          // RTPS flag byte expected on the wire
    lens: Vec<usize>,   // admissible octetsToNextHeader / body sizes by the RTPS layout
    sets: Vec<ExpSet>,  // intended content of the number sets it carries
  }

  fn ebit(e: Endianness) -> u8 {
    if e == Endianness::LittleEndian { 1 } else { 0 }
  }
  fn ename(e: Endianness) -> &'static str {
    if e == Endianness::LittleEndian { "LE" } else { "BE" }
  }
  fn hex(b: &[u8]) -> String {
    b.iter().map(|x| format!("{:02x}", x)).collect::<Vec<_>>().join(" ")
  }
  fn r4(n: usize) -> usize { (n + 3) / 4 * 4 }
  fn sn(i: i64) -> SequenceNumber { SequenceNumber::new(i) }

  fn wguid() -> GUID {
    GUID::new(GuidPrefix::new(&[1, 2, 3, 4, 5, 6, 7, 8, 9, 10, 11, 12]), EntityId::new([0x21, 0x22, 0x23], EntityKind::WRITER_WITH_KEY_USER_DEFINED))
  }
  fn rguid() -> GUID {
    GUID::new(GuidPrefix::new(&[0xF1, 0xF2, 0xF3, 0xF4, 0xF5, 0xF6, 0xF7, 0xF8, 0xF9, 0xFA, 0xFB, 0xFC]), EntityId::new([0x31, 0x32, 0x33], EntityKind::READER_WITH_KEY_USER_DEFINED))
  }
  fn value(len: usize) -> Vec<u8> { (0..len).map(|i| 0x11 + (i as u8) * 7).collect() }
  fn payload(len: usize) -> SerializedPayload { SerializedPayload::new(RepresentationIdentifier::PL_CDR_LE, value(len)) }

  fn change(s: i64, data: DDSData, rsi: bool) -> CacheChange {
    let wo = if rsi {
      WriteOptionsBuilder::new()
        .related_sample_identity(SampleIdentity { writer_guid: rguid(), sequence_number: sn(0x0102_0304_0506_0708) })
        .build()
    } else {
      WriteOptions::default()
    };
    CacheChange::new(wguid(), sn(s), wo, data)
  }

  // the single submessage a builder call produced
  fn one(what: &str, mb: MessageBuilder) -> Submessage {
    let mut v = mb.add_header_and_build(GuidPrefix::UNKNOWN).submessages;
    assert!(v.len() == 1, "XC-WITNESS label=wire.roundtrip build={}: the builder produced {} submessages instead of 1", what, v.len());
    v.pop().unwrap()
  }

  // serialized size of an inline QoS list with the given parameter value lengths (RTPS 9.4.2.11)
  fn qos_len(values: &[usize]) -> usize {
    if values.is_empty() { 0 } else { values.iter().map(|l| 4 + r4(*l)).sum::<usize>() + 4 }
  }

  #[derive(Clone, Copy, PartialEq, Debug)]
  enum DK { Data, Key, KeyHash }

  fn data_atom(e: Endianness, dk: DK, vlen: usize, rsi: bool, s: i64, reader: EntityId) -> Atom {
    let (data, plen, mut q): (DDSData, Option<usize>, Vec<usize>) = match dk {
      DK::Data => (DDSData::new(payload(vlen)), Some(4 + vlen), vec![]),
      DK::Key => (DDSData::new_disposed_by_key(ChangeKind::NotAliveDisposed, payload(vlen)), Some(4 + vlen), vec![4]),
      DK::KeyHash => (
        DDSData::new_disposed_by_key_hash(ChangeKind::NotAliveDisposed, KeyHash::from_pl_cdr_bytes((1..=16).collect()).unwrap()),
        None,
        vec![16, 4],
      ),
    };
    if rsi { q.push(24); q.push(24); }
    let name = format!("DATA[{} {:?} vlen={} rsi={} sn={} reader={:?}]", ename(e), dk, vlen, rsi, s, reader);
    let sub = one(&name, MessageBuilder::new().data_msg(&change(s, data, rsi), reader, wguid(), e, None));
    let flags = ebit(e) | if q.is_empty() { 0 } else { 0x02 } | match dk { DK::Data => 0x04, DK::Key => 0x08, DK::KeyHash => 0 };
    Atom { name, sub, e, kind: K_DATA, flags, lens: vec![20 + qos_len(&q) + r4(plen.unwrap_or(0))], sets: vec![] }
  }

  fn datafrag_atom(e: Endianness, key: bool, vlen: usize, fs: u16, k: u32, rsi: bool) -> Atom {
    let size = 4 + vlen;
    let data = if key { DDSData::new_disposed_by_key(ChangeKind::NotAliveDisposed, payload(vlen)) } else { DDSData::new(payload(vlen)) };
    let q: Vec<usize> = if rsi { vec![24, 24] } else { vec![] };
    let name = format!("DATAFRAG[{} key={} vlen={} fs={} frag={} rsi={}]", ename(e), key, vlen, fs, k, rsi);
    let sub = one(&name, MessageBuilder::new().data_frag_msg(&change(7, data, rsi), EntityId::UNKNOWN, wguid(), FragmentNumber::new(k), fs, size as u32, e, None));
    let from = (k as usize - 1) * fs as usize;
    let to = std::cmp::min(k as usize * fs as usize, size);
    let flags = ebit(e) | if rsi { 0x02 } else { 0 } | if key { 0x04 } else { 0 };
    let l = 32 + qos_len(&q) + (to - from);
    Atom { name, sub, e, kind: K_DATA_FRAG, flags, lens: vec![l, r4(l)], sets: vec![] }
  }

  fn heartbeat_atom(e: Endianness, first: i64, last: i64, count: i32, fin: bool, live: bool, reader: EntityId) -> Atom {
    let name = format!("HEARTBEAT[{} {}..{} count={} final={} liveliness={} reader={:?}]", ename(e), first, last, count, fin, live, reader);
    let sub = one(&name, MessageBuilder::new().heartbeat_msg(wguid().entity_id, sn(first), sn(last), count, e, reader, fin, live));
    let flags = ebit(e) | if fin { 0x02 } else { 0 } | if live { 0x04 } else { 0 };
    Atom { name, sub, e, kind: K_HEARTBEAT, flags, lens: vec![28], sets: vec![] }
  }

  // member patterns (offsets from the base) for a window of nb bits
  fn patterns(nb: u32) -> Vec<Vec<u32>> {
    let mut v: Vec<Vec<u32>> = vec![vec![]];
    if nb > 0 {
      v.push(vec![0]);
      v.push(vec![nb - 1]);
      v.push((0..nb).collect());
      v.push((0..nb).filter(|i| i % 2 == 1).collect());
      v.push([0u32, 30, 31, 32, 33, 62, 63, 64, 65, 127, 128, 223, 224, 254, 255].iter().copied().filter(|i| *i < nb).collect());
    }
    v.sort();
    v.dedup();
    v
  }
  fn pat_name(p: &[u32]) -> String {
    if p.len() <= 6 { format!("{:?}", p) } else { format!("[{},{},{},..{} offsets..,{}]", p[0], p[1], p[2], p.len(), p[p.len() - 1]) }
  }
  fn words(nb: u32) -> usize { ((nb + 31) / 32) as usize }

  fn sn_set(base: i64, nb: u32, pat: &[u32]) -> (SequenceNumberSet, ExpSet) {
    let mut s = SequenceNumberSet::new(sn(base), nb);
    for o in pat { s.test_insert(sn(base + *o as i64)); }
    (s, ExpSet { base, members: pat.iter().map(|o| base + *o as i64).collect() })
  }
  fn fn_set(base: u32, nb: u32, pat: &[u32]) -> (FragmentNumberSet, ExpSet) {
    let mut s: FragmentNumberSet = NumberSet::new(FragmentNumber::new(base), nb);
    for o in pat { s.test_insert(FragmentNumber::new(base + *o)); }
    (s, ExpSet { base: base as i64, members: pat.iter().map(|o| base as i64 + *o as i64).collect() })
  }

  fn acknack_atom(e: Endianness, set: SequenceNumberSet, exp: ExpSet, nb: Option<u32>, count: i32, fin: bool, what: &str) -> Atom {
    let name = format!("ACKNACK[{} {} count={} final={}]", ename(e), what, count, fin);
    let mut flags = BitFlags::<ACKNACK_Flags>::from_endianness(e);
    if fin { flags |= ACKNACK_Flags::Final; }
    let sub = AckNack { reader_id: rguid().entity_id, writer_id: wguid().entity_id, reader_sn_state: set, count }.create_submessage(flags);
    let lens = match nb { Some(nb) => vec![8 + 12 + 4 * words(nb) + 4], None => (0..=8).map(|w| 8 + 12 + 4 * w + 4).collect() };
    Atom { name, sub, e, kind: K_ACKNACK, flags: ebit(e) | if fin { 0x02 } else { 0 }, lens, sets: vec![exp] }
  }

  fn gap_struct_atom(e: Endianness, start: i64, set: SequenceNumberSet, exp: ExpSet, nb: u32, what: &str) -> Atom {
    let name = format!("GAP[{} start={} {}]", ename(e), start, what);
    let sub = Gap { reader_id: rguid().entity_id, writer_id: wguid().entity_id, gap_start: sn(start), gap_list: set }
      .create_submessage(BitFlags::<GAP_Flags>::from_endianness(e));
    assert!(sub.is_some(), "XC-WITNESS label=wire.roundtrip build={}: Gap::create_submessage returned None", name);
    Atom { name, sub: sub.unwrap(), e, kind: K_GAP, flags: ebit(e), lens: vec![8 + 8 + 12 + 4 * words(nb)], sets: vec![exp] }
  }

  // GAP through MessageBuilder::gap_msg: the contiguous run from the smallest number is announced by
  // gap_start..base, the rest as the list (within 256 of the base)
  fn gap_msg_atom(e: Endianness, irrelevant: &[i64]) -> Atom {
    let s: BTreeSet<SequenceNumber> = irrelevant.iter().map(|i| sn(*i)).collect();
    let name = format!("GAP[{} gap_msg({:?})]", ename(e), irrelevant);
    let sub = one(&name, MessageBuilder::new().gap_msg(&s, wguid().entity_id, e, rguid()));
    let mut base = *irrelevant.iter().min().unwrap() + 1;
    while irrelevant.contains(&base) { base += 1; }
    let mut members: Vec<i64> = irrelevant.iter().copied().filter(|i| *i > base && *i < base + 256).collect();
    members.sort();
    Atom { name, sub, e, kind: K_GAP, flags: ebit(e), lens: (0..=8).map(|w| 28 + 4 * w).collect(), sets: vec![ExpSet { base, members }] }
  }
  fn gap_before_atom(e: Endianness, before: i64) -> Atom {
    let name = format!("GAP[{} gap_msg_before({})]", ename(e), before);
    let sub = one(&name, MessageBuilder::new().gap_msg_before(sn(before), wguid().entity_id, e, rguid()));
    Atom { name, sub, e, kind: K_GAP, flags: ebit(e), lens: vec![28], sets: vec![ExpSet { base: before, members: vec![] }] }
  }

  fn nackfrag_atom(e: Endianness, wsn: i64, set: FragmentNumberSet, exp: ExpSet, nb: Option<u32>, count: i32, what: &str) -> Atom {
    let name = format!("NACKFRAG[{} sn={} {} count={}]", ename(e), wsn, what, count);
    let sub = NackFrag { reader_id: rguid().entity_id, writer_id: wguid().entity_id, writer_sn: sn(wsn), fragment_number_state: set, count }
      .create_submessage(BitFlags::<NACKFRAG_Flags>::from_endianness(e));
    let lens = match nb { Some(nb) => vec![8 + 8 + 8 + 4 * words(nb) + 4], None => (0..=8).map(|w| 8 + 8 + 8 + 4 * w + 4).collect() };
    Atom { name, sub, e, kind: K_NACK_FRAG, flags: ebit(e), lens, sets: vec![exp] }
  }

  fn info_ts_atom(e: Endianness, ts: Option<Timestamp>) -> Atom {
    let name = format!("INFO_TS[{} ticks={:?}]", ename(e), ts.map(|t| t.to_ticks()));
    let sub = one(&name, MessageBuilder::new().ts_msg(e, ts));
    Atom { name, sub, e, kind: K_INFO_TS, flags: ebit(e) | if ts.is_none() { 0x02 } else { 0 }, lens: vec![if ts.is_some() { 8 } else { 0 }], sets: vec![] }
  }
  fn info_dst_atom(e: Endianness, p: GuidPrefix, via_builder: bool) -> Atom {
    let name = format!("INFO_DST[{} prefix={} builder={}]", ename(e), hex(&p.bytes), via_builder);
    let sub = if via_builder {
      one(&name, MessageBuilder::new().dst_submessage(e, p))
    } else {
      InfoDestination { guid_prefix: p }.create_submessage(BitFlags::<INFODESTINATION_Flags>::from_endianness(e))
    };
    Atom { name, sub, e, kind: K_INFO_DST, flags: ebit(e), lens: vec![12], sets: vec![] }
  }
  // the crate never sends HEARTBEAT_FRAG and has no constructor for it: header made by hand from
  // the RTPS layout (4+4+8+4+4 bytes)
  fn heartbeat_frag_atom(e: Endianness, wsn: i64, last: u32, count: i32) -> Atom {
    let name = format!("HEARTBEAT_FRAG[{} sn={} last={} count={}]", ename(e), wsn, last, count);
    let flags = BitFlags::<HEARTBEATFRAG_Flags>::from_endianness(e);
    let sub = Submessage {
      header: SubmessageHeader { kind: SubmessageKind::HEARTBEAT_FRAG, flags: flags.bits(), content_length: 24 },
      body: SubmessageBody::Writer(WriterSubmessage::HeartbeatFrag(
        HeartbeatFrag { reader_id: rguid().entity_id, writer_id: wguid().entity_id, writer_sn: sn(wsn), last_fragment_num: FragmentNumber::new(last), count },
        flags,
      )),
      original_bytes: None,
    };
    Atom { name, sub, e, kind: K_HEARTBEAT_FRAG, flags: ebit(e), lens: vec![24], sets: vec![] }
  }

  fn atoms_for(e: Endianness) -> Vec<Atom> {
    let mut v = vec![];
    let some_reader = rguid().entity_id;
    // DATA
    for vlen in 0..=9 {
      for dk in [DK::Data, DK::Key] {
        for rsi in [false, true] {
          v.push(data_atom(e, dk, vlen, rsi, 5, EntityId::UNKNOWN));
        }
      }
    }
    for rsi in [false, true] { v.push(data_atom(e, DK::KeyHash, 0, rsi, 6, some_reader)); }
    for s in [1, SN_BIG, SN_BIG - 1, SN_MAX] { v.push(data_atom(e, DK::Data, 4, false, s, some_reader)); }
    // DATAFRAG
    for vlen in [1usize, 2, 5, 9, 24] {
      for fs in [1u16, 3, 4, 5, 9] {
        let size = 4 + vlen;
        if (fs as usize) >= size { continue; } // the writer does not fragment
        let n = (size + fs as usize - 1) / fs as usize;
        for k in 1..=n as u32 {
          for key in [false, true] {
            for rsi in [false, true] {
              v.push(datafrag_atom(e, key, vlen, fs, k, rsi));
            }
          }
        }
      }
    }
    {
      // extreme fragment number: a u32::MAX-byte sample announced in 1-byte fragments, last fragment
      let name = format!("DATAFRAG[{} size=u32::MAX fs=1 frag=u32::MAX]", ename(e));
      let sub = one(&name, MessageBuilder::new().data_frag_msg(&change(SN_MAX, DDSData::new(payload(3)), false), EntityId::UNKNOWN, wguid(), FragmentNumber::new(u32::MAX), 1, u32::MAX, e, None));
      v.push(Atom { name, sub, e, kind: K_DATA_FRAG, flags: ebit(e), lens: vec![32], sets: vec![] });
    }
    // HEARTBEAT
    for (first, last) in [(1, 0), (1, 1), (SN_BIG, SN_BIG + 5), (SN_MAX, SN_MAX)] {
      for count in [0, 1, -1, i32::MAX] {
        for (fin, live) in [(false, false), (true, false), (false, true), (true, true)] {
          v.push(heartbeat_atom(e, first, last, count, fin, live, if fin { some_reader } else { EntityId::UNKNOWN }));
        }
      }
    }
    // ACKNACK / GAP / NACKFRAG with hand-filled windows
    for nb in NUM_BITS {
      for (pi, pat) in patterns(nb).iter().enumerate() {
        for base in [1, SN_BIG - 3, SN_MAX - 256] {
          let what = format!("base={} num_bits={} members=base+{}", base, nb, pat_name(pat));
          let (s, x) = sn_set(base, nb, pat);
          v.push(acknack_atom(e, s, x, Some(nb), if pi == 0 { i32::MAX } else { pi as i32 }, pi % 2 == 0, &what));
          let (s, x) = sn_set(base, nb, pat);
          v.push(gap_struct_atom(e, if base > 3 { base - 3 } else { 1 }, s, x, nb, &what));
        }
        for base in [1u32, 1000, u32::MAX - 256] {
          let what = format!("base={} num_bits={} members=base+{}", base, nb, pat_name(pat));
          let (s, x) = fn_set(base, nb, pat);
          v.push(nackfrag_atom(e, if pi == 0 { SN_MAX } else { 9 }, s, x, Some(nb), if pi == 0 { i32::MAX } else { 0 }, &what));
        }
      }
    }
    {
      let (s, x) = fn_set(u32::MAX, 0, &[]);
      v.push(nackfrag_atom(e, 1, s, x, Some(0), 1, "base=u32::MAX num_bits=0"));
    }
    // sets made by from_base_and_set, with requested members beyond the 256 window
    for (base, req) in [(10i64, vec![10i64, 11, 265, 266, 300]), (10, vec![]), (10, vec![265]), (SN_BIG, vec![SN_BIG + 31, SN_BIG + 32, SN_BIG + 255, SN_BIG + 256])] {
      let set: BTreeSet<SequenceNumber> = req.iter().map(|i| sn(*i)).collect();
      let members: Vec<i64> = req.iter().copied().filter(|i| *i >= base && *i < base + 256).collect();
      v.push(acknack_atom(e, SequenceNumberSet::from_base_and_set(sn(base), &set), ExpSet { base, members }, None, 3, true, &format!("from_base_and_set({}, {:?})", base, req)));
    }
    for (base, req) in [(1u32, vec![1u32, 2, 256, 257, 900]), (7, vec![]), (40, vec![40 + 255])] {
      let set: BTreeSet<FragmentNumber> = req.iter().map(|i| FragmentNumber::new(*i)).collect();
      let members: Vec<i64> = req.iter().map(|i| *i as i64).filter(|i| *i >= base as i64 && *i < base as i64 + 256).collect();
      v.push(nackfrag_atom(e, 12, FragmentNumberSet::from_base_and_set(FragmentNumber::new(base), &set), ExpSet { base: base as i64, members }, None, 3, &format!("from_base_and_set({}, {:?})", base, req)));
    }
    // the window boundary: sets made by the real from_base_and_set (directly, and inside gap_msg) whose
    // requested members span 255, 256, 257 and 258 numbers from the base
    for span in [254i64, 255, 256, 257] {
      for lo in [0i64, 1] {
        for base in [10i64, SN_BIG - 100] {
          let req = vec![base + lo, base + span];
          let set: BTreeSet<SequenceNumber> = req.iter().map(|i| sn(*i)).collect();
          let members: Vec<i64> = req.iter().copied().filter(|i| *i >= base && *i < base + 256).collect();
          v.push(acknack_atom(e, SequenceNumberSet::from_base_and_set(sn(base), &set), ExpSet { base, members }, None, 4, false, &format!("from_base_and_set({}, {:?})", base, req)));
        }
        let base = 40i64;
        let req = vec![base + lo, base + span];
        let set: BTreeSet<FragmentNumber> = req.iter().map(|i| FragmentNumber::new(*i as u32)).collect();
        let members: Vec<i64> = req.iter().copied().filter(|i| *i >= base && *i < base + 256).collect();
        v.push(nackfrag_atom(e, 13, FragmentNumberSet::from_base_and_set(FragmentNumber::new(base as u32), &set), ExpSet { base, members }, None, 4, &format!("from_base_and_set({}, {:?})", base, req)));
      }
      v.push(gap_msg_atom(e, &[5, 6 + span]));
      v.push(gap_msg_atom(e, &[5, 7, 6 + span]));
      v.push(gap_msg_atom(e, &[SN_BIG - 2, SN_BIG - 1, SN_BIG + span]));
    }
    for irr in [vec![5i64], vec![5, 6, 7], vec![5, 7, 9], vec![5, 6, 300], vec![1, 2, 3, 260, 600], vec![SN_MAX - 2, SN_MAX], vec![3, 5, 36, 37, 68, 260]] {
      v.push(gap_msg_atom(e, &irr));
    }
    for b in [1, 2, SN_BIG, SN_MAX] { v.push(gap_before_atom(e, b)); }
    // INFO_TS / INFO_DST / HEARTBEAT_FRAG
    for ts in [Some(Timestamp::ZERO), Some(Timestamp::INVALID), Some(Timestamp::INFINITE), Some(Timestamp::from_ticks(0x0123_4567_89AB_CDEF)), None] {
      v.push(info_ts_atom(e, ts));
    }
    for p in [GuidPrefix::UNKNOWN, wguid().prefix, GuidPrefix::new(&[0xFF; 12])] {
      v.push(info_dst_atom(e, p, true));
      v.push(info_dst_atom(e, p, false));
    }
    for (s, last, count) in [(1, 1, 0), (SN_BIG, 77, i32::MAX), (SN_MAX, u32::MAX, -1)] {
      v.push(heartbeat_frag_atom(e, s, last, count));
    }
    v
  }

  // ---------------------------------------------------------------- oracle

  // `got` is `orig` followed by at most the zero padding to a multiple of 4
  fn eq_pad(orig: &[u8], got: &[u8]) -> bool {
    got.len() >= orig.len()
      && (got.len() == orig.len() || got.len() == r4(orig.len()))
      && &got[..orig.len()] == orig
      && got[orig.len()..].iter().all(|b| *b == 0)
  }
  fn qos_equiv(a: &Option<ParameterList>, b: &Option<ParameterList>) -> bool {
    match (a, b) {
      (None, None) => true,
      (Some(x), Some(y)) => {
        x.parameters.len() == y.parameters.len()
          && x.parameters.iter().zip(y.parameters.iter()).all(|(p, q)| p.parameter_id == q.parameter_id && eq_pad(&p.value, &q.value))
      }
      _ => false,
    }
  }
  fn body_equiv(orig: &SubmessageBody, got: &SubmessageBody) -> bool {
    match (orig, got) {
      (SubmessageBody::Writer(WriterSubmessage::Data(a, fa)), SubmessageBody::Writer(WriterSubmessage::Data(b, fb))) => {
        fa == fb
          && a.reader_id == b.reader_id
          && a.writer_id == b.writer_id
          && a.writer_sn == b.writer_sn
          && qos_equiv(&a.inline_qos, &b.inline_qos)
          && match (&a.serialized_payload, &b.serialized_payload) {
            (None, None) => true,
            (Some(x), Some(y)) => eq_pad(x, y),
            _ => false,
          }
      }
      (SubmessageBody::Writer(WriterSubmessage::DataFrag(a, fa)), SubmessageBody::Writer(WriterSubmessage::DataFrag(b, fb))) => {
        fa == fb
          && a.reader_id == b.reader_id
          && a.writer_id == b.writer_id
          && a.writer_sn == b.writer_sn
          && a.fragment_starting_num == b.fragment_starting_num
          && a.fragments_in_submessage == b.fragments_in_submessage
          && a.data_size == b.data_size
          && a.fragment_size == b.fragment_size
          && qos_equiv(&a.inline_qos, &b.inline_qos)
          && eq_pad(&a.serialized_payload, &b.serialized_payload)
      }
      _ => orig == got,
    }
  }
  // (base, members as the set's own iterator reports them)
  fn sets_of(b: &SubmessageBody) -> Vec<(i64, Vec<i64>)> {
    match b {
      SubmessageBody::Writer(WriterSubmessage::Gap(g, _)) => vec![(i64::from(g.gap_list.base()), g.gap_list.iter().map(i64::from).collect())],
      SubmessageBody::Reader(ReaderSubmessage::AckNack(a, _)) => vec![(i64::from(a.reader_sn_state.base()), a.reader_sn_state.iter().map(i64::from).collect())],
      SubmessageBody::Reader(ReaderSubmessage::NackFrag(n, _)) => vec![(i64::from(n.fragment_number_state.base()), n.fragment_number_state.iter().map(i64::from).collect())],
      _ => vec![],
    }
  }

  fn check(header: Header, atoms: &[&Atom]) -> usize {
    let names: Vec<&str> = atoms.iter().map(|a| a.name.as_str()).collect();
    let msg = Message { header, submessages: atoms.iter().map(|a| a.sub.clone()).collect() };
    let mut total = 0;
    for top in [Endianness::LittleEndian, Endianness::BigEndian] {
      let ctx = format!("message={:?} header=(v{}.{} vendor {} prefix {}) writer_context={}", names, header.protocol_version.major, header.protocol_version.minor,
        hex(&header.vendor_id.vendor_id), hex(&header.guid_prefix.bytes), ename(top));
      let bytes = match msg.write_to_vec_with_ctx(top) {
        Ok(b) => b,
        Err(err) => panic!("XC-WITNESS label=wire.roundtrip {}: serialisation failed: {:?}", ctx, err),
      };
      total += bytes.len();

      // ---- framing: walk by the submessage headers
      assert!(bytes.len() >= 20 && &bytes[0..4] == b"RTPS" && bytes[4] == header.protocol_version.major && bytes[5] == header.protocol_version.minor
          && bytes[6..8] == header.vendor_id.vendor_id && bytes[8..20] == header.guid_prefix.bytes,
        "XC-WITNESS label=wire.frame {}: the first 20 bytes are not the RTPS header that was put in; bytes = {}", ctx, hex(&bytes));
      let mut pos = 20;
      for (i, a) in atoms.iter().enumerate() {
        let last = i + 1 == atoms.len();
        assert!(pos + 4 <= bytes.len(), "XC-WITNESS label=wire.frame {}: walking by the submessage headers, submessage #{} ({}) should start at byte {} but the message has only {} bytes; bytes = {}", ctx, i, a.name, pos, bytes.len(), hex(&bytes));
        let (kind, flags) = (bytes[pos], bytes[pos + 1]);
        let olen = if flags & 1 == 1 { u16::from_le_bytes([bytes[pos + 2], bytes[pos + 3]]) } else { u16::from_be_bytes([bytes[pos + 2], bytes[pos + 3]]) } as usize;
        assert!(kind == a.kind, "XC-WITNESS label=wire.frame {}: walking by the submessage headers, byte {} should be the id 0x{:02x} of submessage #{} ({}) but is 0x{:02x} (an earlier length is wrong, or the kind); bytes = {}", ctx, pos, a.kind, i, a.name, kind, hex(&bytes));
        assert!(flags & 1 == ebit(a.e), "XC-WITNESS label=wire.flags {}: submessage #{} ({}) was built for {} but its endianness flag is {}; submessage bytes = {}", ctx, i, a.name, ename(a.e), flags & 1, hex(&bytes[pos..]));
        assert!(flags == a.flags, "XC-WITNESS label=wire.flags {}: submessage #{} ({}) must carry flags 0b{:08b} (RTPS 9.4.5) but carries 0b{:08b}; submessage bytes = {}", ctx, i, a.name, a.flags, flags, hex(&bytes[pos..]));
        let body_len = if olen == 0 && kind != K_INFO_TS {
          assert!(last, "XC-WITNESS label=wire.frame {}: submessage #{} ({}) has octetsToNextHeader == 0 but is not the last submessage; bytes = {}", ctx, i, a.name, hex(&bytes));
          bytes.len() - pos - 4
        } else {
          olen
        };
        assert!(pos + 4 + body_len <= bytes.len(), "XC-WITNESS label=wire.frame {}: submessage #{} ({}) announces {} bytes but only {} follow; bytes = {}", ctx, i, a.name, body_len, bytes.len() - pos - 4, hex(&bytes));
        assert!(a.lens.contains(&body_len), "XC-WITNESS label=wire.frame {}: the header of submessage #{} ({}) announces {} bytes, the RTPS layout of what was put in has {:?}; submessage bytes = {}", ctx, i, a.name, body_len, a.lens, hex(&bytes[pos..]));
        let body = a.sub.body.write_to_vec_with_ctx(a.e).unwrap();
        assert!(bytes[pos + 4..pos + 4 + body_len] == body[..], "XC-WITNESS label=wire.frame {}: the {} bytes announced by the header of submessage #{} ({}) are not its body: announced region = {} ; body = {}", ctx, body_len, i, a.name, hex(&bytes[pos + 4..pos + 4 + body_len]), hex(&body));
        pos += 4 + body_len;
      }
      assert!(pos == bytes.len(), "XC-WITNESS label=wire.frame {}: walking by the submessage headers ends at byte {} but the message has {} bytes; bytes = {}", ctx, pos, bytes.len(), hex(&bytes));

      // ---- parse back
      let parsed = match Message::read_from_buffer(&Bytes::from(bytes.clone())) {
        Ok(m) => m,
        Err(err) => panic!("XC-WITNESS label=wire.roundtrip {}: the bytes the implementation wrote do not parse: {:?}; bytes = {}", ctx, err, hex(&bytes)),
      };
      assert!(parsed.header == header, "XC-WITNESS label=wire.roundtrip {}: header parsed back as {:?}", ctx, parsed.header);
      assert!(parsed.submessages.len() == atoms.len(), "XC-WITNESS label=wire.roundtrip {}: {} submessages written, {} parsed back; bytes = {} ; parsed = {:?}", ctx, atoms.len(), parsed.submessages.len(), hex(&bytes), parsed.submessages);
      for (i, (a, p)) in atoms.iter().zip(parsed.submessages.iter()).enumerate() {
        assert!(p.header == a.sub.header, "XC-WITNESS label=wire.roundtrip {}: submessage #{} ({}): header written {:?}, parsed back {:?}", ctx, i, a.name, a.sub.header, p.header);
        assert!(body_equiv(&a.sub.body, &p.body), "XC-WITNESS label=wire.roundtrip {}: submessage #{} ({}) does not parse back to what was written (up to zero padding to 4 bytes): written {:?} ; parsed {:?} ; bytes = {}", ctx, i, a.name, a.sub.body, p.body, hex(&bytes));
        let got = sets_of(&p.body);
        assert!(got.len() == a.sets.len(), "XC-WITNESS label=wire.numset {}: submessage #{} ({}) parsed back with {} number sets instead of {}", ctx, i, a.name, got.len(), a.sets.len());
        for ((gbase, gmem), want) in got.iter().zip(a.sets.iter()) {
          assert!(gmem.iter().all(|m| *m >= *gbase && *m < *gbase + 256), "XC-WITNESS label=wire.numset {}: submessage #{} ({}): parsed set with base {} reports a member outside [base, base+256): {:?}", ctx, i, a.name, gbase, gmem);
          assert!(*gbase == want.base && *gmem == want.members, "XC-WITNESS label=wire.numset {}: submessage #{} ({}): intended base {} members {:?} ; after the round trip base {} members {:?}", ctx, i, a.name, want.base, want.members, gbase, gmem);
        }
      }

      // ---- canonical: re-serialising what was parsed gives the same bytes
      let again = parsed.write_to_vec_with_ctx(top).unwrap();
      assert!(again == bytes, "XC-WITNESS label=wire.reserialize {}: re-serialising the parsed message gives different bytes: first = {} ; again = {}", ctx, hex(&bytes), hex(&again));
    }
    total
  }

  fn headers() -> Vec<Header> {
    vec![
      Header::new(GuidPrefix::UNKNOWN),
      MessageBuilder::new().add_header_and_build(wguid().prefix).header,
      Header { protocol_id: ProtocolId::PROTOCOL_RTPS, protocol_version: ProtocolVersion::PROTOCOLVERSION_2_1, vendor_id: VendorId::VENDOR_UNKNOWN, guid_prefix: GuidPrefix::new(&[0xFF; 12]) },
      Header { protocol_id: ProtocolId::PROTOCOL_RTPS, protocol_version: ProtocolVersion::PROTOCOLVERSION_1_0, vendor_id: VendorId { vendor_id: [0xAB, 0xCD] }, guid_prefix: rguid().prefix },
    ]
  }

  #[test]
  fn xc_wire_every_submessage_alone() {
    let mut n = 0u64;
    let mut kinds = BTreeSet::new();
    for e in [Endianness::LittleEndian, Endianness::BigEndian] {
      for a in atoms_for(e) {
        for h in headers() {
          check(h, &[&a]);
          n += 1;
        }
        kinds.insert(a.kind);
      }
    }
    assert!(kinds.len() == 9, "vacuity guard: only submessage kinds {:?} enumerated", kinds);
    assert!(n > 7_000, "vacuity guard: only {} messages enumerated", n);
  }

  fn representative() -> Vec<Atom> {
    let le: Vec<Atom> = atoms_for(Endianness::LittleEndian);
    let be: Vec<Atom> = atoms_for(Endianness::BigEndian);
    let pick = |v: &Vec<Atom>, prefix: &str| -> Atom {
      match v.iter().find(|a| a.name.starts_with(prefix)) {
        Some(a) => a.clone(),
        None => panic!("vacuity guard: no submessage named {}* enumerated", prefix),
      }
    };
    vec![
      pick(&le, "DATA[LE Data vlen=1 rsi=false"),
      pick(&le, "DATA[LE Data vlen=4 rsi=true"),
      pick(&le, "DATA[LE Key vlen=2 rsi=false"),
      pick(&le, "DATA[LE KeyHash vlen=0 rsi=false"),
      pick(&le, "DATAFRAG[LE key=false vlen=5 fs=4 frag=3 rsi=false"),
      pick(&le, "DATAFRAG[LE key=true vlen=9 fs=5 frag=1 rsi=true"),
      pick(&le, "HEARTBEAT[LE 1..1 count=1 final=false liveliness=false"),
      pick(&le, "ACKNACK[LE base=1 num_bits=33 members=base+[0,"),
      pick(&le, "GAP[LE gap_msg([5, 7, 9])"),
      pick(&le, "NACKFRAG[LE sn=9 base=1 num_bits=1 members=base+[0]"),
      pick(&le, "INFO_TS[LE ticks=Some(81985529216486895)"),
      pick(&le, "INFO_TS[LE ticks=None"),
      pick(&le, "INFO_DST[LE prefix=01 02"),
      pick(&le, "HEARTBEAT_FRAG[LE sn=1 "),
      pick(&be, "DATA[BE Data vlen=3 rsi=true"),
      pick(&be, "DATAFRAG[BE key=false vlen=2 fs=4 frag=2 rsi=false"),
      pick(&be, "ACKNACK[BE base=1 num_bits=256 members=base+[0,1,2,..256"),
      pick(&be, "INFO_TS[BE ticks=None"),
      pick(&be, "GAP[BE start=1 base=1 num_bits=64 members=base+[63]"),
      pick(&be, "HEARTBEAT[BE 4294967296..4294967301 count=2147483647 final=true liveliness=true"),
    ]
  }

  // RTPS 8.3.6.3: a header is invalid only if the protocol id is wrong or the MAJOR protocol version
  // is larger than the one the implementation supports (2); any minor version and any vendor id must
  // be processed.  So every message the crate can build with major <= 2 must round-trip, whatever
  // the minor / vendor, and one with a larger major must be refused.
  #[test]
  fn xc_wire_header_versions_and_vendors() {
    let r = representative();
    let (mut n, mut refused) = (0u64, 0u64);
    for (major, minor) in [(1u8, 0u8), (2, 0), (2, 1), (2, 4), (2, 5), (2, 255), (1, 255), (0, 9)] {
      for vendor in [VendorId::THIS_IMPLEMENTATION, VendorId::VENDOR_UNKNOWN, VendorId { vendor_id: [0x01, 0x03] }, VendorId { vendor_id: [0xFF, 0xFF] }] {
        for prefix in [GuidPrefix::UNKNOWN, rguid().prefix] {
          let h = Header { protocol_id: ProtocolId::PROTOCOL_RTPS, protocol_version: ProtocolVersion { major, minor }, vendor_id: vendor, guid_prefix: prefix };
          check(h, &[]);
          n += 1;
          for a in &r {
            check(h, &[a]);
            n += 1;
            for b in &r {
              check(h, &[a, b]);
              n += 1;
            }
          }
        }
      }
    }
    for (major, minor) in [(3u8, 0u8), (3, 4), (255, 255)] {
      for a in &r {
        let h = Header { protocol_id: ProtocolId::PROTOCOL_RTPS, protocol_version: ProtocolVersion { major, minor }, vendor_id: VendorId::THIS_IMPLEMENTATION, guid_prefix: wguid().prefix };
        let msg = Message { header: h, submessages: vec![a.sub.clone()] };
        let bytes = msg.write_to_vec_with_ctx(a.e).unwrap();
        let parsed = Message::read_from_buffer(&Bytes::from(bytes.clone()));
        assert!(parsed.is_err(), "XC-WITNESS label=wire.header.version message=[{}] header version {}.{}: a larger major protocol version than 2 must be refused (RTPS 8.3.6.3), parsed {:?}; bytes = {}", a.name, major, minor, parsed, hex(&bytes));
        refused += 1;
      }
    }
    assert!(n > 25_000 && refused == 60, "vacuity guard: {} messages, {} refused", n, refused);
  }

  #[test]
  fn xc_wire_pairs_and_triples() {
    let r = representative();
    let h = Header::new(wguid().prefix);
    let mut n = 0u64;
    for a in &r {
      for b in &r {
        check(h, &[a, b]);
        n += 1;
      }
    }
    for a in &r {
      for b in &r {
        for c in &r {
          check(h, &[a, b, c]);
          n += 1;
        }
      }
    }
    assert!(r.len() == 20 && n == 20 * 20 + 20 * 20 * 20, "vacuity guard: {} messages from {} submessages", n, r.len());
  }
}
