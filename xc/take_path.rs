//@ append: src/dds/with_key/datareader.rs
// Executable contract of the read/take path (C09) on the real DataReader / SimpleDataReader —
// bounded stand-in / witness search for unit take_loop and for the wrappers it does not cover
// (fill_and_lock_local_datasample_cache, take/read/take_next_sample, the iterator forms, the async
// streams, TopicCache::get_changes_in_range_{reliable,best_effort}).
//
// Oracle (from the property statement): whatever the receive (topic) cache contains,
//   - every call of every form returns (watchdog: 2 s per call)                       [take.term]
//   - driving a form until it reports "nothing more" takes at most one call per change plus one:
//     no error is reported again and again                                            [take.once.returned]
//   - every change that can be turned into a sample (value, dispose with a decodable key) is
//     delivered exactly once, with its own writer / sequence number / payload, no matter what lies
//     before or after it in the cache, for both writers                               [take.once.returned]
//   - every undecodable payload / unknown representation id is reported as Err exactly once
//                                                                                      [take.once.returned]
//   - a dispose naming a key hash the reader has never seen is skipped silently, exactly once
//     (never an Err, never a sample, never a hang)                                    [take.once.skipped]
//
// Bound: a fresh reader (RELIABLE and BEST_EFFORT, History KeepAll) and a fresh topic cache filled by
//   hand per case; 2 writers with sequence numbers 1.. each; per case every arrangement of
//   - n <= 3 changes: every split between the writers, every assignment of the 5 kinds {value,
//     undecodable payload, unknown representation id (XML), DisposeByKeyHash with an unseen hash,
//     DisposeByKey with the key of the values}, every relative order of the receive timestamps (all n!
//     permutations: in order, late resend, writers interleaved both ways), the cache filled at once or
//     in two portions in order of reception (calls in between; reliable readers get the
//     received-reliably-before marker of the contiguous prefix), for the forms take(any),
//     take_next_sample, into_iterator, read(not_read), iterator, SimpleDataReader::try_take_one,
//     SimpleDataReader async stream, DataReader async_sample_stream, async_bare_sample_stream (noop
//     waker);
//   - n = 4 changes: the kinds {value, undecodable payload, DisposeByKeyHash unseen} (one per
//     behaviour of the loop: return Ok, return Err, skip), all 24 timestamp orders, filled at once,
//     forms take(any) and SimpleDataReader::try_take_one.
//   One DomainParticipant per test (needed for Subscriber / Topic); per case a real SimpleDataReader /
//   DataReader is built the way Subscriber::create_datareader builds it (SimpleDataReader::new +
//   DataReader::from_simple_data_reader) on a TopicCache of its own, without registering it with the
//   event loop and discovery (about 0.25 ms per case instead of 6 ms). Nothing is received over the
//   network; receive timestamps lie 100 s in the past, 10 ms apart.
// no_key forms (tests xc_take_nokey_*, one per form so that they can be told apart): the same oracle
//   for no_key::SimpleDataReader::try_take_one, its async stream, and no_key::DataReader take(any),
//   take_next_sample, read_next_sample, iterator, into_iterator, async_sample_stream,
//   async_bare_sample_stream, built over with_key::SimpleDataReader<NoKeyWrapper<D>, DAWrapper<DA>> on
//   a private TopicCache. A no_key reader has no sample form for a dispose / unregister, so those are
//   changes that cannot become a sample: skipped exactly once, and "nothing" (None / empty / Pending)
//   may be answered only when no deliverable value is left behind the read pointers   [take.once.none]
//   Bound: n <= 3 changes over 6 kinds (the 5 above + DisposeByKeyHash(unregister) with the hash of the
//   unit key, known or not depending on what was decoded before), all splits / timestamp orders /
//   one or two portions, RELIABLE and BEST_EFFORT.
// Not reached: changes arriving while a call is running (C13), the waker protocol of the streams,
//   a DisposeByKeyHash whose hash becomes known only through a later change.
#[cfg(test)]
mod verif_xc_take_path {
  use std::{
    collections::BTreeSet,
    sync::mpsc,
    thread,
    time::{Duration as StdDuration, Instant},
  };

  use bytes::Bytes;
  use mio_extras::channel as mio_channel;
  use byteorder::LittleEndian;
  use futures::{task::noop_waker, StreamExt};

  use super::*;
  use crate::{
    dds::{
      ddsdata::DDSData,
      no_key::{
        self as nk,
        wrappers::{DAWrapper, NoKeyWrapper},
      },
      participant::DomainParticipant,
      pubsub::Subscriber,
      sampleinfo::SampleInfo,
      topic::{Topic, TopicDescription, TopicKind},
      with_key::datawriter::WriteOptions,
    },
    discovery::discovery::DiscoveryCommand,
    messages::submessages::elements::serialized_payload::SerializedPayload,
    mio_source,
    serialization::to_vec,
    structure::{
      cache_change::{CacheChange, ChangeKind},
      dds_cache::TopicCache,
      guid::{EntityId, EntityKind, GuidPrefix},
      sequence_number::SequenceNumber,
    },
    test::random_data::*,
    RepresentationIdentifier,
  };

  const KEY: i64 = 5; // the instance of all values and of the decodable disposes
  const UNSEEN: i64 = 777; // no value of this key is ever sent

  #[derive(Clone, Copy, Debug, PartialEq, Eq)]
  enum Kind {
    Value,
    Undecodable,
    UnknownRep,
    DisposeUnseenHash,
    DisposeKey,
    UnregisterUnitHash, // no_key cases only: DisposeByKeyHash(NotAliveUnregistered, hash of the unit key)
  }
  use Kind::*;

  #[derive(Clone, Copy, PartialEq, Eq)]
  struct Ch {
    w: usize, // writer 0 / 1
    sn: i64,
    kind: Kind,
    rank: usize, // position in order of reception (receive timestamp)
  }
  impl std::fmt::Debug for Ch {
    fn fmt(&self, f: &mut std::fmt::Formatter<'_>) -> std::fmt::Result {
      write!(f, "w{}#{}:{:?}@t{}", self.w + 1, self.sn, self.kind, self.rank)
    }
  }

  #[derive(Clone, Copy, Debug, PartialEq, Eq)]
  enum Form {
    Take,          // take(MAX, any)
    TakeNext,      // take_next_sample()
    IntoIter,      // into_iterator()
    ReadNotRead,   // read(MAX, not_read)
    Iter,          // iterator()
    SimpleTakeOne, // SimpleDataReader::try_take_one()
    SimpleStream,  // SimpleDataReader::as_async_stream() polled with a noop waker
    DrStream,      // DataReader::async_sample_stream()
    BareStream,    // DataReader::async_bare_sample_stream()
    // no_key
    NkSimpleTakeOne, // no_key::SimpleDataReader::try_take_one()
    NkSimpleStream,  // no_key::SimpleDataReader::as_async_stream()
    NkTake,          // no_key::DataReader::take(MAX, any)
    NkTakeNext,      // take_next_sample()
    NkReadNext,      // read_next_sample()
    NkIter,          // iterator()
    NkIntoIter,      // into_iterator()
    NkDrStream,      // async_sample_stream()
    NkBareStream,    // async_bare_sample_stream()
  }
  impl Form {
    fn no_key(self) -> bool {
      use Form::*;
      matches!(self, NkSimpleTakeOne | NkSimpleStream | NkTake | NkTakeNext | NkReadNext | NkIter | NkIntoIter | NkDrStream | NkBareStream)
    }
    fn with_info(self) -> bool {
      use Form::*;
      !matches!(self, IntoIter | Iter | BareStream | NkIter | NkIntoIter | NkBareStream)
    }
  }
  const ALL_FORMS: [Form; 9] = [
    Form::Take,
    Form::TakeNext,
    Form::IntoIter,
    Form::ReadNotRead,
    Form::Iter,
    Form::SimpleTakeOne,
    Form::SimpleStream,
    Form::DrStream,
    Form::BareStream,
  ];

  #[derive(Clone, Debug)]
  struct Case {
    reliable: bool,
    form: Form,
    changes: Vec<Ch>,
    first_portion: usize, // how many changes (in order of reception) are in the cache before the first calls
  }
  impl Case {
    fn describe(&self) -> String {
      format!(
        "reader={} form={:?} cache={:?} filled={}",
        if self.reliable { "RELIABLE" } else { "BEST_EFFORT" },
        self.form,
        self.changes,
        if self.first_portion >= self.changes.len() { "at once".to_string() } else { format!("first {} by reception, calls, then the rest", self.first_portion) }
      )
    }
  }

  #[derive(Clone, PartialEq, Eq, PartialOrd, Ord)]
  enum Item {
    // id = (writer, sn) as reported in the SampleInfo, None for the forms without SampleInfo
    Value { id: Option<(usize, i64)>, a: i64, b: String },
    Dispose { id: Option<(usize, i64)>, key: i64 },
  }
  impl std::fmt::Debug for Item {
    fn fmt(&self, f: &mut std::fmt::Formatter<'_>) -> std::fmt::Result {
      let (id, what) = match self {
        Item::Value { id, a, b } => (id, format!("value(key {}, {:?})", a, b)),
        Item::Dispose { id, key } => (id, format!("dispose(key {})", key)),
      };
      match id {
        Some((w, sn)) => write!(f, "w{}#{}={}", w + 1, sn, what),
        None => write!(f, "{}", what),
      }
    }
  }

  #[derive(Debug, Default)]
  struct Outcome {
    items: Vec<Item>,
    errs: Vec<String>,
    calls: usize,
    not_quiescent: Option<String>, // Some(what the last allowed call still returned)
  }

  fn guid(w: usize) -> GUID {
    let n = w as u8 + 1;
    GUID {
      prefix: GuidPrefix::new(&[n; 12]),
      entity_id: EntityId::create_custom_entity_id([n; 3], EntityKind::WRITER_WITH_KEY_USER_DEFINED),
    }
  }
  fn label(c: &Ch) -> String {
    format!("w{}#{}", c.w + 1, c.sn)
  }

  fn cache_change(c: &Ch) -> CacheChange {
    let payload = |rep: RepresentationIdentifier, bytes: Vec<u8>| SerializedPayload {
      representation_identifier: rep,
      representation_options: [0, 0],
      value: Bytes::from(bytes),
    };
    let good = to_vec::<RandomData, LittleEndian>(&RandomData { a: KEY, b: label(c) }).unwrap();
    let data = match c.kind {
      Value => DDSData::new(payload(RepresentationIdentifier::CDR_LE, good)),
      Undecodable => DDSData::new(payload(RepresentationIdentifier::CDR_LE, vec![1, 2, 3])),
      UnknownRep => DDSData::new(payload(RepresentationIdentifier::XML, good)),
      DisposeUnseenHash => DDSData::new_disposed_by_key_hash(ChangeKind::NotAliveDisposed, UNSEEN.hash_key(false)),
      UnregisterUnitHash => DDSData::new_disposed_by_key_hash(ChangeKind::NotAliveUnregistered, ().hash_key(false)),
      DisposeKey => DDSData::new_disposed_by_key(ChangeKind::NotAliveDisposed, payload(RepresentationIdentifier::CDR_LE, to_vec::<i64, LittleEndian>(&KEY).unwrap())),
    };
    CacheChange::new(guid(c.w), SequenceNumber::from(c.sn), WriteOptions::default(), data)
  }

  // ---------------------------------------------------------------- watchdog

  struct Shared {
    running: Mutex<Option<(Instant, String)>>,
  }
  fn guarded<T>(sh: &Shared, nth: usize, what: &str, f: impl FnOnce() -> T) -> T {
    *sh.running.lock().unwrap() = Some((Instant::now(), format!("call {} of the case, {},", nth, what)));
    let r = f();
    *sh.running.lock().unwrap() = None;
    r
  }

  // ---------------------------------------------------------------- the real reader

  struct Env {
    _dp: DomainParticipant,
    sub: Subscriber,
    topic: Topic,
    nk_topic: Topic,
    n_readers: u32,
  }

  // what has to stay alive next to a reader built by hand
  struct Peers {
    _notification_sender: mio_channel::SyncSender<()>,
    _status_sender: StatusChannelSender<DataReaderStatus>,
    _reader_command_receiver: mio_channel::Receiver<ReaderCommand>,
    _poll_event_sender: mio_source::PollEventSender,
  }

  impl Env {
    fn new(tag: &str) -> Self {
      let dp = DomainParticipant::new(0).expect("Participant creation failed!");
      let mut qos = QosPolicies::qos_none();
      qos.history = Some(policy::History::KeepAll);
      let sub = dp.create_subscriber(&qos).unwrap();
      let topic = dp.create_topic(format!("xc_take_path_{}", tag), "RandomData".to_string(), &qos, TopicKind::WithKey).unwrap();
      let nk_topic = dp.create_topic(format!("xc_take_path_nokey_{}", tag), "RandomData".to_string(), &qos, TopicKind::NoKey).unwrap();
      Env { _dp: dp, sub, topic, nk_topic, n_readers: 0 }
    }

    // A real SimpleDataReader / DataReader on a topic cache of its own, built the way
    // Subscriber::create_datareader builds it, minus the registration with the event loop and with
    // discovery (thousands of readers per test; nothing is received over the network here, the
    // topic cache is filled by hand). Its Drop tells the participant to remove the (unknown) reader.
    fn make_reader(&mut self, reliable: bool) -> (Arc<Mutex<TopicCache>>, DataReader<RandomData>, Peers) {
      let topic = self.topic.clone();
      let (tc, sdr, peers) = self.make_simple::<RandomData, CDRDeserializerAdapter<RandomData>>(reliable, topic);
      (tc, DataReader::from_simple_data_reader(sdr), peers)
    }

    // the keyed reader every no_key reader wraps
    fn make_nk_simple(&mut self, reliable: bool) -> (Arc<Mutex<TopicCache>>, SimpleDataReader<NoKeyWrapper<RandomData>, DAWrapper<CDRDeserializerAdapter<RandomData>>>, Peers) {
      let topic = self.nk_topic.clone();
      self.make_simple::<NoKeyWrapper<RandomData>, DAWrapper<CDRDeserializerAdapter<RandomData>>>(reliable, topic)
    }

    fn make_simple<D: Keyed + 'static, DA: DeserializerAdapter<D>>(&mut self, reliable: bool, topic: Topic) -> (Arc<Mutex<TopicCache>>, SimpleDataReader<D, DA>, Peers) {
      let mut qos = QosPolicies::qos_none();
      qos.history = Some(policy::History::KeepAll);
      qos.reliability = Some(if reliable {
        policy::Reliability::Reliable { max_blocking_time: Duration::from_secs(1) }
      } else {
        policy::Reliability::BestEffort
      });
      self.n_readers += 1;
      let n = self.n_readers.to_be_bytes();
      let entity_id = EntityId::create_custom_entity_id([n[1], n[2], n[3]], EntityKind::READER_WITH_KEY_USER_DEFINED);
      let topic_cache = Arc::new(Mutex::new(TopicCache::new(topic.name(), topic.get_type(), &qos)));
      let (notification_sender, notification_receiver) = mio_channel::sync_channel::<()>(4);
      let (status_sender, status_receiver) = sync_status_channel::<DataReaderStatus>(4).unwrap();
      let (reader_command_sender, reader_command_receiver) = mio_channel::sync_channel::<ReaderCommand>(0);
      // nobody listens: the reader's Drop finds the channel disconnected and says nothing to discovery
      let (discovery_command, _) = mio_channel::sync_channel::<DiscoveryCommand>(4);
      let (poll_event_source, poll_event_sender) = mio_source::make_poll_channel().unwrap();
      let sdr = SimpleDataReader::<D, DA>::new(
        self.sub.clone(),
        entity_id,
        topic,
        qos,
        notification_receiver,
        topic_cache.clone(),
        discovery_command,
        status_receiver,
        reader_command_sender,
        Arc::new(Mutex::new(None)),
        poll_event_source,
      )
      .unwrap();
      let peers = Peers {
        _notification_sender: notification_sender,
        _status_sender: status_sender,
        _reader_command_receiver: reader_command_receiver,
        _poll_event_sender: poll_event_sender,
      };
      (topic_cache, sdr, peers)
    }
  }

  enum Driver {
    Dr(DataReader<RandomData>),
    DrStream(DataReaderStream<RandomData>),
    BareStream(BareDataReaderStream<RandomData>),
    NkSimple(nk::SimpleDataReader<RandomData>),
    NkDr(nk::DataReader<RandomData>),
    NkDrStream(nk::DataReaderStream<RandomData>),
    NkBareStream(nk::BareDataReaderStream<RandomData>),
  }

  fn widx(g: GUID) -> usize {
    if g == guid(0) {
      0
    } else if g == guid(1) {
      1
    } else {
      99
    }
  }
  fn nk_item(id: Option<(GUID, SequenceNumber)>, d: &RandomData) -> Item {
    Item::Value { id: id.map(|(g, sn)| (widx(g), i64::from(sn))), a: d.a, b: d.b.clone() }
  }
  fn nk_info(i: &SampleInfo) -> Option<(GUID, SequenceNumber)> {
    Some((i.writer_guid(), i.sample_identity().sequence_number))
  }

  fn item_of(info: Option<&SampleInfo>, v: Sample<&RandomData, &i64>) -> Item {
    let id = info.map(|i| {
      let w = if i.writer_guid() == guid(0) {
        0
      } else if i.writer_guid() == guid(1) {
        1
      } else {
        99
      };
      (w, i64::from(i.sample_identity().sequence_number))
    });
    match v {
      Sample::Value(d) => Item::Value { id, a: d.a, b: d.b.clone() },
      Sample::Dispose(k) => Item::Dispose { id, key: *k },
    }
  }

  // One call of the form. Returns false when the form says "nothing more right now".
  fn one_call(form: Form, drv: &mut Driver, sh: &Shared, out: &mut Outcome) -> bool {
    out.calls += 1;
    let nth = out.calls;
    let waker = noop_waker();
    let mut cx = Context::from_waker(&waker);
    match (form, drv) {
      (Form::Take, Driver::Dr(dr)) => match guarded(sh, nth, "take(MAX, any)", || dr.take(usize::MAX, ReadCondition::any())) {
        Ok(v) => {
          out.items.extend(v.iter().map(|ds| item_of(Some(ds.sample_info()), ds.value().as_ref())));
          !v.is_empty()
        }
        Err(e) => {
          out.errs.push(format!("{:?}", e));
          true
        }
      },
      (Form::TakeNext, Driver::Dr(dr)) => match guarded(sh, nth, "take_next_sample()", || dr.take_next_sample()) {
        Ok(Some(ds)) => {
          out.items.push(item_of(Some(ds.sample_info()), ds.value().as_ref()));
          true
        }
        Ok(None) => false,
        Err(e) => {
          out.errs.push(format!("{:?}", e));
          true
        }
      },
      (Form::IntoIter, Driver::Dr(dr)) => match guarded(sh, nth, "into_iterator()", || dr.into_iterator().map(|it| it.collect::<Vec<_>>())) {
        Ok(v) => {
          out.items.extend(v.iter().map(|s| item_of(None, s.as_ref())));
          !v.is_empty()
        }
        Err(e) => {
          out.errs.push(format!("{:?}", e));
          true
        }
      },
      (Form::ReadNotRead, Driver::Dr(dr)) => match guarded(sh, nth, "read(MAX, not_read)", || {
        dr.read(usize::MAX, ReadCondition::not_read()).map(|v| {
          v.iter()
            .map(|ds| match ds.value() {
              Sample::Value(d) => item_of(Some(ds.sample_info()), Sample::Value(*d)),
              Sample::Dispose(k) => item_of(Some(ds.sample_info()), Sample::Dispose(k)),
            })
            .collect::<Vec<_>>()
        })
      }) {
        Ok(v) => {
          let more = !v.is_empty();
          out.items.extend(v);
          more
        }
        Err(e) => {
          out.errs.push(format!("{:?}", e));
          true
        }
      },
      (Form::Iter, Driver::Dr(dr)) => match guarded(sh, nth, "iterator()", || {
        dr.iterator().map(|it| {
          it.map(|s| match s {
            Sample::Value(d) => item_of(None, Sample::Value(d)),
            Sample::Dispose(k) => item_of(None, Sample::Dispose(&k)),
          })
          .collect::<Vec<_>>()
        })
      }) {
        Ok(v) => {
          let more = !v.is_empty();
          out.items.extend(v);
          more
        }
        Err(e) => {
          out.errs.push(format!("{:?}", e));
          true
        }
      },
      (Form::SimpleTakeOne, Driver::Dr(dr)) => match guarded(sh, nth, "SimpleDataReader::try_take_one()", || dr.simple_data_reader.try_take_one()) {
        Ok(Some(dcc)) => {
          let id = Some((if dcc.writer_guid == guid(0) { 0 } else if dcc.writer_guid == guid(1) { 1 } else { 99 }, i64::from(dcc.sequence_number)));
          out.items.push(match &dcc.sample {
            Sample::Value(d) => Item::Value { id, a: d.a, b: d.b.clone() },
            Sample::Dispose(k) => Item::Dispose { id, key: *k },
          });
          true
        }
        Ok(None) => false,
        Err(e) => {
          out.errs.push(format!("{:?}", e));
          true
        }
      },
      (Form::SimpleStream, Driver::Dr(dr)) => {
        let mut stream = dr.simple_data_reader.as_async_stream();
        match guarded(sh, nth, "SimpleDataReaderStream::poll_next()", || stream.poll_next_unpin(&mut cx)) {
          Poll::Ready(Some(Ok(dcc))) => {
            let id = Some((if dcc.writer_guid == guid(0) { 0 } else if dcc.writer_guid == guid(1) { 1 } else { 99 }, i64::from(dcc.sequence_number)));
            out.items.push(match &dcc.sample {
              Sample::Value(d) => Item::Value { id, a: d.a, b: d.b.clone() },
              Sample::Dispose(k) => Item::Dispose { id, key: *k },
            });
            true
          }
          Poll::Ready(Some(Err(e))) => {
            out.errs.push(format!("{:?}", e));
            true
          }
          Poll::Ready(None) => {
            out.errs.push("stream ended".to_string());
            false
          }
          Poll::Pending => false,
        }
      }
      (Form::DrStream, Driver::DrStream(s)) => match guarded(sh, nth, "DataReaderStream::poll_next()", || s.poll_next_unpin(&mut cx)) {
        Poll::Ready(Some(Ok(ds))) => {
          out.items.push(item_of(Some(ds.sample_info()), ds.value().as_ref()));
          true
        }
        Poll::Ready(Some(Err(e))) => {
          out.errs.push(format!("{:?}", e));
          true
        }
        Poll::Ready(None) => {
          out.errs.push("stream ended".to_string());
          false
        }
        Poll::Pending => false,
      },
      (Form::BareStream, Driver::BareStream(s)) => match guarded(sh, nth, "BareDataReaderStream::poll_next()", || s.poll_next_unpin(&mut cx)) {
        Poll::Ready(Some(Ok(smp))) => {
          out.items.push(item_of(None, smp.as_ref()));
          true
        }
        Poll::Ready(Some(Err(e))) => {
          out.errs.push(format!("{:?}", e));
          true
        }
        Poll::Ready(None) => {
          out.errs.push("stream ended".to_string());
          false
        }
        Poll::Pending => false,
      },
      // ---- no_key forms
      (Form::NkSimpleTakeOne, Driver::NkSimple(r)) => match guarded(sh, nth, "no_key::SimpleDataReader::try_take_one()", || r.try_take_one()) {
        Ok(Some(dcc)) => {
          out.items.push(nk_item(Some((dcc.writer_guid, dcc.sequence_number)), &dcc.sample));
          true
        }
        Ok(None) => false,
        Err(e) => {
          out.errs.push(format!("{:?}", e));
          true
        }
      },
      (Form::NkSimpleStream, Driver::NkSimple(r)) => {
        let mut stream = Box::pin(r.as_async_stream());
        match guarded(sh, nth, "no_key SimpleDataReader async stream poll_next()", || stream.as_mut().poll_next(&mut cx)) {
          Poll::Ready(Some(Ok(dcc))) => {
            out.items.push(nk_item(Some((dcc.writer_guid, dcc.sequence_number)), &dcc.sample));
            true
          }
          Poll::Ready(Some(Err(e))) => {
            out.errs.push(format!("{:?}", e));
            true
          }
          Poll::Ready(None) => {
            out.errs.push("stream ended".to_string());
            false
          }
          Poll::Pending => false,
        }
      }
      (Form::NkTake, Driver::NkDr(r)) => match guarded(sh, nth, "no_key take(MAX, any)", || r.take(usize::MAX, ReadCondition::any())) {
        Ok(v) => {
          out.items.extend(v.iter().map(|ds| nk_item(nk_info(ds.sample_info()), ds.value())));
          !v.is_empty()
        }
        Err(e) => {
          out.errs.push(format!("{:?}", e));
          true
        }
      },
      (Form::NkTakeNext, Driver::NkDr(r)) => match guarded(sh, nth, "no_key take_next_sample()", || r.take_next_sample()) {
        Ok(Some(ds)) => {
          out.items.push(nk_item(nk_info(ds.sample_info()), ds.value()));
          true
        }
        Ok(None) => false,
        Err(e) => {
          out.errs.push(format!("{:?}", e));
          true
        }
      },
      (Form::NkReadNext, Driver::NkDr(r)) => match guarded(sh, nth, "no_key read_next_sample()", || r.read_next_sample().map(|o| o.map(|ds| nk_item(nk_info(ds.sample_info()), ds.value())))) {
        Ok(Some(it)) => {
          out.items.push(it);
          true
        }
        Ok(None) => false,
        Err(e) => {
          out.errs.push(format!("{:?}", e));
          true
        }
      },
      (Form::NkIter, Driver::NkDr(r)) => match guarded(sh, nth, "no_key iterator()", || r.iterator().map(|it| it.map(|d| nk_item(None, d)).collect::<Vec<_>>())) {
        Ok(v) => {
          let more = !v.is_empty();
          out.items.extend(v);
          more
        }
        Err(e) => {
          out.errs.push(format!("{:?}", e));
          true
        }
      },
      (Form::NkIntoIter, Driver::NkDr(r)) => match guarded(sh, nth, "no_key into_iterator()", || r.into_iterator().map(|it| it.map(|d| nk_item(None, &d)).collect::<Vec<_>>())) {
        Ok(v) => {
          let more = !v.is_empty();
          out.items.extend(v);
          more
        }
        Err(e) => {
          out.errs.push(format!("{:?}", e));
          true
        }
      },
      (Form::NkDrStream, Driver::NkDrStream(s)) => match guarded(sh, nth, "no_key DataReaderStream::poll_next()", || s.poll_next_unpin(&mut cx)) {
        Poll::Ready(Some(Ok(ds))) => {
          out.items.push(nk_item(nk_info(ds.sample_info()), ds.value()));
          true
        }
        Poll::Ready(Some(Err(e))) => {
          out.errs.push(format!("{:?}", e));
          true
        }
        Poll::Ready(None) => {
          out.errs.push("stream ended".to_string());
          false
        }
        Poll::Pending => false,
      },
      (Form::NkBareStream, Driver::NkBareStream(s)) => match guarded(sh, nth, "no_key BareDataReaderStream::poll_next()", || s.poll_next_unpin(&mut cx)) {
        Poll::Ready(Some(Ok(d))) => {
          out.items.push(nk_item(None, &d));
          true
        }
        Poll::Ready(Some(Err(e))) => {
          out.errs.push(format!("{:?}", e));
          true
        }
        Poll::Ready(None) => {
          out.errs.push("stream ended".to_string());
          false
        }
        Poll::Pending => false,
      },
      _ => unreachable!(),
    }
  }

  fn run_case(env: &mut Env, case: &Case, sh: &Shared) -> Outcome {
    let (tc, mut drv, _peers) = if case.form.no_key() {
      let (tc, keyed, peers) = env.make_nk_simple(case.reliable);
      let drv = match case.form {
        Form::NkSimpleTakeOne | Form::NkSimpleStream => Driver::NkSimple(nk::SimpleDataReader::from_keyed(keyed)),
        f => {
          let dr = nk::DataReader::from_keyed(DataReader::from_simple_data_reader(keyed));
          match f {
            Form::NkDrStream => Driver::NkDrStream(dr.async_sample_stream()),
            Form::NkBareStream => Driver::NkBareStream(dr.async_bare_sample_stream()),
            _ => Driver::NkDr(dr),
          }
        }
      };
      (tc, drv, peers)
    } else {
      let (tc, dr, peers) = env.make_reader(case.reliable);
      let drv = match case.form {
        Form::DrStream => Driver::DrStream(dr.async_sample_stream()),
        Form::BareStream => Driver::BareStream(dr.async_bare_sample_stream()),
        _ => Driver::Dr(dr),
      };
      (tc, drv, peers)
    };
    let mut out = Outcome::default();
    let n = case.changes.len();
    let base = Timestamp::now() - Duration::from_secs(100);
    let mut by_reception: Vec<&Ch> = case.changes.iter().collect();
    by_reception.sort_by_key(|c| c.rank);
    let cut = std::cmp::min(case.first_portion, n);
    let mut present: [BTreeSet<i64>; 2] = [BTreeSet::new(), BTreeSet::new()];
    for portion in [&by_reception[..cut], &by_reception[cut..]] {
      if portion.is_empty() {
        continue;
      }
      {
        let mut cache = tc.lock().unwrap();
        for c in portion {
          cache.add_change(&(base + Duration::from_millis(10 * (c.rank as i64 + 1))), cache_change(c));
          present[c.w].insert(c.sn);
        }
        for w in 0..2 {
          // everything below the marker has been received (or will never be): the contiguous prefix
          let mut marker = 1;
          while present[w].contains(&marker) {
            marker += 1;
          }
          cache.mark_reliably_received_before(guid(w), SequenceNumber::from(marker));
        }
      }
      // every change gives rise to at most one call that returns something, plus the final empty one
      let mut quiescent = false;
      for _ in 0..n + 2 {
        if !one_call(case.form, &mut drv, sh, &mut out) {
          quiescent = true;
          break;
        }
      }
      if !quiescent {
        out.not_quiescent = Some(format!("after {} calls the form still returns something; items so far {:?}, errors so far {}", n + 2, out.items, out.errs.len()));
        break;
      }
    }
    out
  }

  // ---------------------------------------------------------------- oracle

  fn check(case: &Case, out: &Outcome) {
    let d = case.describe();
    if let Some(what) = &out.not_quiescent {
      panic!("XC-WITNESS label=take.once.returned {}: {}", d, what);
    }
    let with_info = case.form.with_info();
    let no_key = case.form.no_key();
    let idf = |c: &Ch| if with_info { Some((c.w, c.sn)) } else { None };
    let mut want: Vec<Item> = case
      .changes
      .iter()
      .filter_map(|c| match c.kind {
        Value => Some(Item::Value { id: idf(c), a: KEY, b: label(c) }),
        DisposeKey if !no_key => Some(Item::Dispose { id: idf(c), key: KEY }),
        _ => None,
      })
      .collect();
    let mut got = out.items.clone();
    want.sort();
    got.sort();
    // "nothing more" although deliverable values are left (nothing wrong with what was delivered)
    if got.len() < want.len() && got.iter().all(|g| want.contains(g)) && got.windows(2).all(|p| p[0] != p[1]) {
      let left: Vec<&Item> = want.iter().filter(|x| !got.contains(x)).collect();
      panic!(
        "XC-WITNESS label=take.once.none {}: after {} calls the form answered 'nothing available' (None / empty / Pending) although {:?} is still deliverable behind the read pointers; delivered so far {:?}, errors reported {}",
        d, out.calls, left, out.items, out.errs.len()
      );
    }
    assert!(
      got == want,
      "XC-WITNESS label=take.once.returned {}: delivered over {} calls {:?}; every value / decodable dispose exactly once would be {:?} (errors reported: {})",
      d,
      out.calls,
      out.items,
      want,
      out.errs.len()
    );
    let want_errs = case.changes.iter().filter(|c| matches!(c.kind, Undecodable | UnknownRep)).count();
    if let Some(e) = out.errs.iter().find(|e| e.contains("UnknownKey")) {
      panic!("XC-WITNESS label=take.once.skipped {}: a dispose with an unseen key hash must be skipped, but was reported: {}", d, e);
    }
    assert!(
      out.errs.len() == want_errs,
      "XC-WITNESS label=take.once.returned {}: {} errors reported over {} calls, {} undecodable changes in the cache (each must be reported exactly once): {:?}",
      d,
      out.errs.len(),
      out.calls,
      want_errs,
      out.errs
    );
  }

  // ---------------------------------------------------------------- enumeration

  fn permutations(n: usize) -> Vec<Vec<usize>> {
    if n == 0 {
      return vec![vec![]];
    }
    let mut r = vec![];
    for p in permutations(n - 1) {
      for pos in 0..n {
        let mut q = p.clone();
        q.insert(pos, n - 1);
        r.push(q);
      }
    }
    r
  }

  fn kind_vectors(n: usize, kinds: &[Kind]) -> Vec<Vec<Kind>> {
    let mut r: Vec<Vec<Kind>> = vec![vec![]];
    for _ in 0..n {
      r = r.into_iter().flat_map(|v| kinds.iter().map(move |k| { let mut x = v.clone(); x.push(*k); x })).collect();
    }
    r
  }

  // all caches with n changes: every split between the writers x kinds x order of reception
  fn caches(n: usize, kinds: &[Kind]) -> Vec<Vec<Ch>> {
    let mut r = vec![];
    for n1 in 0..=n {
      for kv in kind_vectors(n, kinds) {
        for perm in permutations(n) {
          r.push((0..n).map(|i| Ch { w: if i < n1 { 0 } else { 1 }, sn: if i < n1 { i as i64 + 1 } else { (i - n1) as i64 + 1 }, kind: kv[i], rank: perm[i] }).collect());
        }
      }
    }
    r
  }

  // Runs the cases on a worker thread (it owns the participant and the readers) and watches it.
  fn run_all(tag: &'static str, cases: Vec<Case>, min_cases: usize) {
    let sh = Arc::new(Shared { running: Mutex::new(None) });
    let (tx_case, rx_case) = mpsc::channel::<Case>();
    let (tx_out, rx_out) = mpsc::channel::<Outcome>();
    let sh2 = sh.clone();
    thread::spawn(move || {
      let mut env = Env::new(tag);
      for case in rx_case {
        let out = run_case(&mut env, &case, &sh2);
        if tx_out.send(out).is_err() {
          break;
        }
      }
    });
    let mut n = 0usize;
    let mut delivered = 0usize;
    for case in &cases {
      tx_case.send(case.clone()).unwrap();
      let out = loop {
        match rx_out.recv_timeout(StdDuration::from_millis(100)) {
          Ok(o) => break o,
          Err(mpsc::RecvTimeoutError::Timeout) => {
            if let Some((t0, what)) = &*sh.running.lock().unwrap() {
              if t0.elapsed() > StdDuration::from_secs(2) {
                // the worker spins with the topic cache locked; it is left behind
                panic!("XC-WITNESS label=take.term {}: {} did not return within 2 s", case.describe(), what);
              }
            }
          }
          Err(mpsc::RecvTimeoutError::Disconnected) => panic!("XC-WITNESS label=take.term {}: the call panicked instead of returning (message of the worker thread above)", case.describe()),
        }
      };
      check(case, &out);
      n += 1;
      delivered += out.items.len();
    }
    assert!(n >= min_cases, "vacuity guard: only {} cases", n);
    assert!(delivered * 4 >= n, "vacuity guard: only {} samples delivered in {} cases", delivered, n);
  }

  const FIVE: [Kind; 5] = [Value, Undecodable, UnknownRep, DisposeUnseenHash, DisposeKey];
  const THREE: [Kind; 3] = [Value, Undecodable, DisposeUnseenHash];

  fn cases_upto3(reliable: bool, forms: &[Form]) -> Vec<Case> {
    let mut v = vec![];
    for n in 1..=3 {
      for changes in caches(n, &FIVE) {
        for &form in forms {
          for first_portion in (1..=n).rev() {
            v.push(Case { reliable, form, changes: changes.clone(), first_portion });
          }
        }
      }
    }
    v
  }

  fn cases_4(reliable: bool) -> Vec<Case> {
    let mut v = vec![];
    for changes in caches(4, &THREE) {
      for form in [Form::Take, Form::SimpleTakeOne] {
        v.push(Case { reliable, form, changes: changes.clone(), first_portion: 4 });
      }
    }
    v
  }

  #[test]
  fn xc_take_upto3_reliable_sync() {
    run_all("r3s", cases_upto3(true, &ALL_FORMS[..5]), 10_000);
  }
  #[test]
  fn xc_take_upto3_reliable_simple_and_streams() {
    run_all("r3a", cases_upto3(true, &ALL_FORMS[5..]), 10_000);
  }
  #[test]
  fn xc_take_upto3_best_effort_sync() {
    run_all("b3s", cases_upto3(false, &ALL_FORMS[..5]), 10_000);
  }
  #[test]
  fn xc_take_upto3_best_effort_simple_and_streams() {
    run_all("b3a", cases_upto3(false, &ALL_FORMS[5..]), 10_000);
  }
  const SIX: [Kind; 6] = [Value, Undecodable, UnknownRep, DisposeUnseenHash, DisposeKey, UnregisterUnitHash];

  fn cases_nokey(form: Form) -> Vec<Case> {
    let mut v = vec![];
    for n in 1..=3 {
      for changes in caches(n, &SIX) {
        for reliable in [true, false] {
          for first_portion in (1..=n).rev() {
            v.push(Case { reliable, form, changes: changes.clone(), first_portion });
          }
        }
      }
    }
    v
  }

  #[test]
  fn xc_take_nokey_simple_try_take_one() {
    run_all("nk1", cases_nokey(Form::NkSimpleTakeOne), 30_000);
  }
  #[test]
  fn xc_take_nokey_simple_stream() {
    run_all("nk2", cases_nokey(Form::NkSimpleStream), 30_000);
  }
  #[test]
  fn xc_take_nokey_take() {
    run_all("nk3", cases_nokey(Form::NkTake), 30_000);
  }
  #[test]
  fn xc_take_nokey_take_next_sample() {
    run_all("nk4", cases_nokey(Form::NkTakeNext), 30_000);
  }
  #[test]
  fn xc_take_nokey_read_next_sample() {
    run_all("nk5", cases_nokey(Form::NkReadNext), 30_000);
  }
  #[test]
  fn xc_take_nokey_iterator() {
    run_all("nk6", cases_nokey(Form::NkIter), 30_000);
  }
  #[test]
  fn xc_take_nokey_into_iterator() {
    run_all("nk7", cases_nokey(Form::NkIntoIter), 30_000);
  }
  #[test]
  fn xc_take_nokey_sample_stream() {
    run_all("nk8", cases_nokey(Form::NkDrStream), 30_000);
  }
  #[test]
  fn xc_take_nokey_bare_sample_stream() {
    run_all("nk9", cases_nokey(Form::NkBareStream), 30_000);
  }

  #[test]
  fn xc_take_4_reliable() {
    run_all("r4", cases_4(true), 10_000);
  }
  #[test]
  fn xc_take_4_best_effort() {
    run_all("b4", cases_4(false), 10_000);
  }
}
