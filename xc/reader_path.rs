//@ append: src/rtps/reader.rs
// Executable contract of the reader-side receive path (C01, C03) — bounded stand-in / witness search.
// Exercised on the REAL code: Reader::handle_data_msg / handle_datafrag_msg / handle_gap_msg /
// handle_heartbeat_msg of a real reliable Reader, the TopicCache it writes to, and a real reliable
// with_key::DataReader (created through a DomainParticipant, on the same TopicCache) that is drained
// with take() after every step. The ACKNACK / NACKFRAG submessages are read back from a 127.0.0.1 UDP
// socket that is given to the reader as the unicast locator of the matched writer, and parsed with
// Message::read_from_buffer.
//
// Oracle (from the property statements, independent of the code): per writer the set `covered`
//   covered = {sn | a DATA (or the last missing DATAFRAG) for sn arrived, or the writer declared sn
//              unavailable: a GAP names it, or a HEARTBEAT carried first_sn > sn}
// C01  handover.order     SNs handed to the application are strictly increasing per writer (=> at most once)
//      handover.nohole    sample n is handed over only when every k in 1..n is covered
//      handover.identity  payload, writer GUID, SN, source timestamp equal those of ONE DATA(FRAG) that carried n
//      handover.complete  a sample whose data arrived while n was uncovered is handed over as soon as every
//                         lower SN is covered (nothing received is lost or withheld)
//      handover.nopanic   no take() panics, whatever was received (C06)
// C03  acknack.base       base <= lowest uncovered SN
//      acknack.mono       base never decreases during the match
//      acknack.listed     every listed SN is uncovered and inside [first,last] of the HEARTBEAT last received
//      acknack.lowest     if [first,last] contains an uncovered SN, the lowest one is listed in the ACKNACK, or,
//                         if some of its fragments have arrived, a NACKFRAG names exactly its missing fragments
//      acknack.nackfrag   every NACKFRAG names an uncovered, advertised SN and exactly its missing fragments
//      acknack.count      the counts of the replies to one HEARTBEAT are pairwise different and greater than every count
//                         used before for this writer; per submessage kind the count grows in wire order. (Observed on
//                         the real code, tolerated: the NACKFRAG datagram with count c+1 leaves BEFORE the ACKNACK with
//                         count c that answers the same HEARTBEAT.)
//      acknack.respond    a new, valid HEARTBEAT without final flag is answered by an ACKNACK
//      acknack.dup        a HEARTBEAT whose count is not greater than one already processed is not answered
//                         (RTPS 8.3.8.6.5 duplicate suppression; not in C03's wording, checked because the `<=` on the
//                         heartbeat count is otherwise unverified; the "respond" obligation is waived for such heartbeats)
//      acknack.addressee  reader_id / writer_id / INFO_DST of the reply name this reader and the writer whose
//                         locator the reply was sent to
//
// Bound (one writer): alphabet FULL (169 operations) =
//     DATA(sn) sn in 1..=5;  UNUSABLE-DATA(sn, variant) sn in 1..=5 = a DATA that cannot be turned into a change
//     (variant 0: no payload, no flags, no inline QoS; variant 1: payload with D and K flag both set): the model
//     covers sn (its DATA has arrived, there is nothing to hand over), later samples must flow;
//     DATA(sn) with an inline QoS whose PID_RELATED_SAMPLE_IDENTITY cannot be parsed, sn in 1..=5: handed over like DATA(sn);
//     PREEMPT = the timer action Reader::send_preemptive_acknacks(): whatever it emits is held to the same ACKNACK oracle;
//     GAP(start a, base b, bits subset of {b,b+1}) 1<=a<=b<=6;
//     GAP-FROM-WIRE (8 forms, b<=3, numBits 1|2): a GAP serialized, all padding bits of its bitmap word set to 1, parsed by
//     Message::read_from_buffer and handed to the reader: the model counts the numBits valid bits only;
//     REMATCH: the writer is unmatched (remove_writer_proxy) and matched again with the same GUID (participant lost and found):
//     a new match for the ACKNACK oracle (base / count / coverage start again), while for the application everything handed
//     over stays handed over (at most once, increasing, no hole w.r.t. everything ever covered); also in the two-reader
//     test and, to length 4 with three take() schedules, in xc_reader_rematch_nopanic;
//     REANNOUNCED: Reader::update_writer_proxy again for the matched writer (SEDP re-send): no-op for the model, so ACKNACK
//     counts and bases go on growing;
//     HEARTBEAT(first f, last l, final?) 0<=f<=l+1<=6, l>=0; the HEARTBEAT count is the position in the sequence.
//   alphabet SMALL (29 operations) = DATA(1..=3); UNUSABLE-DATA(2..=3, variant 0); PREEMPT; GAP with b<=3 and bits subset of {b};
//     HEARTBEAT(f,3,final?) f in 1..=4 and HEARTBEAT(f,2,false) f in 1..=3.
//   Exhaustive: every sequence of length <= 2 over FULL (take() after every step, and take() only at the end); every
//   sequence of length 3 over FULL x FULL x FULL whose first operation is in SMALL; every sequence of length 4 over SMALL.
//   Two writers: every pair of length-2 sequences over an 11-operation alphabet (+ PREEMPT in writer A's positions), interleaved A1 B1 A2 B2, each with
//   four take() schedules (after every step / only at the end / after steps 1,3,4 / after steps 2,4), so that samples of
//   both writers received out of order sit in the DataReader together.
//   Duplicate heartbeats: op, HEARTBEAT(count 2), op, HEARTBEAT(count 1 or 2) over SMALL (ops without HEARTBEAT).
//   Fragments: 2 SNs x 3 fragments; every sequence of length <= 4 over {DATAFRAG(sn,f), HEARTBEAT(1,2,final?)}
//   and every sequence DATAFRAG x DATAFRAG x {GAP, DATA} x HEARTBEAT.
//   Two readers (xc_reader_two_readers_*): a RELIABLE and a BEST_EFFORT Reader+DataReader on the same TopicCache and writer;
//   10 operations x {to both readers, reliable first | to both, best-effort first | to the reliable reader only}, every
//   sequence of length <= 3, and length 4 with every step to both. (Environment switch XC_TWO_READERS_MODES=all adds
//   "to the best-effort reader only"; the unchanged tree FAILS that: a DATA directed to the best-effort reader is handed
//   over by the reliable DataReader, the TopicCache and its hand-over bound being shared — reported, not enumerated.)
//   C09 (xc_reader_c09_*): every sequence of length <= 4 over 13 operations around unusable / malformed-inline-QoS DATA.
//   MessageReceiver (xc_reader_msgrx_*): every RTPS message of <= 5 submessages over {INFO_TS(t1), INFO_TS(t2),
//   INFO_TS(invalidate), INFO_SRC(A), INFO_SRC(B), DATA} through MessageReceiver::handle_received_packet: each sample handed
//   over has the writer (current source) and the source timestamp (current, invalidated by INFO_SRC) its DATA carried.
// (Test names: the long enumerations are called xc_reader_a_* / xc_reader_b_* so that the test harness starts them first.)
#[cfg(test)]
mod verif_xc_reader_path {
  use std::{
    net::UdpSocket,
    sync::atomic::{AtomicU64, Ordering},
  };

  use byteorder::LittleEndian;
  use bytes::Bytes;

  use super::*;
  use crate::{
    dds::{
      participant::DomainParticipant,
      pubsub::Subscriber,
      qos::policy::{History, Reliability},
      readcondition::ReadCondition,
      statusevents::{sync_status_channel, StatusChannelReceiver},
      topic::{Topic, TopicDescription, TopicKind},
      with_key::datareader::DataReader,
    },
    messages::submessages::elements::parameter::Parameter,
    mio_source::PollEventSource,
    rtps::SubmessageBody,
    serialization::{to_vec, CDRDeserializerAdapter},
    structure::{guid::EntityKind, parameter_id::ParameterId},
    test::random_data::RandomData,
    QosPolicyBuilder, RepresentationIdentifier,
  };

  // ------------------------------------------------------------------ operations

  #[derive(Clone, Copy, PartialEq, Eq)]
  enum Op {
    Data(i64),          // DATA(writer_sn)
    Gap(i64, i64, u8),  // GAP(gap_start, gap_list.base, bitmap: bit0 = base, bit1 = base+1)
    Hb(i64, i64, bool), // HEARTBEAT(first_sn, last_sn, final flag)
    Frag(i64, u32),     // DATAFRAG(writer_sn, fragment number) of a 3-fragment sample
    BadQos(i64),        // DATA(writer_sn) with a value and an inline QoS whose PID_RELATED_SAMPLE_IDENTITY is 4 garbage bytes
    GapWire(i64, i64, u8, u8), // GAP(gap_start, gap_list.base, numBits 1|2, valid bits) serialized, every PADDING bit of the
                        // bitmap word (positions >= numBits, undefined on the wire) set to 1, and parsed back by the real parser
    Rematch,            // the writer's participant is lost and found again: Reader::remove_writer_proxy, then matched again with the
                        // same GUID / QoS (a NEW match for C03: fresh proxy; the application's C01 guarantees go on)
    Reannounce,         // Discovery announces the matched writer again: Reader::update_writer_proxy for the same GUID and QoS
    Preempt,            // the reader's periodic timer action Reader::send_preemptive_acknacks()
    Unusable(i64, u8),  // DATA(writer_sn) that cannot be turned into a change: 0 = no payload, no flags, no inline QoS;
                        // 1 = payload with both the D and the K flag set
  }

  #[derive(Clone, Copy)]
  struct Step {
    w: usize,   // writer
    op: Op,
    count: i32, // HEARTBEAT count (used by Hb only)
  }
  impl std::fmt::Debug for Step {
    fn fmt(&self, f: &mut std::fmt::Formatter<'_>) -> std::fmt::Result {
      match self.op {
        Op::Data(s) => write!(f, "w{}:DATA({})", self.w, s),
        Op::BadQos(s) => write!(f, "w{}:DATA({},inline QoS with malformed related_sample_identity)", self.w, s),
        Op::Preempt => write!(f, "PREEMPTIVE-ACKNACK-TIMER"),
        Op::Reannounce => write!(f, "w{}:REANNOUNCED", self.w),
        Op::Rematch => write!(f, "w{}:UNMATCHED+MATCHED-AGAIN", self.w),
        Op::GapWire(a, b, nbits, bits) => {
          let l: Vec<i64> = (0..nbits as i64).filter(|i| bits & (1 << i) != 0).map(|i| b + i).collect();
          write!(f, "w{}:GAP-FROM-WIRE(start={},base={},numBits={},list={:?},bitmap word={:#010x})", self.w, a, b, nbits, l, gap_wire_word(nbits, bits))
        }
        Op::Frag(s, k) => write!(f, "w{}:DATAFRAG(sn={},frag={}/3)", self.w, s, k),
        Op::Unusable(s, v) => write!(f, "w{}:UNUSABLE-DATA({},{})", self.w, s, ["no payload/flags/inline QoS", "D and K flag both set"][v as usize]),
        Op::Gap(a, b, bits) => {
          let l: Vec<i64> = (0..2).filter(|i| bits & (1 << i) != 0).map(|i| b + i).collect();
          write!(f, "w{}:GAP(start={},base={},list={:?})", self.w, a, b, l)
        }
        Op::Hb(a, b, fin) => write!(f, "w{}:HEARTBEAT(first={},last={},final={},count={})", self.w, a, b, fin, self.count),
      }
    }
  }

  fn full_alphabet() -> Vec<Op> {
    let mut v = vec![];
    for s in 1..=5 { v.push(Op::Data(s)); }
    for s in 1..=5 { for var in 0..2u8 { v.push(Op::Unusable(s, var)); } }
    for s in 1..=5 { v.push(Op::BadQos(s)); }
    v.push(Op::Preempt);
    v.push(Op::Reannounce);
    v.push(Op::Rematch);
    for a in 1..=3 { for b in a..=3 { v.push(Op::GapWire(a, b, 1, 0)); } }
    v.push(Op::GapWire(2, 2, 1, 1));
    v.push(Op::GapWire(1, 2, 2, 0b01));
    for a in 1..=6 { for b in a..=6 { for bits in 0..4u8 { v.push(Op::Gap(a, b, bits)); } } }
    for l in 0..=5 { for f in 0..=l + 1 { for fin in [false, true] { v.push(Op::Hb(f, l, fin)); } } }
    v
  }

  fn small_alphabet() -> Vec<Op> {
    let mut v = vec![];
    for s in 1..=3 { v.push(Op::Data(s)); }
    for s in 2..=3 { v.push(Op::Unusable(s, 0)); }
    v.push(Op::Preempt);
    for a in 1..=3 { for b in a..=3 { for bits in 0..2u8 { v.push(Op::Gap(a, b, bits)); } } }
    for f in 1..=4 { for fin in [false, true] { v.push(Op::Hb(f, 3, fin)); } }
    for f in 1..=3 { v.push(Op::Hb(f, 2, false)); }
    v
  }

  fn is_hb(op: Op) -> bool { matches!(op, Op::Hb(..)) }

  // ------------------------------------------------------------------ model (per writer)

  const FRAGS: u32 = 3; // fragments per fragmented sample
  const FRAG_SIZE: usize = 8;
  const FRAG_PAYLOAD_STEP: usize = 0xfff; // all fragments of one SN carry the bytes of sample_for(tag, sn, this)
  const ALL_FRAGS: u32 = (1 << (FRAGS + 1)) - 2; // bits 1..=FRAGS

  #[derive(Clone, Debug)]
  struct Model {
    covered: u32,                      // bit k: SN k received or declared unavailable (k in 1..=31) during the current match
    ever: u32,                         // the same, during earlier matches of this writer (before a REMATCH)
    carried: Vec<(i64, usize, usize)>, // (sn, payload step, source timestamp step) of every complete sample that arrived
    due: u32,                          // SNs whose data arrived while uncovered: must be handed over
    handed: Vec<i64>,                  // SNs handed to the application, in order
    frags: [u32; 32],                  // per SN: fragments that have arrived (bit i = fragment i, 1-based)
    prev_base: i64,
    prev_count: Option<i32>,     // highest count of any ACKNACK/NACKFRAG sent in earlier steps
    prev_kind_count: [Option<i32>; 2], // last ACKNACK count, last NACKFRAG count (wire order)
    advertised: Option<(i64, i64)>,
    hb_count_seen: i32,
  }
  impl Model {
    fn new() -> Self {
      Model { covered: 0, ever: 0, carried: vec![], due: 0, handed: vec![], frags: [0; 32], prev_base: i64::MIN, prev_count: None, prev_kind_count: [None, None], advertised: None, hb_count_seen: 0 }
    }
    fn is_covered(&self, k: i64) -> bool { k < 1 || (k < 32 && self.covered & (1 << k) != 0) }
    fn cover(&mut self, k: i64) { if (1..32).contains(&k) { self.covered |= 1 << k; } }
    fn was_ever_covered(&self, k: i64) -> bool { self.is_covered(k) || (k < 32 && self.ever & (1 << k) != 0) }
    fn lowest_uncovered(&self) -> i64 { (1..32).find(|k| !self.is_covered(*k)).unwrap() }
    fn lower_all_covered(&self, n: i64) -> bool { (1..n).all(|k| self.is_covered(k)) }
    fn partially_received(&self, k: i64) -> bool { (1..32).contains(&k) && !self.is_covered(k) && self.frags[k as usize] != 0 }
    fn missing_frags(&self, k: i64) -> Vec<u32> { (1..=FRAGS).filter(|f| self.frags[k as usize] & (1 << f) == 0).collect() }
    fn sample_arrived(&mut self, s: i64, pay_step: usize, ts_step: usize) {
      self.carried.push((s, pay_step, ts_step));
      if !self.was_ever_covered(s) { self.due |= 1 << s; }
      self.cover(s);
    }
    // returns whether the operation is a HEARTBEAT that has to be treated as new (not a duplicate)
    fn apply(&mut self, st: &Step, step: usize) -> bool {
      match st.op {
        // a parameter of the inline QoS that cannot be parsed does not make the value unusable
        Op::Data(s) | Op::BadQos(s) => { self.sample_arrived(s, step, step); false }
        Op::Preempt | Op::Reannounce => false,
        // A new match: the reader starts from scratch with this writer (what it requests and acknowledges refers to the new
        // match only, and so does the promptness of the hand-over); what the application has been handed stays handed.
        Op::Rematch => {
          self.ever |= self.covered;
          self.covered = 0;
          self.due = 0;
          self.prev_base = i64::MIN;
          self.prev_count = None;
          self.prev_kind_count = [None, None];
          self.advertised = None;
          self.hb_count_seen = 0;
          false
        }
        // only the numBits valid bits of the bitmap count, whatever the padding holds
        Op::GapWire(a, b, nbits, bits) => {
          for k in a..b { self.cover(k); }
          for i in 0..nbits as i64 { if bits & (1 << i) != 0 { self.cover(b + i); } }
          false
        }
        // the DATA for s has arrived, but it carries nothing that could be handed over: s is not missing any more
        Op::Unusable(s, _) => { self.cover(s); false }
        Op::Frag(s, f) => {
          if !self.is_covered(s) {
            self.frags[s as usize] |= 1 << f;
            if self.frags[s as usize] == ALL_FRAGS {
              self.frags[s as usize] = 0;
              self.sample_arrived(s, FRAG_PAYLOAD_STEP, step);
            }
          }
          false
        }
        Op::Gap(a, b, bits) => {
          for k in a..b { self.cover(k); }
          if bits & 1 != 0 { self.cover(b); }
          if bits & 2 != 0 { self.cover(b + 1); }
          false
        }
        Op::Hb(f, l, _) => {
          if st.count <= self.hb_count_seen { return false; }
          self.hb_count_seen = st.count;
          for k in 1..f { self.cover(k); }
          self.advertised = Some((f, l));
          true
        }
      }
    }
  }

  // ------------------------------------------------------------------ the rig: real Reader + real DataReader

  static WRITER_SERIAL: AtomicU64 = AtomicU64::new(1);
  static SHARED_DP: Mutex<Option<DomainParticipant>> = Mutex::new(None);

  fn shared_participant() -> DomainParticipant {
    let mut g = SHARED_DP.lock().unwrap_or_else(|e| e.into_inner());
    if g.is_none() { *g = Some(DomainParticipant::new(0).expect("DomainParticipant::new")); }
    g.as_ref().unwrap().clone()
  }

  // receiving ends of the Reader's channels, kept alive as long as the Reader
  struct Keep {
    _n: mio_channel::Receiver<()>,
    _p: PollEventSource,
    _s: StatusChannelReceiver<DataReaderStatus>,
    _ps: StatusChannelReceiver<DomainParticipantStatusEvent>,
    _c: mio_channel::SyncSender<ReaderCommand>,
  }

  struct Rig {
    _dp: DomainParticipant,
    sub: Subscriber,
    topic: Topic,
    qos: QosPolicies,
    topic_cache: Arc<Mutex<TopicCache>>,
    datareader: Option<DataReader<RandomData>>,
    datareader_uses: usize,
    reader: Option<(Reader, Keep)>,
    reader_uses: usize,
    udp_sender: Rc<UDPSender>,
    sockets: Vec<UdpSocket>,
    reader_guid: GUID,
    n_acknacks: u64,
    n_nackfrags: u64,
    n_handed: u64,
    check_complete: bool, // handover.complete is checked (not in the two-reader test: see there)
  }

  struct Writer {
    guid: GUID,
    mr_state: MessageReceiverState,
    tag: u64,
    locator: Locator,
    qos: QosPolicies,
  }

  struct Reply {
    socket: usize,
    dst: Option<GuidPrefix>,
    acknacks: Vec<(i64, Vec<i64>, i32, EntityId, EntityId)>, // base, listed, count, reader_id, writer_id
    nackfrags: Vec<(i64, Vec<u32>, i32, EntityId, EntityId)>, // sn, fragments, count, reader_id, writer_id
  }

  impl std::fmt::Debug for Reply {
    fn fmt(&self, f: &mut std::fmt::Formatter<'_>) -> std::fmt::Result {
      write!(f, "to w{}:", self.socket)?;
      for (base, listed, count, _, _) in &self.acknacks { write!(f, " ACKNACK(base={},missing={:?},count={})", base, listed, count)?; }
      for (s, frags, count, _, _) in &self.nackfrags { write!(f, " NACKFRAG(sn={},fragments={:?},count={})", s, frags, count)?; }
      Ok(())
    }
  }

  impl Rig {
    fn new(name: &str, n_writers: usize) -> Rig {
      let dp = shared_participant();
      let qos = QosPolicyBuilder::new()
        .reliability(Reliability::Reliable { max_blocking_time: Duration::from_millis(100) })
        .history(History::KeepAll)
        .build();
      let sub = dp.create_subscriber(&qos).unwrap();
      let topic = dp
        .create_topic(format!("verif_xc_reader_path_{name}"), "RandomData".to_string(), &qos, TopicKind::WithKey)
        .unwrap();
      let topic_cache = dp.dds_cache().write().unwrap().add_new_topic(topic.name(), topic.get_type(), &qos);
      let mut sockets = vec![];
      for _ in 0..n_writers {
        let s = UdpSocket::bind("127.0.0.1:0").expect("bind 127.0.0.1");
        s.set_nonblocking(true).unwrap();
        sockets.push(s);
      }
      let reader_guid = GUID::new_with_prefix_and_id(
        dp.guid_prefix(),
        EntityId::create_custom_entity_id([0x7e, 0x57, 0x01], EntityKind::READER_WITH_KEY_USER_DEFINED),
      );
      Rig {
        _dp: dp, sub, topic, qos, topic_cache, datareader: None, datareader_uses: 0, reader: None, reader_uses: 0,
        udp_sender: Rc::new(UDPSender::new(0).unwrap()), sockets, reader_guid,
        n_acknacks: 0, n_nackfrags: 0, n_handed: 0, check_complete: true,
      }
    }

    fn make_reader(&self, guid: GUID, qos: &QosPolicies) -> (Reader, Keep) {
      let (notification_sender, n) = mio_channel::sync_channel::<()>(100);
      let (p, poll_event_sender) = mio_source::make_poll_channel().unwrap();
      let (status_sender, s) = sync_status_channel::<DataReaderStatus>(4).unwrap();
      let (participant_status_sender, ps) = sync_status_channel(16).unwrap();
      let (c, data_reader_command_receiver) = mio_channel::sync_channel::<ReaderCommand>(10);
      let ing = ReaderIngredients {
        guid,
        notification_sender,
        status_sender,
        topic_name: self.topic.name(),
        topic_cache_handle: self.topic_cache.clone(),
        like_stateless: false,
        qos_policy: qos.clone(),
        data_reader_command_receiver,
        data_reader_waker: Arc::new(Mutex::new(None)),
        poll_event_sender,
        security_plugins: None,
      };
      let reader =
        Reader::new(ing, self.udp_sender.clone(), mio_extras::timer::Builder::default().build(), participant_status_sender);
      (reader, Keep { _n: n, _p: p, _s: s, _ps: ps, _c: c })
    }

    // A fresh (empty) TopicCache behind the shared handle, a Reader, and fresh matched writers (GUIDs never
    // used before). The Reader (it has no state across writers) is rebuilt every 500 sequences: its
    // construction costs three socketpairs.
    fn fresh(&mut self) -> (Reader, Keep, Vec<Writer>) {
      *self.topic_cache.lock().unwrap() = TopicCache::new(self.topic.name(), self.topic.get_type(), &self.qos);
      // The DataReader keeps a read pointer per writer GUID it has ever seen: renew it now and then.
      if self.datareader.is_none() || self.datareader_uses >= 20_000 {
        self.datareader = None;
        self.datareader = Some(
          self.sub
            .create_datareader::<RandomData, CDRDeserializerAdapter<RandomData>>(&self.topic, Some(self.qos.clone()))
            .unwrap(),
        );
        self.datareader_uses = 0;
      }
      self.datareader_uses += 1;

      if self.reader_uses >= 500 { self.reader = None; }
      let (mut reader, keep) = match self.reader.take() {
        Some(rk) => rk,
        None => {
          self.reader_uses = 0;
          self.make_reader(self.reader_guid, &self.qos.clone())
        }
      };
      self.reader_uses += 1;
      let mut writers = vec![];
      for w in 0..self.sockets.len() {
        let tag = WRITER_SERIAL.fetch_add(1, Ordering::Relaxed);
        let mut prefix = [0xEEu8; 12];
        prefix[..8].copy_from_slice(&tag.to_be_bytes());
        prefix[8] = w as u8;
        let guid = GUID::new_with_prefix_and_id(
          GuidPrefix::new(&prefix),
          EntityId::create_custom_entity_id([1, 1, w as u8 + 1], EntityKind::WRITER_WITH_KEY_USER_DEFINED),
        );
        let locator = Locator::from(self.sockets[w].local_addr().unwrap());
        reader.matched_writer_add(guid, EntityId::UNKNOWN, vec![locator.clone()], vec![], &self.qos);
        let mr_state = MessageReceiverState { source_guid_prefix: guid.prefix, ..Default::default() };
        writers.push(Writer { guid, mr_state, tag, locator, qos: self.qos.clone() });
      }
      (reader, keep, writers)
    }

    // end of a sequence: unmatch the writers and keep the Reader for the next sequence
    fn give_back(&mut self, mut reader: Reader, keep: Keep, writers: &[Writer]) {
      for w in writers { reader.remove_writer_proxy(w.guid); }
      self.reader = Some((reader, keep));
    }

    fn drain_sockets(&self, expect_some: bool) -> Vec<Reply> {
      let mut out = vec![];
      let mut buf = [0u8; 2048];
      let mut spins = 0;
      loop {
        for (i, s) in self.sockets.iter().enumerate() {
          while let Ok((n, _from)) = s.recv_from(&mut buf) {
            let msg = Message::read_from_buffer(&Bytes::copy_from_slice(&buf[..n])).expect("reply is not an RTPS message");
            let mut r = Reply { socket: i, dst: None, acknacks: vec![], nackfrags: vec![] };
            for sm in &msg.submessages {
              match &sm.body {
                SubmessageBody::Interpreter(InterpreterSubmessage::InfoDestination(d, _)) => r.dst = Some(d.guid_prefix),
                SubmessageBody::Reader(ReaderSubmessage::AckNack(a, _)) => r.acknacks.push((
                  i64::from(a.reader_sn_state.base()),
                  a.reader_sn_state.iter().map(i64::from).collect(),
                  a.count, a.reader_id, a.writer_id,
                )),
                SubmessageBody::Reader(ReaderSubmessage::NackFrag(nf, _)) => r.nackfrags.push((
                  i64::from(nf.writer_sn),
                  nf.fragment_number_state.iter().map(u32::from).collect(),
                  nf.count, nf.reader_id, nf.writer_id,
                )),
                _ => {}
              }
            }
            out.push(r);
          }
        }
        // Loopback delivery is synchronous on Linux; still, give a claimed reply a moment to show up.
        if !out.is_empty() || !expect_some || spins >= 200 { return out; }
        spins += 1;
        std::thread::sleep(std::time::Duration::from_micros(100));
      }
    }
  }

  fn sample_for(tag: u64, sn: i64, step: usize) -> RandomData {
    // 7 characters + NUL: the serialized payload is 4 + 8 + 4 + 8 = 24 bytes = 3 fragments of 8 bytes
    RandomData { a: 7, b: format!("{:02x}{:02x}{:03x}", tag & 0xff, sn & 0xff, step & 0xfff) }
  }
  fn source_ts(tag: u64, step: usize) -> Timestamp {
    Timestamp::from_ticks(((1_000_000 + (tag & 0xfffff)) << 32) | (step as u64 + 1))
  }
  fn payload_bytes(tag: u64, sn: i64, step: usize) -> Bytes {
    SerializedPayload {
      representation_identifier: RepresentationIdentifier::CDR_LE,
      representation_options: [0, 0],
      value: Bytes::from(to_vec::<RandomData, LittleEndian>(&sample_for(tag, sn, step)).unwrap()),
    }
    .into()
  }
  fn sn(i: i64) -> SequenceNumber { SequenceNumber::new(i) }
  // bitmap word of a GAP-FROM-WIRE: valid bits (MSB first) as chosen, all padding bits 1
  fn gap_wire_word(nbits: u8, bits: u8) -> u32 {
    let valid: u32 = (0..nbits as u32).filter(|i| bits & (1 << i) != 0).map(|i| 1u32 << (31 - i)).sum();
    valid | (u32::MAX >> nbits)
  }

  // Feed one operation of writer `w` to the real reader. Returns what handle_heartbeat_msg claimed.
  fn feed(reader: &mut Reader, w: &Writer, st: &Step, step: usize) -> bool {
    let reader_id = reader.entity_id();
    let writer_id = w.guid.entity_id;
    let mut mr_state = w.mr_state.clone();
    mr_state.source_timestamp = Some(source_ts(w.tag, step));
    match st.op {
      Op::Data(s) => {
        let data = Data {
          reader_id, writer_id, writer_sn: sn(s),
          serialized_payload: Some(payload_bytes(w.tag, s, step)),
          ..Data::default()
        };
        reader.handle_data_msg(data, DATA_Flags::Endianness | DATA_Flags::Data, &mr_state);
        false
      }
      Op::BadQos(s) => {
        let mut inline_qos = ParameterList::new();
        // a related_sample_identity is 24 bytes (GUID + sequence number); this one has 4
        inline_qos.push(Parameter::new(ParameterId::PID_RELATED_SAMPLE_IDENTITY, vec![0xde, 0xad, 0xbe, 0xef]));
        let data = Data {
          reader_id, writer_id, writer_sn: sn(s),
          inline_qos: Some(inline_qos),
          serialized_payload: Some(payload_bytes(w.tag, s, step)),
        };
        reader.handle_data_msg(data, DATA_Flags::Endianness | DATA_Flags::InlineQos | DATA_Flags::Data, &mr_state);
        false
      }
      Op::Preempt => { reader.send_preemptive_acknacks(); false }
      Op::Rematch => {
        reader.remove_writer_proxy(w.guid);
        reader.matched_writer_add(w.guid, EntityId::UNKNOWN, vec![w.locator.clone()], vec![], &w.qos);
        false
      }
      Op::Reannounce => { reader.matched_writer_add(w.guid, EntityId::UNKNOWN, vec![w.locator.clone()], vec![], &w.qos); false }
      Op::GapWire(a, b, nbits, bits) => {
        let mut gap_list = SequenceNumberSet::new(sn(b), nbits as u32);
        for i in 0..nbits as i64 { if bits & (1 << i) != 0 { gap_list.test_insert(sn(b + i)); } }
        let mut message = Message::new(Header::new(w.guid.prefix));
        message.add_submessage(
          Gap { reader_id, writer_id, gap_start: sn(a), gap_list }.create_submessage(BitFlags::from_flag(GAP_Flags::Endianness)).unwrap(),
        );
        let mut bytes = message.write_to_vec_with_ctx(Endianness::LittleEndian).unwrap();
        // the single bitmap word is the last thing in the message: fill its padding bits with ones
        let at = bytes.len() - 4;
        let word = u32::from_le_bytes([bytes[at], bytes[at + 1], bytes[at + 2], bytes[at + 3]]);
        assert!(word | (u32::MAX >> nbits) == gap_wire_word(nbits, bits), "test setup: bitmap word {:#x}", word);
        bytes[at..].copy_from_slice(&gap_wire_word(nbits, bits).to_le_bytes());
        let parsed = Message::read_from_buffer(&Bytes::from(bytes)).expect("GAP with garbage in the padding bits is a valid message");
        let mut fed = false;
        for sm in parsed.submessages {
          if let SubmessageBody::Writer(WriterSubmessage::Gap(gap, _)) = sm.body {
            reader.handle_gap_msg(&gap, &mr_state);
            fed = true;
          }
        }
        assert!(fed, "test setup: the parsed message has no GAP");
        false
      }
      Op::Unusable(s, var) => {
        let data = Data {
          reader_id, writer_id, writer_sn: sn(s),
          inline_qos: None,
          serialized_payload: if var == 0 { None } else { Some(payload_bytes(w.tag, s, step)) },
        };
        let flags = if var == 0 { BitFlags::<DATA_Flags>::empty() } else { DATA_Flags::Endianness | DATA_Flags::Data | DATA_Flags::Key };
        reader.handle_data_msg(data, flags, &mr_state);
        false
      }
      Op::Frag(s, f) => {
        let all = payload_bytes(w.tag, s, FRAG_PAYLOAD_STEP);
        assert!(all.len() == FRAG_SIZE * FRAGS as usize, "test setup: payload is {} bytes", all.len());
        let from = (f as usize - 1) * FRAG_SIZE;
        let df = DataFrag {
          reader_id, writer_id, writer_sn: sn(s),
          fragment_starting_num: FragmentNumber::new(f),
          fragments_in_submessage: 1,
          data_size: all.len() as u32,
          fragment_size: FRAG_SIZE as u16,
          inline_qos: None,
          serialized_payload: all.slice(from..from + FRAG_SIZE),
        };
        reader.handle_datafrag_msg(&df, BitFlags::from_flag(DATAFRAG_Flags::Endianness), &mr_state);
        false
      }
      Op::Gap(a, b, bits) => {
        let mut gap_list = if bits == 0 { SequenceNumberSet::new_empty(sn(b)) } else { SequenceNumberSet::new(sn(b), 2) };
        if bits & 1 != 0 { gap_list.test_insert(sn(b)); }
        if bits & 2 != 0 { gap_list.test_insert(sn(b + 1)); }
        reader.handle_gap_msg(&Gap { reader_id, writer_id, gap_start: sn(a), gap_list }, &mr_state);
        false
      }
      Op::Hb(f, l, fin) => {
        let hb = Heartbeat { reader_id, writer_id, first_sn: sn(f), last_sn: sn(l), count: st.count };
        reader.handle_heartbeat_msg(&hb, fin, &mr_state)
      }
    }
  }

  // ------------------------------------------------------------------ the oracle

  // what the witness shows: the operations fed so far and when the application called take()
  struct Tr<'a> {
    ops: &'a [Step],
    takes: u32,
  }
  impl std::fmt::Debug for Tr<'_> {
    fn fmt(&self, f: &mut std::fmt::Formatter<'_>) -> std::fmt::Result {
      write!(f, "{:?}", self.ops)?;
      let every = (0..self.ops.len()).all(|i| self.takes & (1 << i) != 0);
      if !every {
        let at: Vec<usize> = (0..self.ops.len()).filter(|i| self.takes & (1 << i) != 0 || i + 1 == self.ops.len()).map(|i| i + 1).collect();
        write!(f, " take() only after steps {:?}", at)?;
      }
      TWO_READERS_NOTE.with(|c| write!(f, "{}", c.borrow()))?;
      Ok(())
    }
  }

  // (1) hand-over: drain the DataReader and compare with the models. `t` = operations fed so far.
  fn check_handover(t: &Tr, rig: &mut Rig, writers: &[Writer], models: &mut [Model]) {
    let taken = std::panic::catch_unwind(std::panic::AssertUnwindSafe(|| rig.datareader.as_mut().unwrap().take(100, ReadCondition::any())));
    let samples = match taken {
      Ok(r) => r.expect("take"),
      Err(e) => {
        // keep the damage local to this test: the participant (shared by the tests of this module) would die on the poisoned lock
        rig.topic_cache.clear_poison();
        panic!("XC-WITNESS label=handover.nopanic ops={:?}: take() of the reliable DataReader panicked (holding the topic cache lock): {}", t, panic_text(&e))
      }
    };
    for s in samples {
      let id = s.sample_info().sample_identity();
      let info_writer = s.sample_info().writer_guid();
      let src_ts = s.sample_info().source_timestamp();
      let n = i64::from(id.sequence_number);
      let wi = writers.iter().position(|w| w.guid == id.writer_guid);
      assert!(wi.is_some() && info_writer == id.writer_guid,
        "XC-WITNESS label=handover.identity ops={:?}: a sample with writer GUID {:?} sn {} was handed over, no such writer sent anything", t, id.writer_guid, n);
      let wi = wi.unwrap();
      let (w, m) = (&writers[wi], &mut models[wi]);
      let last = m.handed.last().copied().unwrap_or(0);
      assert!(n > last,
        "XC-WITNESS label=handover.order ops={:?} writer=w{}: sample {} handed over after {} (handed over so far {:?}): not strictly increasing / more than once", t, wi, n, last, m.handed);
      let value = s.into_value().value();
      let candidates: Vec<(usize, usize)> = m.carried.iter().filter(|c| c.0 == n).map(|c| (c.1, c.2)).collect();
      assert!(!candidates.is_empty(),
        "XC-WITNESS label=handover.identity ops={:?} writer=w{}: sample {} handed over but no DATA/DATAFRAG carried that sequence number", t, wi, n);
      let matches = candidates
        .iter()
        .any(|(pay, ts)| value.as_ref() == Some(&sample_for(w.tag, n, *pay)) && src_ts == Some(source_ts(w.tag, *ts)));
      assert!(matches,
        "XC-WITNESS label=handover.identity ops={:?} writer=w{}: sample {} handed over with payload {:?} / source timestamp {:?}; the DATA(FRAG)s for that sequence number carried {:?}",
        t, wi, n, value, src_ts, candidates.iter().map(|(pay, ts)| (sample_for(w.tag, n, *pay).b, source_ts(w.tag, *ts))).collect::<Vec<_>>());
      for k in 1..n {
        assert!(m.was_ever_covered(k),
          "XC-WITNESS label=handover.nohole ops={:?} writer=w{}: sample {} handed over although {} was neither received nor declared unavailable (GAP / HEARTBEAT.first)", t, wi, n, k);
      }
      m.handed.push(n);
      rig.n_handed += 1;
    }
    for (wi, m) in models.iter().enumerate() {
      if !rig.check_complete { break; }
      for n in 1..32 {
        if m.due & (1 << n) != 0 && !m.handed.contains(&n) && m.lower_all_covered(n) {
          panic!("XC-WITNESS label=handover.complete ops={:?} writer=w{}: data of sample {} arrived while it was missing and every lower sequence number is received or declared unavailable, but take() does not hand it over (handed over so far {:?})", t, wi, n, m.handed);
        }
      }
    }
  }

  fn panic_text(e: &Box<dyn std::any::Any + Send>) -> String {
    e.downcast_ref::<String>().cloned().or_else(|| e.downcast_ref::<&str>().map(|s| s.to_string())).unwrap_or_else(|| "?".to_string())
  }

  // (2) replies: everything the reader sent during the last step
  fn check_replies(t: &Tr, rig: &mut Rig, writers: &[Writer], models: &mut [Model], new_hb: bool, claimed: bool) {
    let cur = t.ops.last().unwrap();
    let replies = rig.drain_sockets(claimed);
    let mut answered_by_acknack = false;
    let mut lowest_requested = false;
    // what has to be requested, if the current step is a new heartbeat
    let lowest_missing = match (cur.op, new_hb) {
      (Op::Hb(f, l, _), true) => (std::cmp::max(f, 1)..=l).find(|k| !models[cur.w].is_covered(*k)),
      _ => None,
    };
    let mut step_counts: Vec<Vec<i32>> = writers.iter().map(|_| vec![]).collect();
    for r in &replies {
      let wi = r.socket;
      let (w, m) = (&writers[wi], &mut models[wi]);
      assert!(r.dst == Some(w.guid.prefix),
        "XC-WITNESS label=acknack.addressee ops={:?}: reply sent to the locator of w{} carries INFO_DST {:?}", t, wi, r.dst);
      let counts = &mut step_counts[wi];
      for (base, listed, count, reader_id, writer_id) in &r.acknacks {
        rig.n_acknacks += 1;
        assert!(*writer_id == w.guid.entity_id && *reader_id == rig.reader_guid.entity_id,
          "XC-WITNESS label=acknack.addressee ops={:?}: ACKNACK sent to w{} names reader {:?} writer {:?}", t, wi, reader_id, writer_id);
        let lu = m.lowest_uncovered();
        assert!(*base <= lu,
          "XC-WITNESS label=acknack.base ops={:?} writer=w{}: ACKNACK base {} acknowledges sequence number {}, which was neither received nor declared unavailable (listed {:?})", t, wi, base, lu, listed);
        assert!(*base >= m.prev_base,
          "XC-WITNESS label=acknack.mono ops={:?} writer=w{}: ACKNACK base went back from {} to {}", t, wi, m.prev_base, base);
        m.prev_base = *base;
        let (f, l) = m.advertised.unwrap_or((1, 0));
        for k in listed {
          assert!(!m.is_covered(*k),
            "XC-WITNESS label=acknack.listed ops={:?} writer=w{}: ACKNACK (base {}, set {:?}) lists {} as missing, but it was received or declared unavailable", t, wi, base, listed, k);
          assert!(f <= *k && *k <= l,
            "XC-WITNESS label=acknack.listed ops={:?} writer=w{}: ACKNACK (base {}, set {:?}) lists {}, outside the range [{},{}] the writer last advertised", t, wi, base, listed, k, f, l);
        }
        if wi == cur.w && is_hb(cur.op) {
          answered_by_acknack = true;
          if let Some(lm) = lowest_missing { if listed.contains(&lm) { lowest_requested = true; } }
        }
        check_kind_count(t, wi, m, 0, *count);
        counts.push(*count);
      }
      for (s, frags, count, reader_id, writer_id) in &r.nackfrags {
        rig.n_nackfrags += 1;
        assert!(*writer_id == w.guid.entity_id && *reader_id == rig.reader_guid.entity_id,
          "XC-WITNESS label=acknack.addressee ops={:?}: NACKFRAG sent to w{} names reader {:?} writer {:?}", t, wi, reader_id, writer_id);
        let (f, l) = m.advertised.unwrap_or((1, 0));
        assert!(!m.is_covered(*s) && f <= *s && *s <= l,
          "XC-WITNESS label=acknack.nackfrag ops={:?} writer=w{}: NACKFRAG for sequence number {}, which is {} (advertised range [{},{}])", t, wi, s,
          if m.is_covered(*s) { "already received or declared unavailable" } else { "outside the advertised range" }, f, l);
        let want = m.missing_frags(*s);
        assert!(m.partially_received(*s) && *frags == want,
          "XC-WITNESS label=acknack.nackfrag ops={:?} writer=w{}: NACKFRAG for sequence number {} names fragments {:?}, really missing are {:?}{}", t, wi, s, frags, want,
          if m.partially_received(*s) { "" } else { " (no fragment of it has arrived: it has to be requested by ACKNACK)" });
        if wi == cur.w && lowest_missing == Some(*s) { lowest_requested = true; }
        check_kind_count(t, wi, m, 1, *count);
        counts.push(*count);
      }
    }
    // The replies to ONE heartbeat (NACKFRAG datagram, then ACKNACK datagram) are taken as a unit: their
    // counts must be pairwise different and greater than every count used in an earlier step.
    for (wi, counts) in step_counts.iter().enumerate() {
      let m = &mut models[wi];
      for (i, c) in counts.iter().enumerate() {
        assert!(m.prev_count.map_or(true, |p| *c > p) && !counts[..i].contains(c),
          "XC-WITNESS label=acknack.count ops={:?} writer=w{}: reply count {} (counts of this step {:?}) is not greater than an earlier count (highest so far {:?})", t, wi, c, counts, m.prev_count);
      }
      if let Some(mx) = counts.iter().max() { m.prev_count = Some(m.prev_count.map_or(*mx, |p| std::cmp::max(p, *mx))); }
    }
    if let Op::Hb(f, l, fin) = cur.op {
      if !new_hb {
        assert!(replies.is_empty(),
          "XC-WITNESS label=acknack.dup ops={:?}: the last HEARTBEAT repeats a count already processed, but it was answered: {:?}", t, replies);
      } else {
        if f >= 1 && !fin {
          assert!(answered_by_acknack,
            "XC-WITNESS label=acknack.respond ops={:?}: HEARTBEAT({},{}) without final flag was not answered by an ACKNACK (handle_heartbeat_msg returned {})", t, f, l, claimed);
        }
        if let Some(lm) = lowest_missing {
          assert!(lowest_requested,
            "XC-WITNESS label=acknack.lowest ops={:?}: HEARTBEAT({},{}) advertises {}, which is neither received nor declared unavailable, but it is not requested{}; replies: {:?}", t, f, l, lm,
            if models[cur.w].partially_received(lm) { " (neither by ACKNACK nor by a NACKFRAG)" } else { " by an ACKNACK" }, replies);
        }
      }
    }
  }

  // per submessage kind the count grows in wire order
  fn check_kind_count(t: &Tr, wi: usize, m: &mut Model, kind: usize, count: i32) {
    assert!(m.prev_kind_count[kind].map_or(true, |p| count > p),
      "XC-WITNESS label=acknack.count ops={:?} writer=w{}: {} count {} follows {} count {:?}: does not grow", t, wi,
      ["ACKNACK", "NACKFRAG"][kind], count, ["ACKNACK", "NACKFRAG"][kind], m.prev_kind_count[kind]);
    m.prev_kind_count[kind] = Some(count);
  }

  // Run one operation sequence on a fresh reader, checking after every step.
  fn run(rig: &mut Rig, seq: &[Step]) { run_takes(rig, seq, u32::MAX) }

  // `takes`: bit i set = the application calls take() after step i (it always does after the last step)
  fn run_takes(rig: &mut Rig, seq: &[Step], takes: u32) {
    let (mut reader, keep, writers) = rig.fresh();
    let mut models: Vec<Model> = writers.iter().map(|_| Model::new()).collect();
    for (i, st) in seq.iter().enumerate() {
      let new_hb = models[st.w].apply(st, i);
      let claimed = feed(&mut reader, &writers[st.w], st, i);
      let t = &Tr { ops: &seq[..=i], takes };
      if takes & (1 << i) != 0 || i + 1 == seq.len() { check_handover(t, rig, &writers, &mut models); }
      check_replies(t, rig, &writers, &mut models, new_hb, claimed);
    }
    rig.give_back(reader, keep, &writers);
  }

  fn w0(ops: &[Op]) -> Vec<Step> { ops.iter().enumerate().map(|(i, op)| Step { w: 0, op: *op, count: i as i32 + 1 }).collect() }

  fn loopback_works() {
    let a = UdpSocket::bind("127.0.0.1:0").expect("bind");
    let b = UdpSocket::bind("127.0.0.1:0").expect("bind");
    b.set_nonblocking(true).unwrap();
    a.send_to(b"x", b.local_addr().unwrap()).expect("send on loopback");
    let mut buf = [0u8; 4];
    assert!(b.recv_from(&mut buf).is_ok(), "loopback UDP is not delivered synchronously in this environment: ACKNACKs cannot be observed");
  }

  // ------------------------------------------------------------------ tests

  fn len2_full(rig: &mut Rig) {
    let full = full_alphabet();
    assert!(full.len() == 169);
    let (mut n, a0, h0) = (0u64, rig.n_acknacks, rig.n_handed);
    for &a in &full {
      run(rig, &w0(&[a]));
      n += 1;
    }
    for &a in &full {
      for &b in &full {
        run(rig, &w0(&[a, b]));
        run_takes(rig, &w0(&[a, b]), 0); // the application takes only at the end
        n += 2;
      }
    }
    assert!(n > 40_000 && rig.n_acknacks - a0 > 20_000 && rig.n_handed - h0 > 600,
      "vacuity guard: {} sequences, {} ACKNACKs observed, {} samples handed over", n, rig.n_acknacks - a0, rig.n_handed - h0);
  }

  fn len3(part: usize, parts: usize) {
    let full = full_alphabet();
    let small = small_alphabet();
    assert!(small.len() == 29);
    let mut rig = Rig::new(&format!("len3_{part}"), 1);
    let mut n = 0u64;
    for &a in &small {
      for (ib, &b) in full.iter().enumerate() {
        if ib % parts != part { continue; }
        for &c in &full {
          run(&mut rig, &w0(&[a, b, c]));
          n += 1;
        }
      }
    }
    assert!(n > 100_000 && rig.n_acknacks > 10_000 && rig.n_handed > 1_000,
      "vacuity guard: {} sequences, {} ACKNACKs observed, {} samples handed over", n, rig.n_acknacks, rig.n_handed);
  }
  #[test]
  fn xc_reader_a_len3_part0() { len3(0, 6); }
  #[test]
  fn xc_reader_a_len3_part1() { len3(1, 6); }
  #[test]
  fn xc_reader_a_len3_part2() { len3(2, 6); }
  #[test]
  fn xc_reader_a_len3_part3() { len3(3, 6); }
  #[test]
  fn xc_reader_a_len3_part4() { len3(4, 6); }
  #[test]
  fn xc_reader_a_len3_part5() { len3(5, 6); }

  fn len4(part: usize, parts: usize) {
    let small = small_alphabet();
    let mut rig = Rig::new(&format!("len4_{part}"), 1);
    let mut n = 0u64;
    for &a in &small { for (ib, &b) in small.iter().enumerate() {
      if ib % parts != part { continue; }
      for &c in &small { for &d in &small {
        run(&mut rig, &w0(&[a, b, c, d]));
        n += 1;
      } }
    } }
    assert!(n > 70_000 && rig.n_acknacks > 10_000 && rig.n_handed > 1_000,
      "vacuity guard: {} sequences, {} ACKNACKs observed, {} samples handed over", n, rig.n_acknacks, rig.n_handed);
  }
  #[test]
  fn xc_reader_a_len4_part0() { len4(0, 8); }
  #[test]
  fn xc_reader_a_len4_part1() { len4(1, 8); }
  #[test]
  fn xc_reader_a_len4_part2() { len4(2, 8); }
  #[test]
  fn xc_reader_a_len4_part3() { len4(3, 8); }
  #[test]
  fn xc_reader_a_len4_part4() { len4(4, 8); }
  #[test]
  fn xc_reader_a_len4_part5() { len4(5, 8); }
  #[test]
  fn xc_reader_a_len4_part6() { len4(6, 8); }
  #[test]
  fn xc_reader_a_len4_part7() { len4(7, 8); }

  #[test]
  fn xc_reader_b_len2_two_writers() {
    loopback_works();
    let mut rig = Rig::new("len2", 1);
    len2_full(&mut rig);

    // --- two writers interleaved, with different moments at which the application calls take()
    let tiny = [
      Op::Data(1), Op::Data(2), Op::Data(3), Op::Unusable(1, 0), Op::Gap(1, 1, 1), Op::Gap(1, 2, 0), Op::Gap(2, 3, 0),
      Op::Hb(1, 3, false), Op::Hb(2, 3, true), Op::Hb(1, 2, false), Op::Hb(3, 3, true), Op::Preempt,
    ];
    let mut rig = Rig::new("two", 2);
    let mut n = 0u64;
    for &a1 in &tiny { for &a2 in &tiny { for &b1 in &tiny { for &b2 in &tiny {
      if b1 == Op::Preempt || b2 == Op::Preempt { continue; } // the timer belongs to the reader, not to a writer
      let seq = [
        Step { w: 0, op: a1, count: 1 }, Step { w: 1, op: b1, count: 1 },
        Step { w: 0, op: a2, count: 2 }, Step { w: 1, op: b2, count: 2 },
      ];
      for takes in [0b111, 0b000, 0b101, 0b010] {
        run_takes(&mut rig, &seq, takes);
        n += 1;
      }
    } } } }
    assert!(n == 4 * 144 * 121 && rig.n_acknacks > 10_000 && rig.n_handed > 10_000,
      "vacuity guard: {} two-writer sequences, {} ACKNACKs, {} samples", n, rig.n_acknacks, rig.n_handed);

  }

  #[test]
  fn xc_reader_b_dup_heartbeat_frag() {
    loopback_works();
    // --- duplicate / stale heartbeats
    let small = small_alphabet();
    let non_hb: Vec<Op> = small.iter().copied().filter(|o| !is_hb(*o)).collect();
    let hbs: Vec<Op> = small.iter().copied().filter(|o| is_hb(*o)).collect();
    let mut rig = Rig::new("dup", 1);
    let (mut n, a0) = (0u64, rig.n_acknacks);
    for &o1 in &non_hb { for &h1 in &hbs { for &o2 in &non_hb { for &h2 in &hbs { for c2 in [1, 2] {
      let seq = [
        Step { w: 0, op: o1, count: 0 }, Step { w: 0, op: h1, count: 2 },
        Step { w: 0, op: o2, count: 0 }, Step { w: 0, op: h2, count: c2 },
      ];
      run(&mut rig, &seq);
      n += 1;
    } } } } }
    assert!(n > 50_000 && rig.n_acknacks - a0 > 10_000, "vacuity guard: {} duplicate-heartbeat sequences, {} ACKNACKs", n, rig.n_acknacks - a0);

    // --- fragments and NACKFRAG
    let mut fr = vec![];
    for s in 1..=2 { for f in 1..=FRAGS { fr.push(Op::Frag(s, f)); } }
    let mut with_hb = fr.clone();
    with_hb.push(Op::Hb(1, 2, false));
    with_hb.push(Op::Hb(1, 2, true));
    let mut rig = Rig::new("frag", 1);
    let mut n = 0u64;
    for &a in &with_hb { for &b in &with_hb { for &c in &with_hb {
      run(&mut rig, &w0(&[a, b, c]));
      n += 1;
      for &d in &with_hb {
        run(&mut rig, &w0(&[a, b, c, d]));
        n += 1;
      }
    } } }
    let others = [Op::Gap(1, 2, 0), Op::Gap(1, 1, 0), Op::Gap(2, 2, 1), Op::Data(1), Op::Data(2)];
    for &a in &fr { for &b in &fr { for &c in &others { for fin in [false, true] {
      run(&mut rig, &w0(&[a, b, c, Op::Hb(1, 2, fin)]));
      run(&mut rig, &w0(&[a, c, b, Op::Hb(1, 2, fin)]));
      n += 2;
    } } } }
    assert!(n > 4_000 && rig.n_nackfrags > 1_000 && rig.n_handed > 100,
      "vacuity guard: {} fragment sequences, {} NACKFRAGs, {} samples", n, rig.n_nackfrags, rig.n_handed);
  }

  // C09 at reader level: a DATA that cannot be turned into a change, or whose inline QoS has a parameter that
  // cannot be parsed, never prevents later samples of the writer from being handed over (handover.complete)
  // and is not requested again (acknack.listed). Every sequence of length <= 4 over 13 operations.
  #[test]
  fn xc_reader_c09_unintelligible_data() {
    loopback_works();
    let mut ops = vec![];
    for s in 1..=3 { ops.push(Op::Data(s)); ops.push(Op::Unusable(s, 0)); ops.push(Op::BadQos(s)); }
    ops.extend([Op::Unusable(2, 1), Op::Gap(1, 2, 0), Op::Hb(1, 3, false), Op::Hb(1, 3, true)]);
    let mut rig = Rig::new("c09", 1);
    let mut n = 0u64;
    let mut seqs: Vec<Vec<Op>> = vec![vec![]];
    for _len in 1..=4 {
      seqs = seqs.iter().flat_map(|q| ops.iter().map(move |x| { let mut v = q.clone(); v.push(*x); v })).collect();
      for q in &seqs {
        run(&mut rig, &w0(q));
        n += 1;
      }
    }
    assert!(n > 30_000 && rig.n_acknacks > 5_000 && rig.n_handed > 10_000,
      "vacuity guard: {} sequences, {} ACKNACKs observed, {} samples handed over", n, rig.n_acknacks, rig.n_handed);
  }

  // C01 identity through the real MessageReceiver: whole RTPS messages (header of participant A, then every
  // sequence of <= 5 submessages over {INFO_TS(t1), INFO_TS(t2), INFO_TS(invalidate), INFO_SRC(A), INFO_SRC(B), DATA})
  // go through MessageReceiver::handle_received_packet into the Reader; writers (A,e) and (B,e) are matched.
  // Model = RTPS 8.3.4 / 8.3.7.9: the source is the header's, INFO_SRC replaces it and invalidates the timestamp,
  // INFO_TS sets / invalidates the timestamp; a DATA is a sample of (current source, e) with the current timestamp.
  #[test]
  fn xc_reader_msgrx_source_and_timestamp() {
    use crate::{
      messages::submessages::{info_source::InfoSource, submessage_kind::SubmessageKind},
      rtps::{message_receiver::MessageReceiver, MessageBuilder, Submessage},
    };
    #[derive(Clone, Copy, Debug, PartialEq)]
    enum Sm { Ts(u8), TsInvalidate, Src(usize), Data }
    let alphabet = [Sm::Ts(1), Sm::Ts(2), Sm::TsInvalidate, Sm::Src(0), Sm::Src(1), Sm::Data];
    let le = Endianness::LittleEndian;
    let mut rig = Rig::new("msgrx", 1);
    let (acknack_sender, _ar) = mio_channel::sync_channel(10);
    let (spdp_liveness_sender, _sr) = mio_channel::sync_channel(8);
    let mut mr = MessageReceiver::new(rig.reader_guid.prefix, acknack_sender, spdp_liveness_sender, None);
    let eid = EntityId::create_custom_entity_id([2, 2, 2], EntityKind::WRITER_WITH_KEY_USER_DEFINED);
    let (mut n, mut n_samples) = (0u64, 0u64);
    let mut msgs: Vec<Vec<Sm>> = vec![vec![]];
    for _len in 1..=5 {
      msgs = msgs.iter().flat_map(|m| alphabet.iter().map(move |x| { let mut v = m.clone(); v.push(*x); v })).collect();
      for m in &msgs {
        let (mut reader, keep, writers) = rig.fresh();
        let tag = WRITER_SERIAL.fetch_add(1, Ordering::Relaxed);
        let prefixes: Vec<GuidPrefix> = (0..2u8).map(|i| { let mut p = [0xABu8; 12]; p[..8].copy_from_slice(&tag.to_be_bytes()); p[8] = i; GuidPrefix::new(&p) }).collect();
        for p in &prefixes { reader.matched_writer_add(GUID::new(*p, eid), EntityId::UNKNOWN, vec![], vec![], &rig.qos); }
        mr.add_reader(reader);
        // build the message and the model's expectation
        let ts_of = |k: u8| Timestamp::from_ticks((2_000_000u64 + k as u64) << 32);
        let (mut src, mut ts, mut next_sn) = (0usize, None, [1i64, 1]);
        let mut expected: Vec<(GUID, i64, Option<Timestamp>, RandomData)> = vec![];
        let mut message = Message::new(Header::new(prefixes[0]));
        for (i, x) in m.iter().enumerate() {
          match *x {
            Sm::Ts(k) => { ts = Some(ts_of(k)); for sm in MessageBuilder::new().ts_msg(le, ts).add_header_and_build(prefixes[0]).submessages { message.add_submessage(sm); } }
            Sm::TsInvalidate => { ts = None; for sm in MessageBuilder::new().ts_msg(le, None).add_header_and_build(prefixes[0]).submessages { message.add_submessage(sm); } }
            Sm::Src(b) => {
              src = b;
              ts = None;
              let flags = BitFlags::<INFOSOURCE_Flags>::from_endianness(le);
              message.add_submessage(Submessage {
                header: SubmessageHeader { kind: SubmessageKind::INFO_SRC, flags: flags.bits(), content_length: 20 },
                body: SubmessageBody::Interpreter(InterpreterSubmessage::InfoSource(
                  InfoSource { unused: 0, protocol_version: ProtocolVersion::THIS_IMPLEMENTATION, vendor_id: VendorId::THIS_IMPLEMENTATION, guid_prefix: prefixes[b] },
                  flags,
                )),
                original_bytes: None,
              });
            }
            Sm::Data => {
              let writer = GUID::new(prefixes[src], eid);
              let value = sample_for(tag + src as u64, next_sn[src], i);
              let cc = CacheChange::new(writer, sn(next_sn[src]), WriteOptions::default(),
                DDSData::new(SerializedPayload::new(RepresentationIdentifier::CDR_LE, to_vec::<RandomData, LittleEndian>(&value).unwrap())));
              for sm in MessageBuilder::new().data_msg(&cc, rig.reader_guid.entity_id, writer, le, None).add_header_and_build(prefixes[0]).submessages { message.add_submessage(sm); }
              expected.push((writer, next_sn[src], ts, value));
              next_sn[src] += 1;
            }
          }
        }
        mr.handle_received_packet(&Bytes::from(message.write_to_vec_with_ctx(le).unwrap()));
        let mut got: Vec<(GUID, i64, Option<Timestamp>, RandomData)> = rig.datareader.as_mut().unwrap().take(100, ReadCondition::any()).expect("take")
          .into_iter()
          .map(|s| { let i = s.sample_info().clone(); (i.writer_guid(), i64::from(i.sample_identity().sequence_number), i.source_timestamp(), s.into_value().value().expect("value")) })
          .collect();
        got.sort_by_key(|g| (g.0, g.1));
        expected.sort_by_key(|g| (g.0, g.1));
        let show = |v: &Vec<(GUID, i64, Option<Timestamp>, RandomData)>| -> Vec<String> {
          v.iter().map(|(g, k, t, d)| format!("{}#{} source_timestamp={:?} value={}",
            if g.prefix == prefixes[0] { "A" } else if g.prefix == prefixes[1] { "B" } else { "?" }, k, t.map(|t| t.to_ticks() >> 32), d.b)).collect()
        };
        assert!(got == expected,
          "XC-WITNESS label=handover.identity message=[header source=A, {:?}]: handed over {:?}, but the DATA submessages carried {:?} (timestamps: Ts(k) = {} + k)",
          m, show(&got), show(&expected), 2_000_000);
        n_samples += got.len() as u64;
        n += 1;
        let reader = mr.remove_reader(rig.reader_guid).expect("reader");
        rig.give_back(reader, keep, &writers);
      }
    }
    assert!(n == 6 + 36 + 216 + 1296 + 7776 && n_samples > 5_000, "vacuity guard: {} messages, {} samples", n, n_samples);
  }

  // Two local readers of one topic: a RELIABLE Reader+DataReader and a BEST_EFFORT Reader+DataReader on the SAME
  // TopicCache, matched with the same remote writer. Every step is dispatched like the MessageReceiver does it:
  // to both readers (readerId UNKNOWN; in either order) or to the reliable one only (directed submessage).
  // Oracle for the reliable DataReader: the C01 clauses order / at most once / no hole / identity with
  // covered = what was delivered or declared unavailable TO THE RELIABLE READER (plus the ACKNACK oracle on what it
  // sends); for the best-effort DataReader: each sample at most once, with the value its DATA carried.
  // (handover.complete is not checked here: the hand-over bound in the TopicCache is shared by the readers.)
  // Bound: 10 operations x 3 dispatch modes, every sequence of length <= 3; length 4 with every step to both readers.
  #[derive(Clone, Copy, Debug, PartialEq)]
  enum To { BothRelFirst, BothBeFirst, RelOnly, BeOnly }

  #[test]
  fn xc_reader_two_readers_shared_cache() {
    let ops = [
      Op::Data(1), Op::Data(2), Op::Data(3), Op::Data(4), Op::Gap(1, 2, 0), Op::Gap(2, 2, 1), Op::Gap(3, 3, 1),
      Op::Hb(1, 4, false), Op::Hb(2, 4, true), Op::Hb(3, 4, false),
    ];
    let modes: Vec<To> = match std::env::var("XC_TWO_READERS_MODES").as_deref() {
      Ok("all") => vec![To::BothRelFirst, To::BothBeFirst, To::RelOnly, To::BeOnly],
      _ => vec![To::BothRelFirst, To::BothBeFirst, To::RelOnly],
    };
    let mut rig = Rig::new("two_readers", 1);
    rig.check_complete = false;
    let mut be_qos = rig.qos.clone();
    be_qos.reliability = Some(Reliability::BestEffort);
    let be_guid = GUID::new_with_prefix_and_id(
      rig.reader_guid.prefix,
      EntityId::create_custom_entity_id([0x7e, 0x57, 0x02], EntityKind::READER_WITH_KEY_USER_DEFINED),
    );
    let mut be_datareader =
      rig.sub.create_datareader::<RandomData, CDRDeserializerAdapter<RandomData>>(&rig.topic, Some(be_qos.clone())).unwrap();
    let (mut be_reader, _be_keep) = rig.make_reader(be_guid, &be_qos);

    let mut steps: Vec<(Op, To)> = vec![];
    for &op in &ops { for &m in &modes { steps.push((op, m)); } }
    steps.push((Op::Rematch, To::BothRelFirst)); // the writer's participant is lost and found again: re-matched at both readers
    let mut seqs: Vec<Vec<(Op, To)>> = vec![vec![]];
    let (mut n, mut n_be) = (0u64, 0u64);
    for len in 1..=4 {
      seqs = seqs.iter().flat_map(|q| steps.iter().map(move |x| { let mut v = q.clone(); v.push(*x); v })).collect();
      for q in &seqs {
        if len == 4 && q.iter().any(|x| x.1 != To::BothRelFirst || x.0 == Op::Rematch) { continue; }
        let (mut reader, keep, writers) = rig.fresh();
        let w = &writers[0];
        be_reader.matched_writer_add(w.guid, EntityId::UNKNOWN, vec![], vec![], &be_qos);
        let mut models = vec![Model::new()];
        let mut be_handed: Vec<i64> = vec![];
        let mut be_carried: Vec<(i64, usize)> = vec![];
        let mut shown: Vec<String> = vec![];
        for (i, (op, to)) in q.iter().enumerate() {
          let st = Step { w: 0, op: *op, count: i as i32 + 1 };
          shown.push(format!("{:?}->{}", st, match to { To::BothRelFirst => "both(reliable first)", To::BothBeFirst => "both(best-effort first)", To::RelOnly => "reliable only", To::BeOnly => "best-effort only" }));
          let (mut new_hb, mut claimed) = (false, false);
          if *to != To::BeOnly { new_hb = models[0].apply(&st, i); }
          if *to != To::RelOnly { if let Op::Data(s) = op { be_carried.push((*s, i)); } }
          // (experiment switch only) a DATA directed to the best-effort reader is known to the model as carried, not as covered
          if *to == To::BeOnly { if let Op::Data(s) = op { models[0].carried.push((*s, i, i)); } }
          match to {
            To::BothRelFirst => { claimed = feed(&mut reader, w, &st, i); feed(&mut be_reader, w, &st, i); }
            To::BothBeFirst => { feed(&mut be_reader, w, &st, i); claimed = feed(&mut reader, w, &st, i); }
            To::RelOnly => { claimed = feed(&mut reader, w, &st, i); }
            To::BeOnly => { feed(&mut be_reader, w, &st, i); }
          }
          // reliable DataReader and the replies of the reliable Reader: the common oracle, with the dispatch shown
          let steps_so_far: Vec<Step> = q[..=i].iter().enumerate().map(|(j, (o, _))| Step { w: 0, op: *o, count: j as i32 + 1 }).collect();
          TWO_READERS_NOTE.with(|c| *c.borrow_mut() = format!(" dispatch={:?}", shown));
          let t = Tr { ops: &steps_so_far, takes: u32::MAX };
          check_handover(&t, &mut rig, &writers, &mut models);
          if *to != To::BeOnly { check_replies(&t, &mut rig, &writers, &mut models, new_hb, claimed); } else { let _ = rig.drain_sockets(false); }
          // best-effort DataReader
          let be_taken = std::panic::catch_unwind(std::panic::AssertUnwindSafe(|| be_datareader.take(100, ReadCondition::any())));
          let be_samples = match be_taken {
            Ok(r) => r.expect("take"),
            Err(e) => {
              rig.topic_cache.clear_poison();
              panic!("XC-WITNESS label=handover.nopanic ops={:?}: take() of the best-effort DataReader panicked: {}", shown, panic_text(&e))
            }
          };
          for s in be_samples {
            let k = i64::from(s.sample_info().sample_identity().sequence_number);
            let from_w = s.sample_info().writer_guid() == w.guid;
            let value = s.into_value().value();
            assert!(from_w && !be_handed.contains(&k),
              "XC-WITNESS label=handover.besteffort.once ops={:?}: the best-effort DataReader was handed sample {} {} (handed over before: {:?})", shown, k,
              if from_w { "a second time" } else { "of an unknown writer" }, be_handed);
            assert!(models[0].carried.iter().map(|c| (c.0, c.1)).chain(be_carried.iter().copied()).any(|(sn_, stp)| sn_ == k && value.as_ref() == Some(&sample_for(w.tag, k, stp))),
              "XC-WITNESS label=handover.besteffort.identity ops={:?}: the best-effort DataReader was handed sample {} with value {:?}, which no DATA carried", shown, k, value);
            if std::env::var("XC_TWO_READERS_BE_INCREASING").is_ok() {
              assert!(be_handed.last().map_or(true, |l| k > *l), "XC-WITNESS label=handover.besteffort.order ops={:?}: best-effort DataReader was handed {} after {:?}", shown, k, be_handed);
            }
            be_handed.push(k);
            n_be += 1;
          }
        }
        TWO_READERS_NOTE.with(|c| c.borrow_mut().clear());
        be_reader.remove_writer_proxy(w.guid);
        rig.give_back(reader, keep, &writers);
        n += 1;
      }
    }
    assert!(n > 30_000 && rig.n_handed > 15_000 && n_be > 20_000 && rig.n_acknacks > 5_000,
      "vacuity guard: {} sequences, {} samples to the reliable DataReader, {} to the best-effort one, {} ACKNACKs", n, rig.n_handed, n_be, rig.n_acknacks);
  }

  thread_local! { static TWO_READERS_NOTE: std::cell::RefCell<String> = std::cell::RefCell::new(String::new()); }

  // C06 / C01 around a writer that is unmatched and matched again (participant lost, then rediscovered): no take()
  // panics (handover.nopanic), nothing is handed over twice or out of order, and the ACKNACK oracle holds within each
  // match. Every sequence of length <= 4 over 10 operations, with take() after every step and with take() only at the end.
  #[test]
  fn xc_reader_rematch_nopanic() {
    loopback_works();
    let ops = [
      Op::Data(1), Op::Data(2), Op::Data(3), Op::Gap(1, 2, 0), Op::Gap(2, 2, 1), Op::Unusable(1, 0),
      Op::Hb(1, 3, false), Op::Hb(3, 3, true), Op::Reannounce, Op::Rematch,
    ];
    let mut rig = Rig::new("rematch", 1);
    let (mut n, mut n_rematch) = (0u64, 0u64);
    let mut seqs: Vec<Vec<Op>> = vec![vec![]];
    for _len in 1..=4 {
      seqs = seqs.iter().flat_map(|q| ops.iter().map(move |x| { let mut v = q.clone(); v.push(*x); v })).collect();
      for q in &seqs {
        if !q.contains(&Op::Rematch) { continue; } // the others are covered by the big enumerations
        run(&mut rig, &w0(q));
        run_takes(&mut rig, &w0(q), 0);
        run_takes(&mut rig, &w0(q), 0b0101);
        n += 3;
        n_rematch += 1;
      }
    }
    assert!(n_rematch > 3_000 && rig.n_handed > 3_000 && rig.n_acknacks > 3_000,
      "vacuity guard: {} runs, {} sequences with a re-match, {} samples handed over, {} ACKNACKs", n, n_rematch, rig.n_handed, rig.n_acknacks);
  }
}
