//@ append: src/rtps/writer.rs
// Executable contract of the Writer's match bookkeeping (C11; unit matching) — bounded stand-in /
// witness search on ONE real Writer: update_reader_proxy / reader_lost / participant_lost, INCLUDING
// Writer::matched_reader_update and RtpsReaderProxy::update, which the deductive unit only assumes
// (entry().and_modify().or_insert_with() with capturing closures is outside Engine V).
// Oracle:
//   (property statement) in every history in which each reader GUID keeps the QoS it was announced
//     with: match set == { announced } intersect { compatible };
//   (the clauses of unit matching, for EVERY history) compatible announce of an unknown reader adds it
//     under its own GUID, one PublicationMatched(total+1/+1, current=|set|/+1); re-announce of a matched
//     reader: no event, set unchanged; incompatible announce: set unchanged, one OfferedIncompatibleQos
//     (counter+1/+1, own QoS as offered, the reader's QoS as requested, the violated policy), no match
//     event; loss of a matched reader removes it, one PublicationMatched(total/0, current=|set|/-1);
//     loss of an unknown reader: nothing; participant lost: exactly the readers with that prefix are
//     removed, one (-1) event each, the k-th with current = |set before| - k; total never decreases;
//   frame: no operation changes the proxy of another reader; a re-announce keeps the WHOLE proxy
//     (acknowledged-before, unsent changes, pending gaps, repair mode ...) when locators and QoS are the
//     same, and its acknowledgement state in any case.
// Bound: writer QoS reliable+volatile; readers = 2 participants x 2 entity ids (the SAME two entity ids
//   in both participants) announced with a compatible (reliable, volatile) or an incompatible
//   (transient-local) QoS;
//   (1) every sequence of length <= 4 over the 15 operations {announce(g, compatible|incompatible) x 4
//       GUIDs, reader_lost(g) x 4, participant_lost(P0|P1|a participant never seen)};
//   (2) every sequence of length <= 5 over the 8 operations {announce(g), reader_lost(g), ACKNACK(g)
//       for g in {P0.a, P1.a}, participant_lost(P0|P1)}; the k-th ACKNACK of a matched reader
//       acknowledges everything before k+1 and asks for k+1.
#[cfg(test)]
mod verif_xc_matching_writer {
  use std::{any::Any, fmt, rc::Rc};

  use super::*;
  use crate::{
    dds::{qos::QosPolicyId, statusevents::{sync_status_channel, StatusChannelReceiver}},
    messages::submessages::submessages::AckNack,
    structure::{guid::EntityKind, sequence_number::SequenceNumberSet},
  };

  const NAMES: [&str; 4] = ["P0.a", "P0.b", "P1.a", "P1.b"];
  fn prefix(p: usize) -> GuidPrefix {
    GuidPrefix::new(match p {
      0 => b"xcParticip_0",
      1 => b"xcParticip_1",
      _ => b"xcParticip_2", // never announces anything
    })
  }
  fn rguid(r: usize) -> GUID {
    GUID::new(prefix(r / 2), EntityId::new([0, 0, 7 + (r % 2) as u8], EntityKind::READER_NO_KEY_USER_DEFINED))
  }
  fn rname(g: GUID) -> String {
    (0..4).find(|&r| rguid(r) == g).map_or(format!("{g:?}"), |r| NAMES[r].to_string())
  }
  fn own_qos() -> QosPolicies {
    QosPolicies::builder()
      .reliability(Reliability::Reliable { max_blocking_time: Duration::from_millis(100) })
      .durability(policy::Durability::Volatile)
      .build()
  }
  // a compatible reader requests VOLATILE, an incompatible one TRANSIENT_LOCAL (DDS 2.2.3: offered >= requested)
  fn reader_qos(compatible: bool) -> QosPolicies {
    QosPolicies::builder()
      .reliability(Reliability::Reliable { max_blocking_time: Duration::from_millis(50) })
      .durability(if compatible { policy::Durability::Volatile } else { policy::Durability::TransientLocal })
      .build()
  }

  #[derive(Clone, Copy, PartialEq, Eq)]
  enum Op {
    Announce(usize, bool), // update_reader_proxy(proxy of reader r, compatible / incompatible QoS)
    Lost(usize),           // reader_lost
    PLost(usize),          // participant_lost
    Ack(usize),            // ACKNACK from reader r
  }
  impl fmt::Debug for Op {
    fn fmt(&self, f: &mut fmt::Formatter<'_>) -> fmt::Result {
      match *self {
        Op::Announce(r, c) => write!(f, "update_reader_proxy({},{})", NAMES[r], if c { "compatible" } else { "incompatible" }),
        Op::Lost(r) => write!(f, "reader_lost({})", NAMES[r]),
        Op::PLost(p) => write!(f, "participant_lost(P{p})"),
        Op::Ack(r) => write!(f, "ACKNACK({})", NAMES[r]),
      }
    }
  }

  #[derive(Debug, Clone, PartialEq)]
  enum Obs {
    Matched { g: GUID, total: (i32, i32), current: (i32, i32) },
    Incompat { g: GUID, count: (i32, i32), policy: QosPolicyId, offered_is_own: bool, requested_is_readers: bool },
    Other(String),
  }

  struct Harness {
    writer: Writer,
    status: StatusChannelReceiver<DataWriterStatus>,
    _keep: Vec<Box<dyn Any>>,
    // model
    matched: BTreeSet<usize>,   // contract model of the match set
    announced: BTreeSet<usize>, // property model: announced and not lost
    qos_of: [Option<bool>; 4],  // the QoS each GUID is announced with (None: not announced)
    keeps_qos: bool,            // no GUID changed its QoS while announced
    total: i32,
    incompat: i32,
    acked_before: [i64; 4],     // acknowledgement state of a matched reader
    trace: Vec<Op>,
  }

  impl Harness {
    fn new(udp_sender: &Rc<UDPSender>) -> Self {
      let (cmd_s, writer_command_receiver) = mio_channel::sync_channel::<WriterCommand>(10);
      let (status_sender, status) = sync_status_channel::<DataWriterStatus>(16).unwrap();
      let (participant_status_sender, pr) = sync_status_channel(16).unwrap();
      let writer = Writer::new(
        WriterIngredients {
          guid: GUID::new(prefix(0), EntityId::new([0, 0, 1], EntityKind::WRITER_NO_KEY_USER_DEFINED)),
          writer_command_receiver,
          writer_command_receiver_waker: Arc::new(Mutex::new(None)),
          topic_name: "xc_topic".to_string(),
          like_stateless: false,
          qos_policies: own_qos(),
          status_sender,
          security_plugins: None,
        },
        Rc::clone(udp_sender),
        mio_extras::timer::Builder::default().build(),
        participant_status_sender,
      );
      Harness {
        writer,
        status,
        _keep: vec![Box::new((cmd_s, pr))],
        matched: BTreeSet::new(),
        announced: BTreeSet::new(),
        qos_of: [None; 4],
        keeps_qos: true,
        total: 0,
        incompat: 0,
        acked_before: [0; 4],
        trace: vec![],
      }
    }

    fn drain(&self) -> Vec<Obs> {
      let mut v = vec![];
      while let Ok(s) = self.status.try_recv() {
        v.push(match s {
          DataWriterStatus::PublicationMatched { total, current, reader } => Obs::Matched {
            g: reader,
            total: (total.count(), total.count_change()),
            current: (current.count(), current.count_change()),
          },
          DataWriterStatus::OfferedIncompatibleQos { count, last_policy_id, reader, requested_qos, offered_qos } => Obs::Incompat {
            g: reader,
            count: (count.count(), count.count_change()),
            policy: last_policy_id,
            offered_is_own: *offered_qos == own_qos(),
            requested_is_readers: *requested_qos == reader_qos(false),
          },
          other => Obs::Other(format!("{other:?}")),
        });
      }
      v
    }

    fn step(&mut self, op: Op) {
      self.trace.push(op);
      let names = |s: &BTreeSet<usize>| s.iter().map(|&r| NAMES[r]).collect::<Vec<_>>();
      let pre = self.matched.clone();
      let pre_total = self.total;
      // ---- model
      let mut exp_incompat: Option<usize> = None;
      let label = match op {
        Op::Announce(r, true) => {
          if self.qos_of[r] == Some(false) { self.keeps_qos = false; }
          self.qos_of[r] = Some(true);
          self.announced.insert(r);
          if self.matched.insert(r) { self.total += 1; self.acked_before[r] = 0; "match.add" } else { "match.readd" }
        }
        Op::Announce(r, false) => {
          if self.qos_of[r] == Some(true) { self.keeps_qos = false; }
          self.qos_of[r] = Some(false);
          self.announced.insert(r);
          self.incompat += 1;
          exp_incompat = Some(r);
          "match.incompat"
        }
        Op::Lost(r) => {
          self.announced.remove(&r);
          self.qos_of[r] = None; // a later announce is a new life of the endpoint
          if self.matched.remove(&r) { "match.remove" } else { "match.unknown" }
        }
        Op::PLost(p) => {
          self.announced.retain(|&r| r / 2 != p);
          self.matched.retain(|&r| r / 2 != p);
          for r in 0..4 { if r / 2 == p { self.qos_of[r] = None; } }
          "match.lost.events"
        }
        Op::Ack(r) => {
          if self.matched.contains(&r) { self.acked_before[r] += 1; }
          "match.frame"
        }
      };
      // ---- the real writer
      let snapshot = self.writer.readers.clone();
      match op {
        // (`let _ =`: independent of what the functions return)
        Op::Announce(r, c) => { let _ = self.writer.update_reader_proxy(&RtpsReaderProxy::new(rguid(r), reader_qos(c), false), &reader_qos(c)); }
        Op::Lost(r) => { let _ = self.writer.reader_lost(rguid(r)); }
        Op::PLost(p) => { let _ = self.writer.participant_lost(prefix(p)); }
        Op::Ack(r) => {
          // what Writer::handle_ack_nack does with the proxy it finds (nothing, if there is none)
          if let Some(rp) = self.writer.readers.get_mut(&rguid(r)) {
            let base = SequenceNumber::new(self.acked_before[r]);
            let mut set = SequenceNumberSet::new(base, 4);
            set.test_insert(base);
            let an = AckNack { reader_id: rguid(r).entity_id, writer_id: EntityId::new([0, 0, 1], EntityKind::WRITER_NO_KEY_USER_DEFINED), reader_sn_state: set, count: self.acked_before[r] as i32 };
            rp.handle_ack_nack(&AckSubmessage::AckNack(an), SequenceNumber::new(100));
          }
        }
      }
      let t = &self.trace;
      // ---- match set
      let real: BTreeSet<usize> = (0..4).filter(|&r| self.writer.readers.contains_key(&rguid(r))).collect();
      assert!(self.writer.readers.len() == real.len(), "XC-WITNESS label=match.frame ops={:?}: the reader map holds GUIDs nobody announced: {:?}", t, self.writer.readers.keys().collect::<Vec<_>>());
      let set_label = if matches!(op, Op::PLost(_)) { "match.lost.set" } else { label };
      assert!(real == self.matched, "XC-WITNESS label={} ops={:?}: match set is {:?}, required {:?} (before the last operation: {:?})", set_label, t, names(&real), names(&self.matched), names(&pre));
      if self.keeps_qos {
        let want: BTreeSet<usize> = self.announced.iter().copied().filter(|&r| self.qos_of[r] == Some(true)).collect();
        assert!(real == want, "XC-WITNESS label=match.lemma.set ops={:?}: match set is {:?} but the announced, QoS-compatible readers are {:?}", t, names(&real), names(&want));
      }
      for (g, rp) in &self.writer.readers {
        assert!(rp.remote_reader_guid == *g, "XC-WITNESS label=match.update.add ops={:?}: proxy of {} stored under the GUID of {}", t, rname(rp.remote_reader_guid), rname(*g));
      }
      // ---- counters
      assert!(self.writer.matched_readers_count_total >= pre_total, "XC-WITNESS label=match.total.mono ops={:?}: total went from {} to {}", t, pre_total, self.writer.matched_readers_count_total);
      assert!(self.writer.matched_readers_count_total == self.total, "XC-WITNESS label={} ops={:?}: total match counter is {}, required {} (one per new match, never decreasing)", label, t, self.writer.matched_readers_count_total, self.total);
      assert!(self.writer.requested_incompatible_qos_count == self.incompat, "XC-WITNESS label=match.incompat.count ops={:?}: incompatible-QoS counter is {}, required {} (one per incompatible announce)", t, self.writer.requested_incompatible_qos_count, self.incompat);
      // ---- status events of this step
      let obs = self.drain();
      let mut cur = pre.len() as i32;
      let mut pending_out: BTreeSet<usize> = pre.difference(&self.matched).copied().collect();
      let mut pending_in: BTreeSet<usize> = self.matched.difference(&pre).copied().collect();
      let expect = format!("{} PublicationMatched(-1) for {:?}, {} PublicationMatched(+1) for {:?}, {} OfferedIncompatibleQos", pending_out.len(), names(&pending_out), pending_in.len(), names(&pending_in), exp_incompat.is_some() as u8);
      let mut tot = pre_total;
      let mut n_incompat = 0;
      for o in &obs {
        match o {
          Obs::Matched { g, total, current } => {
            let r = (0..4).find(|&r| rguid(r) == *g);
            if r.is_some_and(|r| pending_out.remove(&r)) {
              cur -= 1;
              assert!(*current == (cur, -1) && *total == (tot, 0), "XC-WITNESS label=match.status.count ops={:?}: unmatch event for {} says current={:?} total={:?}; required current=({},-1) total=({},0)", t, rname(*g), current, total, cur, tot);
            } else if r.is_some_and(|r| pending_in.remove(&r)) {
              cur += 1;
              tot += 1;
              assert!(*current == (cur, 1) && *total == (tot, 1), "XC-WITNESS label=match.status.count ops={:?}: match event for {} says current={:?} total={:?}; required current=({},1) total=({},1)", t, rname(*g), current, total, cur, tot);
            } else {
              panic!("XC-WITNESS label={} ops={:?}: event {:?} for {} whose membership did not change; expected {}; events of the last operation: {:?}", label, t, o, rname(*g), expect, obs);
            }
          }
          Obs::Incompat { g, count, policy, offered_is_own, requested_is_readers } => {
            n_incompat += 1;
            assert!(n_incompat == 1 && exp_incompat.is_some_and(|r| rguid(r) == *g), "XC-WITNESS label={} ops={:?}: unexpected incompatible-QoS event for {}; expected {}; events of the last operation: {:?}", label, t, rname(*g), expect, obs);
            assert!(*count == (self.incompat, 1) && *policy == QosPolicyId::Durability && *offered_is_own && *requested_is_readers,
              "XC-WITNESS label=match.status.incompat ops={:?}: event says count={:?} policy={:?} offered-is-own-QoS={} requested-is-the-reader's-QoS={}; required count=({},1) policy=Durability true true", t, count, policy, offered_is_own, requested_is_readers, self.incompat);
          }
          Obs::Other(s) => panic!("XC-WITNESS label={} ops={:?}: unexpected status event {}; expected {}", label, t, s, expect),
        }
      }
      assert!(pending_out.is_empty() && pending_in.is_empty() && n_incompat == exp_incompat.is_some() as i32,
        "XC-WITNESS label={} ops={:?}: status events of the last operation are {:?}; expected {} (match set before {:?}, after {:?})", label, t, obs, expect, names(&pre), names(&self.matched));
      // ---- run-time state of every matched proxy
      for &r in &self.matched {
        let rp = &self.writer.readers[&rguid(r)];
        let base = i64::from(rp.all_acked_before);
        assert!(base == self.acked_before[r], "XC-WITNESS label=match.readd.frame ops={:?}: proxy of {} has all_acked_before = {}, but the reader acknowledged everything before {} since it was matched", t, NAMES[r], base, self.acked_before[r]);
        let unsent: Vec<i64> = rp.unsent_changes_iter().map(i64::from).collect();
        let want: Vec<i64> = if self.acked_before[r] > 0 { vec![self.acked_before[r]] } else { vec![] };
        assert!(unsent == want, "XC-WITNESS label=match.readd.frame ops={:?}: proxy of {} has requested changes {:?}, the reader's last ACKNACK asked for {:?}", t, NAMES[r], unsent, want);
      }
      // ---- frame: no operation touches the proxy of another reader; re-announce (same locators and
      //      QoS), loss of another reader and participant loss leave every remaining proxy as it was
      for (g, before) in &snapshot {
        if let Some(after) = self.writer.readers.get(g) {
          let touched = matches!(op, Op::Ack(r) if rguid(r) == *g);
          assert!(touched || after == before, "XC-WITNESS label={} ops={:?}: the last operation changed the proxy of {}: before {:?} after {:?}",
            if matches!(op, Op::Announce(r, _) if rguid(r) == *g) { "match.readd.frame" } else { "match.frame" }, t, rname(*g), before, after);
        }
      }
    }
  }

  fn enumerate(ops: &[Op], max_len: usize) -> (u64, u64) {
    // all sequences of length 1..=max_len, shortest first (-> minimal witnesses); each on a fresh Writer
    let udp_sender = Rc::new(UDPSender::new(0).unwrap());
    let (mut n, mut n_consistent) = (0u64, 0u64);
    for len in 1..=max_len {
      let mut idx = vec![0usize; len];
      'seqs: loop {
        let mut h = Harness::new(&udp_sender);
        for &i in &idx { h.step(ops[i]); }
        n += 1;
        if h.keeps_qos { n_consistent += 1; }
        let mut k = len;
        loop {
          if k == 0 { break 'seqs; }
          k -= 1;
          idx[k] += 1;
          if idx[k] < ops.len() { break; }
          idx[k] = 0;
        }
      }
    }
    (n, n_consistent)
  }

  #[test]
  fn xc_writer_match_set_and_events_len4() {
    let mut ops = vec![];
    for r in 0..4 { ops.push(Op::Announce(r, true)); ops.push(Op::Announce(r, false)); }
    for r in 0..4 { ops.push(Op::Lost(r)); }
    for p in 0..3 { ops.push(Op::PLost(p)); }
    let (n, n_consistent) = enumerate(&ops, 4);
    assert!(n == 15 + 225 + 3375 + 50625, "vacuity guard: {} sequences", n);
    assert!(n_consistent > 40_000, "vacuity guard: only {} histories in which every reader keeps its QoS", n_consistent);
  }

  #[test]
  fn xc_writer_reannounce_keeps_runtime_state_len5() {
    let mut ops = vec![];
    for r in [0, 2] { ops.push(Op::Announce(r, true)); ops.push(Op::Lost(r)); ops.push(Op::Ack(r)); }
    ops.push(Op::PLost(0));
    ops.push(Op::PLost(1));
    let (n, _) = enumerate(&ops, 5);
    assert!(n == 8 + 64 + 512 + 4096 + 32768, "vacuity guard: {} sequences", n);
  }
}
